"""C11 — Test and load agree, and testing has no side effects.

proof      : XmpProps.C11 over XmpModel.TestLoad (every loader table x every stream; every byte string)
tie (T)    : tools/gen_c11.py regenerates XmpModel/Gen/TestLoadConsts.lean (XMP_NAME_SIZE, error codes,
             libxmp_prepare_scan's return values, format_loaders[] / pw_formats[] names, pw_check's title buffer)
tie (C)    : harness/c11_strings.c — (a) libxmp_copy_adjust / libxmp_adjust_string / libxmp_read_title /
             pw_read_title on random byte strings, every destination byte; (b) the REAL test_module/load_module
             walking random synthetic loader tables (harness/c11_table.c replaces format.c), return codes and
             both xmp_test_info arrays and mod->name; (c) the eight public wrappers (argument checks, open
             failures, depack step, caller's FILE, descriptors) — each against the native driver drv_c11
             harness/c11_core.c — the REAL libxmp_loader_{xm,mod,it,s3m}.test on memory / FILE / callback handles, the real
             test_module on the real table and mod->name after real loads, against XmpModel/TestLoadCore.lean (byte-exact
             models of xm_test, mod_test, it_test, s3m_test) on generated and mutated headers
search     : harness/c11_agree.c — the property as stated, on the real loaders: corpus files x truncations x
             bit flips x title-field fills x the four entry-point pairs; container-signature hits and certified near
             misses planted into valid modules; title relation decided by the Lean function (drv_c11 `tm`)
"""
import os
import re
import sys

import vlib

sys.path.insert(0, os.path.dirname(os.path.dirname(os.path.abspath(__file__))))
import gen_c11  # noqa: E402

LEVEL = "proof"
MANIFEST = dict(
    category="proof",
    text="Lean 4 theorems (XmpProps.C11, C11Core, C11CoreRead) over a model of src/load.c's test_module/load_module and the eight public "
         "wrappers, for EVERY loader table and stream: C11_agree (test = 0 <-> load gets past recognition, test = -FORMAT <-> load = -FORMAT, "
         "same depack/system error otherwise, given each loader's test() is a function of the stream whose verdict does not depend on the "
         "title pointer), C11_strings, C11_title (libxmp_copy_adjust and libxmp_adjust_string agree up to the canonical form on every byte "
         "string), C11_no_side_effect (caller's FILE never closed and always recoverable by one rewind, library's own FILE closed exactly "
         "once). For the four core formats the test functions xm_test, mod_test (magic table, header sanity loop, UNIC size test, pattern "
         "validation), it_test, s3m_test are modelled byte-exactly and the per-loader hypotheses are DISCHARGED: C11_core_premise, "
         "C11_agree_core(_four), C11_core_verdict (a core probe accepts => test returns 0 with that format and load returns 0/-LOAD/-SYSTEM, "
         "never -FORMAT, whatever follows in the table), C11_core_reject, C11_core_title (test title = loaded title up to the replacement "
         "characters, strictly, end to end through both dispatch loops, for every accepted input), C11_core_read_title/_accepts (agreement "
         "with C19's byte-level readers). For ALL loaders, facts regenerated from the sources are decided: every test function stores its "
         "title only through libxmp_read_title / libxmp_copy_adjust / pw_read_title or sets it empty; the loaders that set it empty or "
         "conditionally are exactly the known findings; the title width a test function reads equals the width its loader stores "
         "(C11_title_widths; UMX against the wrapped formats); a test function that walks chunks steps exactly like its loader's IFF walk "
         "(C11_chunk_steps). Tied to the C on every run by differential correspondences (real string "
         "helpers, real test_module/load_module on synthetic tables whose loaders also produce marker-led / empty order lists, with the observed "
         "results of libxmp_prepare_scan and libxmp_scan_sequences (link-level spies) handed to the model, real wrappers, the real core test functions on three back-ends and the "
         "real table) and a direct oracle on the real loaders over the corpus with truncations, bit flips, title-field fills, junk / decoy chunks in front "
         "of the title chunk of chunk-walking formats, order lists that start with / consist of end and skip markers, name no stored pattern or are empty (modules that are "
         "recognised and loaded but fail in prepare_scan / scan_sequences), a return-code vocabulary oracle (0 or a documented error "
         "code on every entry point), and planted container signatures (13 built-in depackers and the two external-helper "
         "signatures, exact hits and certified near misses) through all four entry-point pairs.",
    note="Trusted: Lean kernel, the hand-written models XmpModel/TestLoad.lean and TestLoadCore.lean, tools/gen_c11.py, harnesses and "
         "differ. Modelled-not-verified: the *_test/*_load pairs of the ~49 non-core formats and the 43 ProWizard detectors are parameters "
         "of the model (their mutual consistency and their title extraction are searched by the oracle; only their syntactic title "
         "discipline and literal title widths are decided over regenerated facts); the bodies of the four core loaders are parameters "
         "except for the bytes they store in mod->name (tied by comparing mod->name after real loads); C11_core_read_accepts is not proved "
         "for MOD (C19's reader inlines mod_test in another shape); libxmp_decrunch is a parameter (its verdict is taken from the real "
         "function; container-ness of planted near misses is certified by the generator, independent of the code); allocation failures "
         "inside the wrappers are not modelled. Correspondence is sampled (differential), not exhaustive.",
    technique="Lean 4 proof by induction over the loader table with a same-data invariant; byte-exact models of four test functions; "
              "decide over regenerated source facts; differential correspondence; corpus mutation oracle",
    design_ref="DESIGN.md section 4 C11",
)
REQUIRED = ["Xmp.TestLoad." + n for n in (
    "C11_agree", "C11_agree_wrappers", "C11_agree_needs_nonpos", "C11_strings_failure", "C11_strings_success",
    "C11_strings_success_partial", "C11_strings_counterexample", "C11_strings_wrapper_counterexample",
    "C11_strings_wrappers_partial", "C11_strings_wrappers", "C11_title", "C11_title_strict", "C11_title_buffers", "C11_title_raw", "C11_title_exact",
    "C11_no_side_effect", "C11_no_leak", "C11_no_close_mem_cb", "C11_codes_distinct", "C11_prepare_scan_codes",
    "C11_table_names",
    # core formats (XmpProps.C11Core)
    "C11_core_table_head", "C11_core_calls", "C11_core_names", "C11_core_premise", "C11_agree_core", "C11_agree_core_four",
    "C11_core_verdict", "C11_core_reject", "C11_core_title_bytes", "C11_core_title",
    # regenerated facts about all test functions, FILE usability (XmpProps.C11Core)
    "C11_tests_title_discipline", "C11_tests_title_deviants", "C11_title_widths", "C11_title_widths_coverage", "C11_chunk_steps", "C11_file_usable",
    # C19 readers (XmpProps.C11CoreRead)
    "C11_core_read_title", "C11_core_read_accepts")]

STRINGS_WRAP = ["-Wl,--wrap=libxmp_prepare_scan", "-Wl,--wrap=libxmp_scan_sequences"]
GARB_BUF = 0xDD
GARB_PW = 0xEE


def hexb(s):
    return b"" if s in ("-", "null", "none") else bytes.fromhex(s)


def cstr(b):
    i = b.find(b"\0")
    return b if i < 0 else b[:i]


# --------------------------------------------------------------------------
# correspondence
# --------------------------------------------------------------------------

def split_qa(text):
    """-> list of cases; a case = (q_lines, a_lines); a case ends when a Q follows an A."""
    cases, q, a = [], [], []
    for line in text.splitlines():
        if line.startswith("Q "):
            if a:
                cases.append((q, a))
                q, a = [], []
            q.append(line[2:])
        elif line.startswith("A "):
            a.append(line[2:])
    if q or a:
        cases.append((q, a))
    return cases


def cmp_name_with_garbage(real, model, marker):
    """Compare a 64-byte array where the model marks uninitialised source bytes with `marker`."""
    k = model.find(bytes([marker]))
    if k < 0:
        return real == model, False
    return real[:k] == model[:k] and len(real) == len(model) and real[-1:] == model[-1:], True


def compare_case(q, a, m, stats):
    """a: real answers, m: model answers (same count expected). Returns None or a description."""
    extra = [x for x in a if x.startswith(("overrun", "fdleak"))]
    a = [x for x in a if not x.startswith(("overrun", "fdleak"))]
    if extra:
        return "real code: " + extra[0]
    if len(a) != len(m):
        return "answer count differs: real %d model %d" % (len(a), len(m))
    pwhit = any(x.startswith("env ") and len(x.split(" ")) == 5 for x in q)
    haspw = any(x.startswith("L 70726f77697a617264 ") for x in q)
    for ra, ma in zip(a, m):
        rf, mf = ra.split(" "), ma.split(" ")
        tag = rf[0]
        if tag in ("test", "wtest"):
            if rf[1] != mf[1]:
                return "%s return code: real %s model %s" % (tag, rf[1], mf[1])
            if rf[2] == "null" or mf[2] == "null":
                if rf[2:4] != mf[2:4]:
                    return "%s info NULL handling differs" % tag
            else:
                rn, mn, rt, mt = hexb(rf[2]), hexb(mf[2]), hexb(rf[3]), hexb(mf[3])
                if rf[1] == "0" and haspw and pwhit and cstr(mt) in PWNAMES:
                    # ProWizard path: title[21] may hold stack garbage (F15): compare what is defined
                    stats["pw_hits"] += 1
                    env = [x for x in q if x.startswith("env ")][0].split(" ")
                    title = hexb(env[3])
                    if b"\0" in title:
                        if cstr(rn) != cstr(mn) or rn[21:] != mn[21:]:
                            return "%s name (ProWizard) differs: real %s model %s" % (tag, rn.hex(), mn.hex())
                    else:
                        stats["pw_untitled"] += 1
                        if rn[21:] != mn[21:]:
                            return "%s name tail (ProWizard) differs" % tag
                    if rt != mt:
                        return "%s type differs: real %s model %s" % (tag, rt.hex(), mt.hex())
                else:
                    ok, garb = cmp_name_with_garbage(rn, mn, GARB_BUF)
                    stats["uninit_buf_cases"] += 1 if garb else 0
                    if not ok:
                        return "%s name differs: real %s model %s" % (tag, rn.hex(), mn.hex())
                    if rt != mt:
                        return "%s type differs: real %s model %s" % (tag, rt.hex(), mt.hex())
            if tag == "wtest" and rf[4:] != mf[4:]:
                return "wtest FILE/descriptor columns differ: real %s model %s" % (rf[4:], mf[4:])
            stats["rc_" + tag + "_" + rf[1]] = stats.get("rc_" + tag + "_" + rf[1], 0) + 1
        elif tag in ("load", "wload"):
            if rf != mf:
                return "%s differs: real %s model %s" % (tag, " ".join(rf)[:200], " ".join(mf)[:200])
            stats["rc_" + tag + "_" + rf[1]] = stats.get("rc_" + tag + "_" + rf[1], 0) + 1
        else:
            if ra != ma:
                return "%s differs: real %s model %s" % (tag, ra[:200], ma[:200])
            stats["fn_" + tag] = stats.get("fn_" + tag, 0) + 1
    return None


PWNAMES = set()
WALKERS = []             # format names whose test function walks chunks (translator)
NOTES = []
PWUNTITLED = set()
PW_TITLE_INIT = False


def run_corr_shard(args):
    exe, mode, seed, n, rest = args
    rc, out, err = vlib.run_exe(exe, [mode, str(seed), str(n)] + rest, timeout=1200)
    return rc, out.decode("latin-1"), err


def make_containers(ck, scratch):
    """gzip/bzip2/xz/zip archives (python's encoders) of small synthetic payloads, intact and damaged:
    inputs on which the depack step of the path/FILE wrappers does something."""
    import bz2
    import gzip
    import io
    import lzma
    import zipfile
    out = []
    d = os.path.join(scratch, "containers")
    os.makedirs(d, exist_ok=True)
    for k in range(6):
        n = ck.rng.randrange(120, 400)
        payload = bytes([ck.rng.randrange(0, 12)]) + bytes(ck.rng.choice(b" AbC.z\x01\x7f\x00\xe9") if ck.rng.random() < 0.3
                                                            else ck.rng.randrange(1, 256) for _ in range(n))
        payload = payload.replace(b"\xdd", b"d").replace(b"\xee", b"e")
        zb = io.BytesIO()
        with zipfile.ZipFile(zb, "w", zipfile.ZIP_DEFLATED) as z:
            z.writestr("song%d.bin" % k, payload)
        encs = {"gz": gzip.compress(payload), "bz2": bz2.compress(payload),
                "xz": lzma.compress(payload, check=lzma.CHECK_CRC32), "zip": zb.getvalue()}
        for ext, blob in encs.items():
            variants = {"ok": blob, "trunc": blob[:max(101, len(blob) * 2 // 3)]}
            b2 = bytearray(blob)
            pos = ck.rng.randrange(len(b2) // 2, len(b2) - 8)
            b2[pos] ^= 1 << ck.rng.randrange(8)
            variants["flip"] = bytes(b2)
            for vn, vb in variants.items():
                p = os.path.join(d, "c%d-%s.%s" % (k, vn, ext))
                open(p, "wb").write(vb)
                out.append(p)
    return out


def correspondence(ck, exe, scratch, pool):
    quick = ck.tier == "quick"
    cont = make_containers(ck, scratch)
    plan = [("strings", 4, 2500 if quick else 40000, []),
            ("table", 6, 400 if quick else 6000, [scratch] + pool),
            ("wrap", 4, 200 if quick else 2500, [scratch] + pool[:10] + cont)]
    shards = []
    for mode, ns, per, rest in plan:
        for i in range(ns):
            shards.append((exe, mode, ck.seed * 104729 + 977 * i + vlib.hash_str(mode) % 1000, per, rest))
    results = vlib.pmap(run_corr_shard, shards)
    stats = {"pw_hits": 0, "pw_untitled": 0, "uninit_buf_cases": 0}
    ncases = {"strings": 0, "table": 0, "wrap": 0}
    for (rc, out, err), sh in zip(results, shards):
        mode = sh[1]
        if rc != 0:
            sig = vlib.sanitizer_signature(err)
            ck.violation("harness-abort:%s:%s" % (mode, sig),
                         {"cmd": ["c11_strings", mode, str(sh[2]), str(sh[3])] + sh[4], "stderr": err[-3000:]},
                         "c11_strings %s aborted (rc=%d): %s" % (mode, rc, sig))
            continue
        cases = split_qa(out)
        if not ck.lean_ok:
            continue
        text = "\n".join("\n".join(q) for q, _ in cases) + "\n"
        mo = vlib.run_driver("drv_c11", text)
        mi = 0
        for q, a in cases:
            na = len([x for x in a if not x.startswith(("overrun", "fdleak"))])
            m = mo[mi:mi + na]
            mi += na
            ncases[mode] += 1
            why = compare_case(q, a, m, stats)
            key = vlib.hash_str("\n".join(q))
            nontriv = True
            if mode == "strings":
                f = q[0].split(" ")
                raw = hexb(f[-1])
                nontriv = any(c < 32 or c > 126 for c in cstr(raw)) or cstr(raw).endswith(b" ")
            ck.count(key, nontrivial=nontriv)
            if ncases[mode] <= 1:
                ck.sample({"correspondence": mode, "driver_input": [x[:160] for x in q[-3:]], "real": [x[:160] for x in a[:2]]}, limit=6)
            if why is None:
                ck.cov["traces_validated_against_impl"] += 1
            else:
                fleak = why.startswith("real code: fdleak")
                over = why.startswith("real code: overrun")
                if fleak or over:
                    ck.violation(("side-effect:fdleak" if fleak else "strings:overrun"),
                                 {"mode": mode, "seed": sh[2], "n": sh[3], "case": q, "real": a}, why)
                else:
                    ck.unproved("correspondence TestLoad (%s) vs src/load.c, loaders/common.c" % mode,
                                "%s ; driver input:\n%s\nreal:\n%s\nmodel:\n%s" % (
                                    why, "\n".join(x[:300] for x in q), "\n".join(x[:300] for x in a),
                                    "\n".join(x[:300] for x in m)))
                    return stats, ncases
    return stats, ncases


# --------------------------------------------------------------------------
# correspondence: the four core test functions (harness/c11_core.c vs XmpModel/TestLoadCore.lean)
# --------------------------------------------------------------------------

CORE_NAMES = []          # format_loaders[0..3]->name, from the translator


def mod_branch(d):
    """which statement of mod_test decides on this input (coverage bookkeeping only; the verdict itself is
    compared between the real function and the Lean model)"""
    if len(d) < 1084:
        return "short"
    mg = d[1080:1084]
    if (mg[2:] == b"CH" and mg[:2].isdigit() and 0 < int(mg[:2]) <= 32) or (mg[1:] == b"CHN" and mg[:1].isdigit() and mg[:1] != b"0"):
        return "digits"
    tbl = dict(MOD_MAGIC)
    if mg not in tbl:
        return "no-magic"
    for i in range(31):
        h = d[20 + 30 * i:50 + 30 * i]
        if (h[24] & 0xf0 and h[24] != 0x20):
            return "finetune"
        if h[25] > 0x40:
            return "volume"
    if tbl[mg]:
        return "detected"
    smp = sum(2 * int.from_bytes(d[42 + 30 * i:44 + 30 * i], "big") for i in range(31))
    mx = 0
    for x in d[952:1080]:
        if x > 0x7f:
            break
        mx = max(mx, x)
    npat = mx + 1
    if 1084 + npat * 0x300 + smp == len(d):
        return "unic-size"
    if 1084 + 1024 * npat > len(d):
        return "pattern-cut"
    bad = sum(1 for i in range(npat) if any(d[1084 + 1024 * i + 4 * c] >> 4 > 1 for c in range(256)))
    return "bad-patterns>2" if bad > 2 else "validated(bad=%d)" % bad


MOD_MAGIC = []


def run_core_shard(args):
    exe, a = args
    rc, out, err = vlib.run_exe(exe, a, timeout=1200)
    return rc, out.decode("latin-1"), err


def correspondence_core(ck, g):
    """real libxmp_loader_{xm,mod,it,s3m}.test (memory / FILE / callback handles), the real test_module on the real
    table, and mod->name after a real load, against the Lean model of the four test functions."""
    global CORE_NAMES, MOD_MAGIC
    CORE_NAMES = [n.encode() for n in g["names"][:4]]
    MOD_MAGIC = [(a.encode("latin-1"), b) for a, b in g["mod_magic"]]
    quick = ck.tier == "quick"
    exe = vlib.build_harness("c11_core", ["c11_core.c"])
    files = [f for f in vlib.corpus_files() if os.path.getsize(f) < 49152 and
             f.lower().rsplit(".", 1)[-1] in ("xm", "mod", "it", "s3m")]
    files.sort()
    ck.rng.shuffle(files)
    files = files[:48 if quick else 400]
    nsh = 4 if quick else 12
    shards = [(exe, ["hdr", str(ck.seed * 7919 + 31 * i + 5), str(250 if quick else 2500)]) for i in range(nsh)]
    shards += [(exe, ["files", str(ck.seed * 6151 + i), str(2 if quick else 8)] + files[i::nsh]) for i in range(nsh) if files[i::nsh]]
    stats = {"ct": 0, "cw_hit": 0, "cw_other": 0, "cn": 0, "accept": {}, "mod_branch": {}, "title_pairs": 0}
    for (rc, out, err), sh in zip(vlib.pmap(run_core_shard, shards), shards):
        if rc != 0:
            sig = vlib.sanitizer_signature(err)
            ck.violation("harness-abort:core:%s" % sig, {"cmd": ["c11_core"] + sh[1], "stderr": err[-3000:]},
                         "c11_core %s aborted (rc=%d): %s" % (sh[1][0], rc, sig))
            continue
        cases = split_qa(out)
        if not ck.lean_ok:
            continue
        mo = vlib.run_driver("drv_c11", "".join(q[0] + "\n" for q, _ in cases))
        if len(mo) != len(cases):
            ck.unproved("correspondence TestLoadCore vs loaders/{xm,mod,it,s3m}_load.c", "driver answered %d lines for %d requests" % (len(mo), len(cases)))
            return stats
        last_cw = None
        tpairs = []
        for (q, a), m in zip(cases, mo):
            qf = q[0].split(" ")
            tag = qf[0]
            why = None
            if tag == "ct":
                extra = [x for x in a if x.startswith("backend")]
                if extra:
                    why = "the back-ends disagree on the real code: " + extra[0][:200]
                elif len(a) != 1 or a[0] != m:
                    why = "test function %s_test differs" % qf[1]
                else:
                    f = a[0].split(" ")
                    stats["ct"] += 1
                    if f[1] == "0":
                        stats["accept"][qf[1]] = stats["accept"].get(qf[1], 0) + 1
                    if qf[1] == "mod" and len(f) > 1 and f[1] != "skip":
                        b = mod_branch(hexb(qf[2]))
                        stats["mod_branch"][b] = stats["mod_branch"].get(b, 0) + 1
                ck.count(vlib.hash_str(q[0]), nontrivial=True)
            elif tag == "cw":
                r = a[0].split(" ")
                last_cw = r
                if m == "cw none":
                    stats["cw_other"] += 1
                    if r[1] == "0" and hexb(r[2]) in CORE_NAMES:
                        why = "the model says no core test accepts, the real test_module reports '%s'" % hexb(r[2]).decode("latin-1")
                else:
                    stats["cw_hit"] += 1
                    if a[0] != m:
                        why = "test_module on the real table differs from the four-entry model"
                ck.count(vlib.hash_str(q[0]), nontrivial=(m != "cw none"))
            elif tag == "cn":
                stats["cn"] += 1
                if len(a) != 1 or a[0] != m:
                    why = "mod->name left by %s_load differs" % qf[1]
                if last_cw is not None and len(a) == 1:
                    tpairs.append((cstr(hexb(last_cw[3])).hex(), cstr(hexb(a[0].split(" ")[1])).hex(), qf[1], q[0]))
                ck.count(vlib.hash_str(q[0]), nontrivial=True)
            if why is None:
                ck.cov["traces_validated_against_impl"] += 1
            else:
                ck.unproved("correspondence TestLoadCore vs loaders/{xm,mod,it,s3m}_load.c",
                            "%s ; driver input: %s\nreal:\n%s\nmodel:\n%s" % (why, q[0][:400], "\n".join(x[:400] for x in a), m[:400]))
                return stats
        # direct oracle on the same runs: test title vs loaded title (the property's title clause)
        verdict = eval_titles(ck, [(t, l) for t, l, _, _ in tpairs])
        for t, l, fmt, q in tpairs:
            stats["title_pairs"] += 1
            canon_ok, strict_ok = verdict.get((t, l), (True, True))
            if not (canon_ok and strict_ok):
                ck.violation("title:core:%s" % fmt, {"case": [q]},
                             "%s: test title %r does not match loaded title %r" % (fmt, hexb(t), hexb(l)))
    return stats


# --------------------------------------------------------------------------
# container-signature collisions (certified non-containers through all four pairs)
# --------------------------------------------------------------------------

def _hx(b):
    return b.hex()


# (container, "hit" | "miss", variant ops).  A "hit" is the documented signature of that container format; a "miss" differs
# from it in a way the format's documentation excludes (and is no other container's signature): bytes planted at the
# start of a module (where MOD / S3M / STM / ... keep their title) that must NOT make the file a container.
SIG_PLANTS = [
    ("zip", "hit", "h:0." + _hx(b"PK\x03\x04")), ("zip", "hit", "h:0." + _hx(b"PK00PK\x03\x04")),
    ("zip", "miss", "h:0." + _hx(b"PK\x03\x05")), ("zip", "miss", "h:0." + _hx(b"PK\x04\x04")),
    ("zip", "miss", "h:0." + _hx(b"PK00PK\x03\x05")), ("zip", "miss", "h:0." + _hx(b"PL\x03\x04")),
    ("lha", "hit", "h:2." + _hx(b"-lh5-") + ";z:20.0"), ("lha", "miss", "h:2." + _hx(b"-lh5-") + ";z:20.4"),
    ("lha", "miss", "h:2." + _hx(b"-lh5+") + ";z:20.0"), ("lha", "miss", "h:2." + _hx(b"-lg5-") + ";z:20.0"),
    ("lha", "miss", "h:2." + _hx(b"+lh5-") + ";z:20.0"),
    ("gzip", "hit", "h:0.1f8b08"), ("gzip", "miss", "h:0.1f8a08"), ("gzip", "miss", "h:0.1e8b08"), ("gzip", "miss", "h:0.1f8c08"),
    ("bzip2", "hit", "h:0." + _hx(b"BZh9")), ("bzip2", "miss", "h:0." + _hx(b"BZg9")), ("bzip2", "miss", "h:0." + _hx(b"BYh9")),
    ("bzip2", "miss", "h:0." + _hx(b"bZh9")), ("bzip2", "miss", "h:0." + _hx(b"BZi9")),
    ("xz", "hit", "h:0.fd377a585a00"), ("xz", "miss", "h:0.fd377a585a01"), ("xz", "miss", "h:0.fd377a585b00"),
    ("xz", "miss", "h:0.fc377a585a00"),
    ("compress", "hit", "h:0.1f9d90"), ("compress", "miss", "h:0.1f9c90"), ("compress", "miss", "h:0.1f9e90"),
    ("pp", "hit", "h:0." + _hx(b"PP20")), ("pp", "miss", "h:0." + _hx(b"PP21")), ("pp", "miss", "h:0." + _hx(b"QP20")),
    ("pp", "miss", "h:0." + _hx(b"PP2\x00")),
    ("sqsh", "hit", "h:0." + _hx(b"XPKF\x00\x00\x01\x00SQSH")), ("sqsh", "miss", "h:0." + _hx(b"XPKF\x00\x00\x01\x00SQSI")),
    ("sqsh", "miss", "h:0." + _hx(b"XPKG\x00\x00\x01\x00SQSH")),
    ("arc", "hit", "h:0." + _hx(b"\x1a\x02ABC\x00")), ("arc", "hit", "h:0." + _hx(b"\x1a\x08ABCDEFGH.MOD\x00")),
    # the 13-byte name field without its terminator / with a control character / wrong marker byte
    ("arc", "miss", "h:0." + _hx(b"\x1a\x02ABCDEFGHIJKLMNOPQR")), ("arc", "miss", "h:0." + _hx(b"\x1a\x02ABCDEFGHIJKLM\x00")),
    ("arc", "miss", "h:0." + _hx(b"\x1a\x02AB\x01C\x00")), ("arc", "miss", "h:0." + _hx(b"\x1a\x02AB\x7f\x00")),
    ("arc", "miss", "h:0." + _hx(b"\x1b\x02ABC\x00")),
    ("arcfs", "hit", "h:0." + _hx(b"Archive\x00")), ("arcfs", "miss", "h:0." + _hx(b"Archive\x01")),
    ("arcfs", "miss", "h:0." + _hx(b"Archivf\x00")),
    ("mmcmp", "hit", "h:0." + _hx(b"ziRCONia")), ("mmcmp", "miss", "h:0." + _hx(b"ziRCONib")), ("mmcmp", "miss", "h:0." + _hx(b"ziRCONiA")),
    ("lzx", "hit", "h:0." + _hx(b"LZX")), ("lzx", "miss", "h:0." + _hx(b"LZY")), ("lzx", "miss", "h:0." + _hx(b"KZX")),
    ("lzx", "miss", "h:0." + _hx(b"LzX")),
    ("s404", "hit", "h:0." + _hx(b"S404")), ("s404", "miss", "h:0." + _hx(b"S405")), ("s404", "miss", "h:0." + _hx(b"S4O4")),
    ("s404", "miss", "h:0." + _hx(b"T404")),
    # the two external-helper signatures of libxmp_decrunch (`MO3`, `Rar` at offset 0): a helper is only ever run when a
    # file NAME is known, so on a caller's FILE (a stream) these bytes are no container at all: "stream" = certified like a miss
    ("rar", "stream", "h:0." + _hx(b"Rar")), ("rar", "stream", "h:0." + _hx(b"Rar!\x1a\x07\x00")),
    ("rar", "stream", "h:0." + _hx(b"Rarefied air")),
    ("rar", "miss", "h:0." + _hx(b"Rbr!")), ("rar", "miss", "h:0." + _hx(b"RaR!")), ("rar", "miss", "h:0." + _hx(b"rar!")),
    ("mo3", "stream", "h:0." + _hx(b"MO3")), ("mo3", "stream", "h:0." + _hx(b"MO3\x05 module")),
    ("mo3", "miss", "h:0." + _hx(b"MO2")), ("mo3", "miss", "h:0." + _hx(b"NO3")), ("mo3", "miss", "h:0." + _hx(b"mo3")),
]


def synth_mod():
    """a valid, loadable 4-channel MOD: title at offset 0, one empty pattern, no sample data"""
    ins = b"".join((b"ins%02d" % i).ljust(22, b"\0") + b"\0\0" + b"\0" + b"\x40" + b"\0\0" + b"\0\1" for i in range(31))
    return b"verif signature test".ljust(20, b"\0") + ins + bytes([1, 0x7f]) + bytes(128) + b"4CHN" + bytes(1024)


def signature_cases(ck, scratch):
    """(variant, path) list: every planted prefix on a synthetic MOD and on small real modules of formats that keep
    their title at the start of the file"""
    base = os.path.join(scratch, "sigbase.mod")
    open(base, "wb").write(synth_mod())
    bases = [base]
    want = {"mod": 2, "s3m": 1, "stm": 1, "xm": 1, "it": 1}
    for f in sorted(vlib.corpus_files(), key=lambda f: (os.path.getsize(f), f)):
        ext = f.lower().rsplit(".", 1)[-1]
        if want.get(ext, 0) > 0 and 2000 < os.path.getsize(f) < 60000:
            want[ext] -= 1
            bases.append(f)
    out = []
    for i, b in enumerate(bases):
        # the synthetic module and the first real one get every plant; the others a seed-dependent sample
        plants = SIG_PLANTS if i < 2 or ck.tier != "quick" else ck.rng.sample(SIG_PLANTS, 12)
        for cont, kind, ops in plants:
            out.append((("N;" if kind in ("miss", "stream") else "") + ops, b, cont, kind))
    return out


# --------------------------------------------------------------------------
# modules that pass recognition and the loader but give the post-load stages (prepare_scan / scan_sequences) trouble
# --------------------------------------------------------------------------

def synth_s3m():
    """a minimal loadable ST3 module: one empty instrument, one empty pattern, orders `00 ff`"""
    import struct
    hdr = b"verif order list test".ljust(28, b"\0") + b"\x1a\x10\0\0"
    hdr += struct.pack("<HHHHHH", 2, 1, 1, 0, 0x1320, 2) + b"SCRM"
    hdr += bytes([64, 6, 125, 0x30, 0, 0]) + bytes(8) + b"\0\0" + bytes([0] + [0xff] * 31)
    assert len(hdr) == 96
    body = hdr + bytes([0, 0xff])
    ins_para, pat_para = 7, 12                      # 112, 192
    body += struct.pack("<H", ins_para) + struct.pack("<H", pat_para)
    body = body.ljust(ins_para * 16, b"\0")
    body += (bytes(1) + bytes(12) + bytes(3) + bytes(12) + bytes([0, 0, 0, 0]) + struct.pack("<I", 8363) + bytes(12) +
             b"empty".ljust(28, b"\0") + b"SCRS")
    body = body.ljust(pat_para * 16, b"\0")
    body += struct.pack("<H", 66) + bytes(64)
    return body


def order_list_of(d):
    """(offset of the order list, number of entries, ops that set the song length to 0) for the four core formats"""
    if len(d) > 100 and d[44:48] == b"SCRM":
        return 96, int.from_bytes(d[32:34], "little"), "z:32.0;z:33.0"
    if len(d) > 200 and d[:4] == b"IMPM":
        return 192, int.from_bytes(d[32:34], "little"), "z:32.0;z:33.0"
    if len(d) > 100 and d[:17] == b"Extended Module: ":
        return 80, int.from_bytes(d[64:66], "little"), "z:64.0;z:65.0"
    if len(d) > 1084 and (d[1080:1084] in (b"M.K.", b"M!K!", b"FLT4") or d[1081:1084] == b"CHN" or d[1082:1084] == b"CH"):
        return 952, d[950], "z:950.0"
    return None


def order_cases(ck, scratch):
    """(variant, path): order lists that start with / consist of end and skip markers, name no stored pattern, or are
    empty, on synthetic and real S3M / IT / XM / MOD modules: recognised and loaded, then up to the scan"""
    bases = []
    for name, blob in (("ordbase.s3m", synth_s3m()), ("ordbase.mod", synth_mod())):
        p = os.path.join(scratch, name)
        open(p, "wb").write(blob)
        bases.append(p)
    want = {"s3m": 3, "it": 3, "xm": 3, "mod": 2}
    for f in sorted(vlib.corpus_files(), key=lambda f: (os.path.getsize(f), f)):
        ext = f.lower().rsplit(".", 1)[-1]
        if want.get(ext, 0) > 0 and 1500 < os.path.getsize(f) < 80000 and "/f/" not in f:
            want[ext] -= 1
            bases.append(f)
    out = []
    for b in bases:
        d = open(b, "rb").read()
        ol = order_list_of(d)
        if ol is None or ol[1] == 0:
            continue
        off, n, len0 = ol
        n = min(n, 40)
        orig = d[off:off + n]
        for what, ops in (
                ("end-first", "h:%d.%s" % (off, (b"\xff" + orig[:n - 1]).hex())),
                ("end-first-overwrite", "z:%d.255" % off),
                ("all-end", "h:%d.%s" % (off, (b"\xff" * n).hex())),
                ("skip-first", "h:%d.%s" % (off, (b"\xfe" + orig[:n - 1]).hex())),
                ("all-skip", "h:%d.%s" % (off, (b"\xfe" * n).hex())),
                ("skip-then-end", "h:%d.%s" % (off, (b"\xfe\xff" + orig[:max(0, n - 2)])[:n].hex())),
                ("no-such-pattern-first", "h:%d.%s" % (off, (b"\xfd" + orig[:n - 1]).hex())),
                ("all-no-such-pattern", "h:%d.%s" % (off, (b"\xfd" * n).hex())),
                ("length-0", len0)):
            out.append((ops, b, what))
    return out


# --------------------------------------------------------------------------
# direct oracle
# --------------------------------------------------------------------------

def type_key(t):
    """short, stable key of a format name: 'DIGI Booster' -> 'digi', 'Fuchs Tracker' -> 'fuchs'; a trailing number is kept
    ('Epic MegaGames MASI 16' -> 'epic16', distinct from 'Epic MegaGames MASI' -> 'epic')"""
    w = re.sub(r"[^a-z0-9 ]", "", t.decode("latin-1").lower()).split()
    if not w:
        return "none"
    return w[0] + (w[-1] if len(w) > 1 and w[-1].isdigit() else "")


def title_signature(ftype, uninit=False, test_title=b"", load_title=b""):
    """Signature of a title finding, keyed by cause where the cause is known, else by format."""
    pw = ftype in PWNAMES
    if uninit:
        # one defect each: pw_check's local title[21] / test_module's local buf[XMP_NAME_SIZE] are copied
        # to the caller although the detector / the loader's test() never wrote them
        return "title:prowizard:uninit" if pw else "title:test_module:uninit"
    if pw and not PW_TITLE_INIT and ftype in PWUNTITLED:
        return "title:prowizard:uninit"
    if pw and len(test_title) == 20 and len(load_title) > 20:
        # pw_load prints mh.name (20 bytes, no terminator) with "%s": the loaded title runs into the
        # first instrument name
        return "title:prowizard:name-overrun"
    return ("title:prowizard:" if pw else "title:") + type_key(ftype)


def run_oracle_shard(args):
    exe, seed, nmut, maxsize, scratch, bystander, files = args
    os.makedirs(scratch, exist_ok=True)
    rc, out, err = vlib.run_exe(exe, ["run", str(seed), str(nmut), str(maxsize), scratch, bystander] + files,
                                timeout=3000, env={"MSAN_OPTIONS": "halt_on_error=1:exit_code=86",
                                                   "C11_CHUNK_WALKERS": "|" + "|".join(WALKERS) + "|"})
    return rc, out.decode("latin-1"), err


def parse_oracle(out, err):
    """-> list of per-file dicts {file, R:[..], T:[..], V:[..], P:[..], X:(what,status,last B), stderr}"""
    errs = {}
    cur = None
    for block in re.split(r"^@@F ", err, flags=re.M)[1:]:
        name, _, rest = block.partition("\n")
        errs[name] = rest
    files, f, lastb = [], None, None
    for line in out.splitlines():
        tag = line[:2]
        if tag == "N ":
            NOTES.append(line[2:])
        elif tag == "F ":
            f = {"file": line[2:], "R": [], "T": [], "V": [], "P": [], "X": None}
            lastb = None
        elif f is None:
            continue
        elif tag == "B ":
            lastb = line[2:]
        elif tag == "R ":
            f["R"].append(line[2:].split(" "))
        elif tag == "T ":
            f["T"].append(line[2:].split(" "))
        elif tag == "V ":
            f["V"].append(line[2:])
        elif tag == "P ":
            f["P"].append(line[2:])
        elif tag == "X ":
            f["X"] = (line[2:], lastb)
        elif tag == "E ":
            f["stderr"] = errs.get(f["file"], "")
            files.append(f)
            f = None
    return files


def replay_obj(exe_name, f, variant, pair=None):
    return {"file": f, "variant": variant, "pair": pair,
            "how": "python3 tools/check.py C11 --replay <this file>  (runs: %s replay <scratch> <bystander> <file> <variant>)" % exe_name}


def eval_titles(ck, items):
    """items: list of (thex, lhex) -> list of bool via the Lean function titleMatch (driver `tm`)."""
    uniq = sorted(set(items))
    if not uniq:
        return {}
    outl = vlib.run_driver("drv_c11", "".join("tm %s %s\n" % (t or "-", l or "-") for t, l in uniq))
    return {k: (o.split(" ")[1] == "1", o.split(" ")[4] == "1") for k, o in zip(uniq, outl)}


def judge_files(ck, files, exe_name, stats, msan=False):
    titles = []
    for f in files:
        for t in f["T"]:
            titles.append((t[2], t[3]))
    verdict = eval_titles(ck, titles) if ck.lean_ok else {}
    for f in files:
        fname = f["file"]
        short = os.path.basename(fname)
        for r in f["R"]:
            variant, pair, trc, lrc, cont = r[0], r[1], r[2], r[3], r[4]
            if not msan:
                stats["pairs"] += 1
                stats["by_pair"][pair] = stats["by_pair"].get(pair, 0) + 1
                k = "test=%s,load=%s" % (trc, lrc)
                stats["rc_table"][k] = stats["rc_table"].get(k, 0) + 1
                if cont == "1":
                    stats["container_variants"] += 1
                if variant != "o":
                    stats["mutated_pairs"] += 1
                for op in sorted({x[:1] for x in variant.split(";") if x[:1] in "tfzhwc"}):
                    stats.setdefault("by_op", {})
                    stats["by_op"][op] = stats["by_op"].get(op, 0) + 1
                if trc == "0":
                    ft = hexb(r[5]).decode("latin-1")
                    stats["formats"][ft] = stats["formats"].get(ft, 0) + 1
                ck.count(vlib.hash_str(fname + variant + pair), nontrivial=(variant != "o" or trc == "0"))
                if variant != "o" and trc == "0" and stats["pairs"] % 997 == 0:
                    ck.sample({"oracle": short, "variant": variant, "pair": pair, "test": trc, "load": lrc,
                               "type": hexb(r[5]).decode("latin-1")}, limit=6)
        for v in f["V"]:
            w = v.split(" ")
            kind, variant, pair = w[0], w[1], w[2]
            rp = replay_obj(exe_name, fname, variant, pair)
            if kind == "rc":
                ft = hexb(w[5]) if w[5] != "-" else b""
                sig = "agree:%s:%s:%s" % (pair, type_key(ft) if ft else "none", w[3] + "," + w[4])
                ck.violation(sig, rp, "%s [%s] %s pair: %s %s (type %s)" % (short, variant, pair, w[3], w[4], ft.decode("latin-1")))
            elif kind == "vocab":
                ck.violation("vocabulary:%s:%s" % (pair, ",".join(w[3:5])), rp,
                             "%s [%s] %s pair: %s — not 0 and not a documented error code" % (short, variant, pair, " ".join(w[3:5])))
            elif kind == "strings":
                if w[4] == "not-empty":
                    sig = "strings:not-reset:%s" % w[3]
                    ck.violation(sig, rp, "%s [%s] %s test failed (%s) but name/type were not emptied (%s)" % (short, variant, pair, w[3], " ".join(w[5:])))
                else:
                    ft = cstr(hexb(w[5]))
                    sig = "strings:unterminated:%s" % ("prowizard" if ft in PWNAMES else type_key(ft))
                    ck.violation(sig, rp, "%s [%s] %s test succeeded but name/type is not NUL-terminated within 64 bytes" % (short, variant, pair))
            elif kind == "uninit":
                ft = hexb(w[5])
                stats["uninit_titles"] += 1
                ck.violation(title_signature(ft, uninit=True), rp,
                             "%s [%s] %s test title/type holds uninitialised bytes (%s %s), type '%s' (MemorySanitizer)" % (
                                 short, variant, pair, w[3], w[4], ft.decode("latin-1")))
            elif kind == "context":
                ck.violation("side-effect:context", rp, "%s [%s] %s: %s" % (short, variant, pair, " ".join(w[3:])))
            elif kind == "file":
                ck.violation("side-effect:file", rp, "%s [%s]: %s" % (short, variant, " ".join(w[3:])))
        if msan:
            if f["X"] and "exit 86" in f["X"][0]:
                b = (f["X"][1] or "? ? ?").split(" ")
                sig = vlib.sanitizer_signature(f.get("stderr", ""))
                ck.violation("uninit:%s:%s" % (b[2], sig), replay_obj(exe_name, fname, b[0], b[1]),
                             "%s [%s] %s %s: MemorySanitizer: %s" % (short, b[0], b[1], b[2], sig))
            continue
        for t in f["T"]:
            variant, pair, th, lh, ft = t[0], t[1], t[2], t[3], hexb(t[4])
            stats["title_pairs"] += 1
            if hexb(th) or hexb(lh):
                stats["title_pairs_nonempty"] += 1
            if hexb(th) != hexb(lh):
                stats["title_pairs_differ_bytes"] += 1
            canon_ok, strict_ok = verdict.get((th, lh), (True, True))
            # ProWizard detectors report the raw bytes (pw_read_title): canonical form only; everybody else went
            # through libxmp_copy_adjust / libxmp_adjust_string on both sides: no trailing blanks either
            if canon_ok and (strict_ok or ft in PWNAMES):
                continue
            ck.violation(title_signature(ft, False, hexb(th), hexb(lh)), replay_obj(exe_name, fname, variant, pair),
                         "%s [%s] %s: test title %r does not match loaded title %r (type '%s')" % (
                             short, variant, pair, hexb(th), hexb(lh), ft.decode("latin-1")))
        for pl in f["P"]:
            w = pl.split(" ")
            stats["premise_failures"] += 1
            lname = hexb(w[2]).decode("latin-1") if w[0] != "walk" else "-"
            ck.unproved("premise of C11_agree on the real loaders (%s, loader '%s')" % (w[0], lname),
                        "%s [%s]: %s" % (fname, w[1], " ".join(w[3:])))
        if f["X"]:
            what, lastb = f["X"]
            b = (lastb or "? ? ?").split(" ")
            if what.startswith("timeout"):
                stats["timeouts"] += 1
                continue
            sig = vlib.sanitizer_signature(f.get("stderr", ""))
            ck.violation("crash:%s:%s:%s" % (b[1], b[2], sig), replay_obj(exe_name, fname, b[0], b[1]),
                         "%s [%s] %s %s crashed (%s): %s" % (short, b[0], b[1], b[2], what, sig))
            stats["crashes"] += 1


def case_path(f):
    """corpus/c11_cases.json: relative to /repo, or to /verif when it starts with `@verif/`"""
    return os.path.join(vlib.VERIF, f[len("@verif/"):]) if f.startswith("@verif/") else os.path.join(vlib.REPO, f)


def oracle(ck, scratch):
    quick = ck.tier == "quick"
    bystander = os.path.join(vlib.REPO, "test", "test.xm")
    files = vlib.corpus_files()
    if quick:
        files = [f for f in files if os.path.getsize(f) < 1000000]
        nmut, maxsize = 2, 150000
    else:
        nmut, maxsize = 24, 400000
    stats = {"pairs": 0, "mutated_pairs": 0, "by_pair": {}, "rc_table": {}, "formats": {}, "container_variants": 0,
             "title_pairs": 0, "title_pairs_nonempty": 0, "title_pairs_differ_bytes": 0, "premise_failures": 0,
             "crashes": 0, "timeouts": 0, "uninit_titles": 0}
    exe = vlib.build_harness("c11_agree", ["c11_agree.c"])
    try:
        exem = vlib.build_harness("c11_agree", ["c11_agree.c"], variant="msan")
    except vlib.InfraError as e:
        ck.note("msan", "unavailable: " + str(e)[:200])
        exem = None
    # minimised past findings first (deterministic)
    import json
    cases = json.load(open(os.path.join(vlib.VERIF, "corpus", "c11_cases.json")))["cases"]
    for msan, x in ((False, exe), (True, exem)):
        sel = [c for c in cases if os.path.exists(case_path(c["file"])) and (not msan or c.get("msan"))]
        if not sel or x is None:
            continue
        lst = os.path.join(scratch, "cases-%d.txt" % msan)
        open(lst, "w").write("".join("%s\t%s\n" % (c["variant"], case_path(c["file"])) for c in sel))
        os.makedirs(os.path.join(scratch, "c%d" % msan), exist_ok=True)
        rc, out, err = vlib.run_exe(x, ["cases", os.path.join(scratch, "c%d" % msan), bystander, lst], timeout=1200,
                                    env={"MSAN_OPTIONS": "halt_on_error=1:exit_code=86"})
        if rc != 0:
            raise vlib.InfraError("c11_agree cases failed (rc=%d): %s" % (rc, err[-2000:]))
        judge_files(ck, parse_oracle(out.decode("latin-1"), err), "c11_agree(msan)" if msan else "c11_agree", stats, msan=msan)
    ck.note("oracle_seeded_cases", len(cases))
    # container-signature collisions: exact hits and certified near misses planted into valid modules
    sig = signature_cases(ck, scratch)
    lst = os.path.join(scratch, "cases-sig.txt")
    open(lst, "w").write("".join("%s\t%s\n" % (v, p) for v, p, _, _ in sig))
    os.makedirs(os.path.join(scratch, "csig"), exist_ok=True)
    rc, out, err = vlib.run_exe(exe, ["cases", os.path.join(scratch, "csig"), bystander, lst], timeout=1200)
    if rc != 0:
        raise vlib.InfraError("c11_agree cases (signatures) failed (rc=%d): %s" % (rc, err[-2000:]))
    before = dict(stats["rc_table"])
    sfiles = parse_oracle(out.decode("latin-1"), err)
    judge_files(ck, sfiles, "c11_agree", stats)
    sig_rc = {}
    for f in sfiles:
        for r in f["R"]:
            k = "%s:%s test=%s,load=%s" % ("certified" if r[0].startswith("N;") else "hit", r[1], r[2], r[3])
            sig_rc[k] = sig_rc.get(k, 0) + 1
    # order lists the post-load stages choke on
    oc = order_cases(ck, scratch)
    lst = os.path.join(scratch, "cases-ord.txt")
    open(lst, "w").write("".join("%s\t%s\n" % (v, p) for v, p, _ in oc))
    os.makedirs(os.path.join(scratch, "cord"), exist_ok=True)
    rc, out, err = vlib.run_exe(exe, ["cases", os.path.join(scratch, "cord"), bystander, lst], timeout=1200)
    if rc != 0:
        raise vlib.InfraError("c11_agree cases (order lists) failed (rc=%d): %s" % (rc, err[-2000:]))
    ofiles = parse_oracle(out.decode("latin-1"), err)
    judge_files(ck, ofiles, "c11_agree", stats)
    ord_rc = {}
    for f in ofiles:
        for r in f["R"]:
            k = "test=%s,load=%s" % (r[2], r[3])
            ord_rc[k] = ord_rc.get(k, 0) + 1
    ck.note("order_list_cases", {"cases": len(oc), "rc": ord_rc})
    ck.note("signature_plants", {"cases": len(sig), "containers": len({c for _, _, c, _ in sig}),
                                 "certified_non_containers": len([1 for _, _, _, k in sig if k != "hit"]), "rc": sig_rc})
    # large files first, round-robin over shards
    order = sorted(files, key=lambda f: -os.path.getsize(f))
    nsh = vlib.NCPU
    shards = [(exe, ck.seed, nmut, maxsize, os.path.join(scratch, "a%d" % i), bystander, order[i::nsh]) for i in range(nsh)]
    shards = [s for s in shards if s[6]]
    for (rc, out, err), sh in zip(vlib.pmap(run_oracle_shard, shards), shards):
        if rc != 0:
            raise vlib.InfraError("c11_agree failed (rc=%d): %s" % (rc, err[-2000:]))
        judge_files(ck, parse_oracle(out, err), "c11_agree", stats)
    ck.note("oracle_files", len(files))
    # MemorySanitizer pass: initialisedness of the reported strings
    if exem:
        mfiles = [f for f in order if os.path.getsize(f) < (300000 if quick else 4000000)]
        shards = [(exem, ck.seed, 0 if quick else 3, maxsize, os.path.join(scratch, "m%d" % i), bystander, mfiles[i::nsh]) for i in range(nsh)]
        shards = [s for s in shards if s[6]]
        for (rc, out, err), sh in zip(vlib.pmap(run_oracle_shard, shards), shards):
            if rc != 0:
                raise vlib.InfraError("c11_agree (msan) failed (rc=%d): %s" % (rc, err[-2000:]))
            judge_files(ck, parse_oracle(out, err), "c11_agree(msan)", stats, msan=True)
        ck.note("msan_files", len(mfiles))
    if NOTES:
        ck.note("oracle_notes", sorted(set(NOTES))[:5])
    fm = stats.pop("formats")
    stats["formats_recognised"] = len(fm)
    for k, v in stats.items():
        ck.note("oracle_" + k, v)


def run(ck):
    global PWNAMES, PWUNTITLED, PW_TITLE_INIT, WALKERS
    g = ck.gen(gen_c11.generate)
    WALKERS = list(g["walkers"])
    PWNAMES = {n.encode() for n in g["pwnames"]}
    PWUNTITLED = {n.encode() for n in g["pw_untitled"]}
    PW_TITLE_INIT = bool(g["pw_title_init"])
    ck.note("generated", {k: g[k] for k in ("changed", "n_loaders", "n_pw", "prepare_returns", "pw_title_init")})
    ck.proofs(["XmpProps.C11", "XmpProps.C11Core", "XmpProps.C11CoreRead"], required=REQUIRED, drivers=["drv_c11"])
    if not ck.lean_ok:
        # a broken theorem (already recorded as unproved) must not switch off the correspondences and the title oracle:
        # the driver only needs the model
        ck.lean_ok = vlib.lean_build(["drv_c11"])[0]
    exe = vlib.build_harness("c11_strings", ["c11_strings.c", "c11_table.c"], extra=STRINGS_WRAP)
    scratch = os.path.join(vlib.OUT, "c11-scratch-%d" % os.getpid())
    os.makedirs(scratch, exist_ok=True)
    try:
        pool = [f for f in vlib.corpus_files() if os.path.getsize(f) < 40000]
        ck.rng.shuffle(pool)
        pool = sorted(pool[:40])
        stats, ncases = correspondence(ck, exe, scratch, pool)
        for k, v in sorted(stats.items()):
            ck.note(k, v)
        ck.note("correspondence_cases", ncases)
        cstats = correspondence_core(ck, g)
        for k, v in sorted(cstats.items()):
            ck.note("core_" + k, v)
        oracle(ck, scratch)
    finally:
        import shutil
        shutil.rmtree(scratch, ignore_errors=True)
    ck.cov["rule"] = ("evaluations = correspondence cases + oracle (file, variant, entry-point pair) triples. Correspondence cases: "
                      "(function, random byte string) / (random synthetic loader table, info prefill, data) / (wrapper kind, argument "
                      "class, data), distinct by hash of the driver input, non-trivial for string cases = the string holds an unprintable "
                      "byte or a trailing space, for table/wrap cases = every case. Oracle triples: distinct by (file, variant, pair), "
                      "non-trivial = a mutated variant, or an input some loader recognises")
    ck.assumptions += [
        "the four core test functions are the Lean functions xmTest/modTest/itTest/s3mTest (tie: harness/c11_core.c on three back-ends, "
        "C11_core_calls on the regenerated call lists); for them Premise/NonPos are theorems (C11_core_premise), not assumptions",
        "Premise/NonPos (all other loaders): each loader's test() only reads the stream, its verdict does not depend on whether a title buffer is passed, and it "
        "never returns a positive value (hypotheses of C11_agree; re-checked on the real format_loaders[] by the oracle for every input of "
        "the memory pair: a failure is reported as a broken premise)",
        "PrepOk: libxmp_prepare_scan returns only values listed by the translator from its `return` statements (C11_prepare_scan_codes)",
        "ProWizard detectors either leave title[21] alone or set it through pw_read_title (hypothesis of C11_strings_success_partial via "
        "pwTitleTerminated_of_init; the oracle checks NUL termination and, under MemorySanitizer, initialisedness of every reported string)",
        "the FILE pair is compared only on inputs libxmp_decrunch leaves alone (as the property states)",
    ]


def replay(ck, rp):
    """Re-run a recorded case on the real code and say what happens."""
    global PWNAMES, PWUNTITLED, PW_TITLE_INIT
    import json
    import shutil
    g = gen_c11.generate()
    PWNAMES = {n.encode() for n in g["pwnames"]}
    PWUNTITLED = {n.encode() for n in g["pw_untitled"]}
    PW_TITLE_INIT = bool(g["pw_title_init"])
    r = rp.get("replay")
    ck.lean_ok = vlib.lean_build(["drv_c11"])[0]
    scratch = os.path.join(vlib.OUT, "c11-replay-%d" % os.getpid())
    os.makedirs(scratch, exist_ok=True)
    bad = False
    try:
        if isinstance(r, dict) and "variant" in r:
            msan = "msan" in r.get("how", "") or "uninit" in rp.get("signature", "")
            exe = vlib.build_harness("c11_agree", ["c11_agree.c"], variant="msan" if msan else "asan")
            rc, out, err = vlib.run_exe(exe, ["replay", scratch, os.path.join(vlib.REPO, "test", "test.xm"), r["file"], r["variant"]],
                                        timeout=600, env={"MSAN_OPTIONS": "halt_on_error=1:exit_code=86"})
            text = out.decode("latin-1")
            print("\n".join(l for l in text.splitlines() if l[:2] in ("R ", "T ", "V ", "P ", "X ")))
            if rc != 0:
                print(err[-3000:])
                print("the library crashed / the sanitizer aborted (rc=%d): %s" % (rc, vlib.sanitizer_signature(err)))
                bad = True
            else:
                stats = {"pairs": 0, "mutated_pairs": 0, "by_pair": {}, "rc_table": {}, "formats": {}, "container_variants": 0,
                         "title_pairs": 0, "title_pairs_nonempty": 0, "title_pairs_differ_bytes": 0, "premise_failures": 0,
                         "crashes": 0, "timeouts": 0, "uninit_titles": 0}
                if not text.rstrip().endswith("E " + r["file"]):
                    text += "\nE %s\n" % r["file"]
                judge_files(ck, parse_oracle(text, "@@F %s\n%s" % (r["file"], err)), "c11_agree", stats, msan=msan)
                for v in ck.violations:
                    print("still failing: [%s] %s" % (v["signature"], v["what"]))
                for sig, what in ck.known_hits.items():
                    print("still failing (known finding): [%s] %s" % (sig, what))
                for u in ck.unproved_items:
                    print("premise broken: %s: %s" % (u["name"], u["detail"][:300]))
                bad = bool(ck.violations or ck.known_hits or ck.unproved_items)
        elif isinstance(r, dict) and "cmd" in r:
            exe = vlib.build_harness("c11_strings", ["c11_strings.c", "c11_table.c"], extra=STRINGS_WRAP)
            args = r["cmd"][1:]
            if len(args) > 3:
                args[3] = scratch
            rc, out, err = vlib.run_exe(exe, args, timeout=1200)
            print(err[-3000:])
            bad = rc != 0
        elif isinstance(r, dict) and "case" in r:
            print("driver input:\n" + "\n".join(r["case"]))
            print("real code answered:\n" + "\n".join(r.get("real", [])))
            if ck.lean_ok:
                print("model answers:\n" + "\n".join(vlib.run_driver("drv_c11", "\n".join(r["case"]) + "\n")))
            bad = True
        else:
            print(json.dumps(r, indent=1)[:4000])
            print("this replay names a broken proof obligation / correspondence; re-run: python3 tools/check.py C11")
            bad = True
    finally:
        shutil.rmtree(scratch, ignore_errors=True)
    if bad:
        safe = re.sub(r"[^A-Za-z0-9_.-]+", "_", rp.get("signature", "unproved"))[:80]
        print("VIOLATION property=C11 replay=%s" % os.path.join(vlib.OUT, "replay-C11-%s.json" % safe))
    else:
        print("the recorded case no longer fails")
    return 1 if bad else 0
