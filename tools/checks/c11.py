"""C11 — Test and load agree, and testing has no side effects.

proof      : XmpProps.C11 over XmpModel.TestLoad (every loader table x every stream; every byte string)
tie (T)    : tools/gen_c11.py regenerates XmpModel/Gen/TestLoadConsts.lean (XMP_NAME_SIZE, error codes,
             libxmp_prepare_scan's return values, format_loaders[] / pw_formats[] names, pw_check's title buffer)
tie (C)    : harness/c11_strings.c — (a) libxmp_copy_adjust / libxmp_adjust_string / libxmp_read_title /
             pw_read_title on random byte strings, every destination byte; (b) the REAL test_module/load_module
             walking random synthetic loader tables (harness/c11_table.c replaces format.c), return codes and
             both xmp_test_info arrays and mod->name; (c) the eight public wrappers (argument checks, open
             failures, depack step, caller's FILE, descriptors) — each against the native driver drv_c11
search     : harness/c11_agree.c — the property as stated, on the real loaders: corpus files x truncations x
             bit flips x the four entry-point pairs; title relation decided by the Lean function (drv_c11 `tm`)
"""
import os
import re
import sys

import vlib

sys.path.insert(0, os.path.dirname(os.path.dirname(os.path.abspath(__file__))))
import gen_c11  # noqa: E402

LEVEL = "proof"
MANIFEST = dict(
    category="proof",
    text="Lean 4 theorems (XmpProps.C11) over a model of src/load.c's test_module/load_module and the eight public wrappers, for EVERY "
         "loader table and stream: C11_agree (test = 0 <-> load gets past recognition, test = -FORMAT <-> load = -FORMAT, same depack/system "
         "error otherwise, given each loader's test() is a function of the stream whose verdict does not depend on the title pointer), "
         "C11_strings (NUL-terminated name/type within 64 bytes on success, both empty on failure), C11_title (libxmp_copy_adjust and "
         "libxmp_adjust_string agree up to the canonical form on every byte string), C11_no_side_effect (caller's FILE never closed, "
         "library's own FILE closed exactly once). Tied to the C on every run by a differential correspondence (real string helpers, "
         "real test_module/load_module on synthetic loader tables, real wrappers vs the native Lean driver) and a direct oracle on the "
         "real loaders over the corpus with truncations and bit flips through all four entry-point pairs.",
    note="Trusted: Lean kernel, the hand-written model XmpModel/TestLoad.lean, tools/gen_c11.py, harnesses and differ. "
         "Modelled-not-verified: each of the ~95 per-format *_test/*_load pairs and the 43 ProWizard detectors are parameters of the model "
         "(their mutual consistency and their title extraction are searched by the oracle, not proved); libxmp_decrunch is a parameter "
         "(its verdict is taken from the real function); allocation failures inside the wrappers are not modelled. "
         "Correspondence is sampled (differential), not exhaustive.",
    technique="Lean 4 proof by induction over the loader table with a same-data invariant + differential correspondence + corpus mutation oracle",
    design_ref="DESIGN.md section 4 C11",
)
REQUIRED = []   # filled below once the property file exists

GARB_BUF = 0xDD
GARB_PW = 0xEE


def hexb(s):
    return b"" if s in ("-", "null", "none") else bytes.fromhex(s)


def cstr(b):
    i = b.find(b"\0")
    return b if i < 0 else b[:i]


# --------------------------------------------------------------------------
# correspondence
# --------------------------------------------------------------------------

def split_qa(text):
    """-> list of cases; a case = (q_lines, a_lines); a case ends when a Q follows an A."""
    cases, q, a = [], [], []
    for line in text.splitlines():
        if line.startswith("Q "):
            if a:
                cases.append((q, a))
                q, a = [], []
            q.append(line[2:])
        elif line.startswith("A "):
            a.append(line[2:])
    if q or a:
        cases.append((q, a))
    return cases


def cmp_name_with_garbage(real, model, marker):
    """Compare a 64-byte array where the model marks uninitialised source bytes with `marker`."""
    k = model.find(bytes([marker]))
    if k < 0:
        return real == model, False
    return real[:k] == model[:k] and len(real) == len(model) and real[-1:] == model[-1:], True


def compare_case(q, a, m, stats):
    """a: real answers, m: model answers (same count expected). Returns None or a description."""
    extra = [x for x in a if x.startswith(("overrun", "fdleak"))]
    a = [x for x in a if not x.startswith(("overrun", "fdleak"))]
    if extra:
        return "real code: " + extra[0]
    if len(a) != len(m):
        return "answer count differs: real %d model %d" % (len(a), len(m))
    pwhit = any(x.startswith("env ") and len(x.split(" ")) == 5 for x in q)
    haspw = any(x.startswith("L 70726f77697a617264 ") for x in q)
    for ra, ma in zip(a, m):
        rf, mf = ra.split(" "), ma.split(" ")
        tag = rf[0]
        if tag in ("test", "wtest"):
            if rf[1] != mf[1]:
                return "%s return code: real %s model %s" % (tag, rf[1], mf[1])
            if rf[2] == "null" or mf[2] == "null":
                if rf[2:4] != mf[2:4]:
                    return "%s info NULL handling differs" % tag
            else:
                rn, mn, rt, mt = hexb(rf[2]), hexb(mf[2]), hexb(rf[3]), hexb(mf[3])
                if rf[1] == "0" and haspw and pwhit and cstr(mt) in PWNAMES:
                    # ProWizard path: title[21] may hold stack garbage (F15): compare what is defined
                    stats["pw_hits"] += 1
                    env = [x for x in q if x.startswith("env ")][0].split(" ")
                    title = hexb(env[3])
                    if b"\0" in title:
                        if cstr(rn) != cstr(mn) or rn[21:] != mn[21:]:
                            return "%s name (ProWizard) differs: real %s model %s" % (tag, rn.hex(), mn.hex())
                    else:
                        stats["pw_untitled"] += 1
                        if rn[21:] != mn[21:]:
                            return "%s name tail (ProWizard) differs" % tag
                    if rt != mt:
                        return "%s type differs: real %s model %s" % (tag, rt.hex(), mt.hex())
                else:
                    ok, garb = cmp_name_with_garbage(rn, mn, GARB_BUF)
                    stats["uninit_buf_cases"] += 1 if garb else 0
                    if not ok:
                        return "%s name differs: real %s model %s" % (tag, rn.hex(), mn.hex())
                    if rt != mt:
                        return "%s type differs: real %s model %s" % (tag, rt.hex(), mt.hex())
            if tag == "wtest" and rf[4:] != mf[4:]:
                return "wtest FILE/descriptor columns differ: real %s model %s" % (rf[4:], mf[4:])
            stats["rc_" + tag + "_" + rf[1]] = stats.get("rc_" + tag + "_" + rf[1], 0) + 1
        elif tag in ("load", "wload"):
            if rf != mf:
                return "%s differs: real %s model %s" % (tag, " ".join(rf)[:200], " ".join(mf)[:200])
            stats["rc_" + tag + "_" + rf[1]] = stats.get("rc_" + tag + "_" + rf[1], 0) + 1
        else:
            if ra != ma:
                return "%s differs: real %s model %s" % (tag, ra[:200], ma[:200])
            stats["fn_" + tag] = stats.get("fn_" + tag, 0) + 1
    return None


PWNAMES = set()


def run_corr_shard(args):
    exe, mode, seed, n, rest = args
    rc, out, err = vlib.run_exe(exe, [mode, str(seed), str(n)] + rest, timeout=1200)
    return rc, out.decode("latin-1"), err


def correspondence(ck, exe, scratch, pool):
    quick = ck.tier == "quick"
    plan = [("strings", 4, 2500 if quick else 40000, []),
            ("table", 6, 400 if quick else 6000, [scratch] + pool),
            ("wrap", 4, 150 if quick else 2500, [scratch] + pool)]
    shards = []
    for mode, ns, per, rest in plan:
        for i in range(ns):
            shards.append((exe, mode, ck.seed * 104729 + 977 * i + vlib.hash_str(mode) % 1000, per, rest))
    results = vlib.pmap(run_corr_shard, shards)
    stats = {"pw_hits": 0, "pw_untitled": 0, "uninit_buf_cases": 0}
    ncases = {"strings": 0, "table": 0, "wrap": 0}
    for (rc, out, err), sh in zip(results, shards):
        mode = sh[1]
        if rc != 0:
            sig = vlib.sanitizer_signature(err)
            ck.violation("harness-abort:%s:%s" % (mode, sig),
                         {"cmd": ["c11_strings", mode, str(sh[2]), str(sh[3])] + sh[4], "stderr": err[-3000:]},
                         "c11_strings %s aborted (rc=%d): %s" % (mode, rc, sig))
            continue
        cases = split_qa(out)
        if not ck.lean_ok:
            continue
        text = "\n".join("\n".join(q) for q, _ in cases) + "\n"
        mo = vlib.run_driver("drv_c11", text)
        mi = 0
        for q, a in cases:
            na = len([x for x in a if not x.startswith(("overrun", "fdleak"))])
            m = mo[mi:mi + na]
            mi += na
            ncases[mode] += 1
            why = compare_case(q, a, m, stats)
            key = vlib.hash_str("\n".join(q))
            nontriv = True
            if mode == "strings":
                f = q[0].split(" ")
                raw = hexb(f[-1])
                nontriv = any(c < 32 or c > 126 for c in cstr(raw)) or cstr(raw).endswith(b" ")
            ck.count(key, nontrivial=nontriv)
            if why is None:
                ck.cov["traces_validated_against_impl"] += 1
            else:
                fleak = why.startswith("real code: fdleak")
                over = why.startswith("real code: overrun")
                if fleak or over:
                    ck.violation(("side-effect:fdleak" if fleak else "strings:overrun"),
                                 {"mode": mode, "seed": sh[2], "n": sh[3], "case": q, "real": a}, why)
                else:
                    ck.unproved("correspondence TestLoad (%s) vs src/load.c, loaders/common.c" % mode,
                                "%s ; driver input:\n%s\nreal:\n%s\nmodel:\n%s" % (
                                    why, "\n".join(x[:300] for x in q), "\n".join(x[:300] for x in a),
                                    "\n".join(x[:300] for x in m)))
                    return stats, ncases
    return stats, ncases


def run(ck):
    global PWNAMES
    g = ck.gen(gen_c11.generate)
    PWNAMES = {n.encode() for n in g["pwnames"]}
    ck.note("generated", {k: g[k] for k in ("changed", "n_loaders", "n_pw", "prepare_returns", "pw_title_init")})
    ck.proofs(["XmpProps.C11"], required=REQUIRED, drivers=["drv_c11"])
    exe = vlib.build_harness("c11_strings", ["c11_strings.c", "c11_table.c"])
    scratch = os.path.join(vlib.OUT, "c11-scratch-%d" % os.getpid())
    os.makedirs(scratch, exist_ok=True)
    try:
        pool = [f for f in vlib.corpus_files() if os.path.getsize(f) < 40000]
        ck.rng.shuffle(pool)
        pool = sorted(pool[:40])
        stats, ncases = correspondence(ck, exe, scratch, pool)
        for k, v in sorted(stats.items()):
            ck.note(k, v)
        ck.note("correspondence_cases", ncases)
    finally:
        import shutil
        shutil.rmtree(scratch, ignore_errors=True)
    ck.cov["rule"] = ("correspondence cases: (function, random byte string) / (random synthetic loader table, info prefill, data) / "
                      "(wrapper kind, argument class, data); distinct by hash of the driver input; non-trivial for string cases = the "
                      "string holds an unprintable byte or a trailing space, for table/wrap cases = every case")
    ck.assumptions += [
        "each loader's test() is a function of the stream contents whose return value does not depend on the title pointer, "
        "and returns 0 or a negative value (checked on the real loaders by the oracle for every input it runs)",
    ]


def replay(ck, rp):
    print("replay not implemented yet")
    return 2
