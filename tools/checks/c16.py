"""C16 — Every frame reports a consistent, in-range player state.

proof      : XmpProps.C16 over XmpModel.{Seq,Tick,Virt}: the sequencer kernel (next_order, next_row,
             reposition, start-up, end detection, ST2.6 step, position-control calls) keeps the reported
             fields in range for every history, under the monitored EffectRange assumption on what the
             effect interpreters leave in the flow variables; tick-size arithmetic; voice bookkeeping.
tie        : T — numeric limits regenerated from the headers (Gen/PlayerConsts.lean);
             C — harness/c16_frames.c dumps the player state before every real xmp_play_frame /
             position-control call / spied virtual.c call, the native driver recomputes the step
             from the dumped pre-state, outputs are compared field by field.
search     : every clause of the property evaluated on xmp_frame_info after every successful frame
             (corpus + synthetic modules, random control histories, injected events, configurations).
"""
import os
import re
import sys

sys.path.insert(0, os.path.dirname(os.path.dirname(os.path.abspath(__file__))))
import vlib
import gen_player_consts

LEVEL = "proof"
MANIFEST = dict(
    category="proof",
    text="Lean 4 theorems (XmpProps.C16) over an exact model of libxmp's sequencer kernel (next_order, next_row, update_from_ord_info, "
         "reset_flow, start-up, reposition block, check_end_of_module, ST2.6 step, set_position/next/prev/set_row/seek_time/stop/restart), of the "
         "tick-size arithmetic and of the voice tables of virtual.c: for ALL modules satisfying the monitored well-formedness predicate, ALL "
         "call histories (any arguments) and ALL effect outcomes inside the monitored EffectRange, every successful frame reports 0<=pos<len, "
         "pattern=xxo[pos]<pat, 0<=row<rows(pattern), speed 1..255, bpm>0, frame time>0 computed from the reported tempo, a valid sequence, a "
         "non-decreasing loop counter (C16_reachable, C16_reachable_info, C16_loop_monotone_run); for modules that also satisfy the monitored "
         "order-list clause OrdWF (every kept sequence reaches a pattern) the order-skipping loop of next_order leaves through its own "
         "condition within len+1 iterations from any p->ord >= -1 (C16_next_order_terminates), so every xmp_play_frame returns and returns "
         "-XMP_END exactly in the C's early-return cases (C16_frame_returns) and the history theorems hold with no divergence escape "
         "(C16_inv_frame_total, C16_reachable_total, C16_reachable_info_total); for ALL inputs the buffer is a whole number "
         "of 1/2/4-byte frames, between 8 and XMP_MAX_FRAMESIZE/4 frames, never above XMP_MAX_FRAMESIZE bytes, and within one frame of rate x "
         "frame time when neither clamp applies (C16_ticksize, C16_framesize_bound, C16_ticksize_agrees); a tempo factor accepted by "
         "xmp_set_tempo_factor is never clamped at the tempo it was accepted for nor at any faster one (C16_tempo_factor_no_clamp); 0<=virt_used<=maxvoc<=virt_channels "
         "after every history of virtual.c operations (C16_virt, C16_virt_inv, pigeonhole for the NNA relocation proved). Tied to src/player.c, "
         "control.c, mixer.c, virtual.c on every run by a field-by-field differential correspondence (kernel step, control calls, start-up, "
         "ST2.6 step, tick size via the real libxmp_mixer_prepare, acceptance of every xmp_set_tempo_factor call, every table-changing "
         "virtual.c call and every field-only one: setnna, setsmp, queuepatch, pastnote OFF/FADE, compared on all seven voice fields) and a direct oracle on xmp_frame_info "
         "that yields replayable failing inputs.",
    note="Partial: (1) effect interpreters (read_event.c, effects.c, play_channel) are NOT modelled; they enter as arbitrary optional writes to "
         "pbreak/jump/jumpline/delay/rowdelay/loop_dest/speed/bpm/gvol/st26 constrained by EffectRange, which the harness monitors on every real "
         "frame. (2) Module data (orders, rows, scan results, xxo_info) enter through the predicate WF evaluated by the Lean driver on every "
         "module played; the scan (scan.c) and the loaders are not modelled. (3) The C computes the tick size in double; the model is exact "
         "rational arithmetic and the correspondence brackets the rounding. (4) 'agrees with rate x frame time' is proved between the minimum "
         "(8 frames, anticlick) and maximum frame-size clamps, for rates in [XMP_MIN_SRATE, XMP_MAX_SRATE]. (5) termination of the "
         "order-skipping loop of next_order is proved (no longer a hypothesis) from the order-list clause OrdWF = Seq.ordWfB, which is what "
         "libxmp_scan_sequences guarantees for every sequence it keeps (any_valid); that implication is NOT proved (scan.c is not modelled "
         "here): OrdWF is evaluated by the Lean driver on every module played and cross-checked against the same clause evaluated in C on the "
         "live module. (6) libxmp_virt_off (end of the tables' life) is not modelled. Correspondence is sampled (differential), not exhaustive.",
    technique="Lean 4 invariant proofs by case analysis over the kernel + induction over call histories; differential correspondence "
              "from dumped pre-states; direct oracle on xmp_frame_info",
    design_ref="DESIGN.md section 4 C16/C17",
)

REQUIRED = [
    "Xmp.Seq.C16_inv_start", "Xmp.Seq.C16_inv_frame", "Xmp.Seq.C16_frame_info", "Xmp.Seq.C16_loop_monotone",
    "Xmp.Seq.C16_loop_monotone_run", "Xmp.Seq.C16_inv_control", "Xmp.Seq.C16_reachable", "Xmp.Seq.C16_reachable_info",
    "Xmp.Seq.C16_next_order_terminates", "Xmp.Seq.C16_frame_returns", "Xmp.Seq.C16_inv_frame_total",
    "Xmp.Seq.C16_reachable_total", "Xmp.Seq.C16_reachable_info_total",
    "Xmp.Tick.C16_ticksize", "Xmp.Tick.C16_framesize_bound", "Xmp.Tick.C16_ticksize_agrees", "Xmp.Tick.C16_tempo_factor_no_clamp",
    "Xmp.Virt.C16_virt", "Xmp.Virt.C16_virt_inv",
]

PRODUCERS = ("wf", "start", "von", "frame", "ctl", "st26", "tick", "tfac", "vop", "vopf")
NAMES = {"wf": "Seq.ordWfB (Lean) vs the same clause evaluated in C on the live module", "frame": "Seq.kernelStep vs xmp_play_frame (kernel-owned fields)", "ctl": "Seq.ctl vs control.c position calls",
         "start": "Seq.start vs xmp_start_player", "von": "Virt.virtOn vs libxmp_virt_on", "st26": "Seq.st26Step vs ST2.6 speed step",
         "tick": "Tick.getTicksize/prepare/bufferSize vs mixer.c", "tfac": "Tick.setTempoFactor vs xmp_set_tempo_factor (acceptance)", "vop": "Virt.step vs virtual.c",
         "vopf": "Virt.step vs virtual.c (field-only operations: setnna, setsmp, queuepatch, pastnote OFF/FADE; all voice fields)"}


def pick_corpus(ck, n):
    files = [f for f in vlib.corpus_files() if os.path.getsize(f) < 600000]
    fixed = [f for f in files if "/test/test." in f]
    rest = [f for f in files if f not in fixed]
    ck.rng.shuffle(rest)
    return fixed + (rest if n is None else rest[:n])


def run_shard(a):
    exe, args = a
    rc, out, err = vlib.run_exe(exe, args, timeout=2400)
    return rc, out.decode("latin-1"), err


def split_cases(text):
    """-> list of dict(begin, D, E, O, A, complete) ; plus global N stats"""
    cases, cur, stats = [], None, {}
    loose = {"begin": "tick-shard", "D": [], "E": [], "O": [], "A": [], "complete": True}
    lines = text.split("\n")
    if lines and lines[-1] != "":
        lines = lines[:-1]          # the harness died in the middle of a line: drop the fragment
    for line in lines:
        tag, rest = line[:2], line[2:]
        if tag == "B ":
            cur = {"begin": rest, "D": [], "E": [], "O": [], "A": [], "complete": False}
            cases.append(cur)
        elif tag == "Z" or line == "Z":
            if cur is not None:
                cur["complete"] = True
            cur = None
        elif tag == "N ":
            k, v = rest.split()
            stats[k] = stats.get(k, 0) + int(v)
        elif tag in ("D ", "E ", "O ", "A "):
            (cur if cur is not None else loose)[tag[0]].append(rest)
    if loose["D"]:
        cases.append(loose)
    return cases, stats


def replay_of(exe, case, nframes, vd):
    f = case["begin"].split()
    if len(f) >= 3 and f[0] == "case":
        return {"cmd": ["c16_frames", "case", f[1], str(nframes), str(vd), f[2]], "case": case["begin"]}
    return {"case": case["begin"]}


def compare_case(ck, case, model_lines, stats, rp):
    """Compare expected (real) vs model lines of one case. Returns per-case counters."""
    prod = [d for d in case["D"] if d.split(" ", 1)[0] in PRODUCERS]
    c = {"frames": 0, "repos": 0, "ordchg": 0, "ctl": 0, "wf": None, "ordwf": None, "fin": 0}
    oracle_failed = bool(case["O"])
    n = min(len(prod), len(case["E"]), len(model_lines))
    prev_ord = None
    for d, e, mo in zip(prod[:n], case["E"][:n], model_lines[:n]):
        kind = d.split(" ", 1)[0]
        et, mt = e.split(), mo.split()
        ok = et == mt
        if kind == "wf":
            c["wf"] = mt[1] == "1"
            c["ordwf"] = len(mt) > 2 and mt[2] == "1"
            # Seq.ordWfB (Lean, on the dumped module) against the same clause evaluated in C on the live module
            ok = len(et) > 2 and len(mt) > 2 and et[2] == mt[2]
        elif kind == "tick":
            stats["tick_cases"] += 1
            if et[1:4] == mt[1:4]:
                stats["tick_exact"] += 1
                ok = True
            else:
                # floating-point rounding bracket: the real tick size must lie between the model's
                # results for time_factor*(1-2^-40) and time_factor*(1+2^-40)
                lo, hi = int(mt[4]), int(mt[5])
                ok = lo != hi and min(lo, hi) <= int(et[1]) <= max(lo, hi)
                if ok:
                    stats["tick_rounding_bracket"] += 1
        elif kind == "tfac":
            # exact agreement, or the value sits on the acceptance boundary within floating-point rounding
            ok = et[:2] == mt[:2] or (len(mt) > 3 and mt[2] != mt[3])
            stats["tfac_accepted" if et[1:2] == ["1"] else "tfac_refused"] += 1
        elif kind == "frame":
            if et[:2] == ["k", "ok"]:
                c["frames"] += 1
                if len(et) > 10 and et[10] == "1":
                    c["repos"] += 1
                if prev_ord is not None and et[2] != prev_ord:
                    c["ordchg"] += 1
                prev_ord = et[2]
            elif et[:2] == ["k", "fin"]:
                c["fin"] += 1
            if mt[:2] == ["k", "diverge"]:
                stats["model_diverge"] += 1
        elif kind == "ctl":
            c["ctl"] += 1
        elif kind == "vopf":
            stats["vopf_" + d.split(" ", 2)[1]] += 1
        if ok:
            stats["agree_" + kind] += 1
            ck.cov["traces_validated_against_impl"] += 1 if kind in ("frame", "ctl", "vop", "vopf") else 0
        elif not oracle_failed:
            stats["disagree_" + kind] += 1
            ck.unproved("correspondence " + NAMES.get(kind, kind),
                        "case [%s]\n input: %s\n real : %s\n model: %s\n replay: %s" % (case["begin"], d[:400], e[:300], mo[:300], rp))
            break
    return c


def run(ck):
    consts, changed = gen_player_consts.generate()
    ck.note("generated_consts_changed", changed)
    ck.note("consts", {k: consts[k] for k in ("maxFramesize", "maxSrate", "minBpm", "anticlickShift", "smixNumvoc")})
    ck.proofs(["XmpProps.C16"], required=REQUIRED, drivers=["drv_c16"])
    exe = vlib.build_harness("c16_frames", ["c16_frames.c"])
    quick = ck.tier == "quick"
    seed = ck.seed
    if quick:
        nframes, vd = 300, 6
        synth_shards, synth_per = 11, 28          # 308 synthetic modules
        corpus = pick_corpus(ck, 57)              # + the three repo test modules
        corpus_shards = 4
        tick_n = 6000
    else:
        nframes, vd = 500, 6
        synth_shards, synth_per = 12, 420         # 5040 synthetic modules
        corpus = pick_corpus(ck, None)
        corpus_shards = 12
        tick_n = 200000
    shards = []
    for i in range(synth_shards):
        shards.append((exe, ["play", str(seed * 7919 + i), str(synth_per), str(nframes), str(vd), "@synth"]))
    per = (len(corpus) + corpus_shards - 1) // corpus_shards
    for i in range(corpus_shards):
        mods = corpus[i * per:(i + 1) * per]
        if mods:
            shards.append((exe, ["play", str(seed * 104729 + i), str(len(mods)), str(nframes), str(vd)] + mods))
    shards.append((exe, ["tick", str(seed * 31 + 5), str(tick_n)]))
    results = vlib.pmap(run_shard, shards)

    from collections import defaultdict
    stats = defaultdict(int)
    nstats = defaultdict(int)
    sigs = defaultdict(int)
    wf_fail_cases = []
    ordwf_fail_cases = []
    for (rc, out, err), sh in zip(results, shards):
        cases, ns = split_cases(out)
        for k, v in ns.items():
            nstats[k] += v
        if rc != 0:
            named = re.findall(r"^CASE (.*)$", err, re.M)
            last = {"begin": named[-1]} if named else (cases[-1] if cases else {"begin": "?"})
            if rc == -999:
                sig = "hang:xmp_play_frame"
                what = "harness timed out (endless loop in the player?) in case [%s]" % last["begin"]
            else:
                sig = "harness-abort:" + vlib.sanitizer_signature(err)
                what = "sanitizer/abort (rc=%d) in case [%s]: %s" % (rc, last["begin"], sig)
            ck.violation(sig, dict(replay_of(exe, last, nframes, vd), stderr=err[-3000:]), what)
        if not cases:
            continue
        dtext = "\n".join("\n".join(c["D"]) for c in cases) + "\n"
        model = vlib.run_driver("drv_c16", dtext, timeout=1800) if ck.lean_ok else None
        mi = 0
        for c in cases:
            nprod = sum(1 for d in c["D"] if d.split(" ", 1)[0] in PRODUCERS)
            ml = model[mi:mi + nprod] if model is not None else []
            mi += nprod
            rp = replay_of(exe, c, nframes, vd)
            for o in c["O"]:
                sig = o.split(" ", 1)[0]
                sigs[sig] += 1
                ck.violation(sig, dict(rp, oracle=c["O"][:6]),
                             "C16 clause fails on the real code: " + o[:400])
            if c["begin"] == "tick-shard":
                compare_case(ck, c, ml, stats, rp)
                continue
            cc = compare_case(ck, c, ml, stats, rp) if model is not None else {"frames": 0, "repos": 0, "ordchg": 0, "ctl": 0, "wf": None, "ordwf": None}
            if cc["wf"] is False:
                wf_fail_cases.append(c["begin"][:160])
            if cc["ordwf"] is False:
                ordwf_fail_cases.append(c["begin"][:160])
            elif cc["ordwf"]:
                stats["modules_ordwf_holds"] += 1
            for a in c["A"]:
                stats["assumption_" + a.split(" ", 1)[0]] += 1
                if not c["O"]:
                    ck.unproved("monitored assumption " + a.split(" ", 1)[0],
                                "case [%s]: %s ; replay %s" % (c["begin"], a[:400], rp))
            nontrivial = cc["frames"] >= 20 and cc["repos"] >= 1 and cc["ordchg"] >= 1
            ck.count(vlib.hash_str(c["begin"]), nontrivial=nontrivial)
            ck.sample({"case": c["begin"][:200], "frames_ok": cc["frames"], "repositions": cc["repos"],
                       "order_changes": cc["ordchg"], "control_calls": cc["ctl"], "wf": cc["wf"]}, limit=5)
    if wf_fail_cases:
        # a module outside WF is outside the theorems' scope: report, do not hide
        ck.note("modules_outside_WF", wf_fail_cases[:20])
        ck.unproved("monitored assumption WF", "module data read by the kernel violates Seq.wfB: " + "; ".join(wf_fail_cases[:5]))
    if ordwf_fail_cases:
        # outside the scope of the termination theorems (C16_next_order_terminates, C16_*_total): report, do not hide
        ck.note("modules_outside_OrdWF", ordwf_fail_cases[:20])
        ck.unproved("monitored assumption OrdWF", "a loaded module has a sequence that cannot reach a pattern (Seq.ordWfB): "
                    + "; ".join(ordwf_fail_cases[:5]))
    for k, v in sorted(stats.items()):
        ck.note(k, v)
    for k, v in sorted(nstats.items()):
        ck.note("harness_" + k, v)
    ck.note("oracle_failure_signatures", dict(sigs))
    ck.note("synthetic_modules", synth_shards * synth_per)
    ck.note("corpus_modules_offered", len(corpus))
    ck.cov["rule"] = ("case = (module: corpus file or seeded synthetic module; rate, format, voices, tempo-factor mode; seeded history of "
                      "xmp_play_frame interleaved with xmp_set_position/next/prev/set_row/seek_time/stop/restart and injected speed/tempo/flow "
                      "events); distinct by hash of the case header; non-trivial = at least 20 successful frames, at least one reposition "
                      "frame and at least one order change inside the case")
    ck.assumptions += [
        "EffectRange: after every frame pbreak in {0,1}, jump in [-1,255], jumpline/delay/rowdelay >= 0, speed in 1..255, bpm >= 1, "
        "st26_speed 0 or two non-zero bytes — monitored on every real frame (harness 'A effrange')",
        "WF: module data read by the kernel (orders, rows >= 1, sequence table, entry points, xxo_info speed/bpm) — evaluated by the Lean "
        "driver (Seq.wfB) on every module played",
        "OrdWF: every kept sequence reaches an order holding a pattern (restart position of the sequence, entry point, or forward walk "
        "from the entry point before the end of the list / an 0xff marker) — evaluated by the Lean driver (Seq.ordWfB) on every module "
        "played and, independently, in C by the harness; hypothesis of the termination theorems only",
        "OpOk: preconditions of the virtual.c operations (resetvoice on a used voice, setpatch on a track channel, NNA only with "
        "QUIRK_VIRTUAL) — monitored at every spied call",
        "XMP_PLAYER_VOICES >= 0 (negative / huge values are finding F4 of another property)",
    ]


def replay(ck, rp):
    exe = vlib.build_harness("c16_frames", ["c16_frames.c"])
    r = rp.get("replay", {})
    cmd = r.get("cmd")
    if not cmd:
        print("replay file names no concrete case: " + str(rp.get("what")))
        print(str(r)[:3000])
        return 1
    rc, out, err = vlib.run_exe(exe, cmd[1:], timeout=600)
    text = out.decode("latin-1")
    olines = [l for l in text.splitlines() if l.startswith("O ")]
    for l in olines[:20]:
        print(l)
    print(err[-2000:])
    if rc != 0 or olines:
        print("VIOLATION property=C16 replay=%s" % " ".join(cmd))
        return 1
    print("no failure reproduced")
    return 0
