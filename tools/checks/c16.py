"""C16 — Every frame reports a consistent, in-range player state.

proof      : XmpProps.C16 over XmpModel.{Seq,Fx,Tick,Virt}: the sequencer kernel (next_order, next_row,
             reposition, start-up, end detection, ST2.6 step, position-control calls, xmp_play_buffer) keeps the
             reported fields in range for every history — under the monitored EffectRange assumption on what
             the effect interpreters leave in the flow variables, and, with the flow-relevant part of
             effects.c / flow.c / check_delay / read_row modelled (Fx), with the effects themselves as input;
             tick-size arithmetic; voice bookkeeping.
tie        : T — numeric limits regenerated from the headers (Gen/PlayerConsts.lean);
             C — harness/c16_frames.c dumps the player state before every real xmp_play_frame /
             position-control call / spied virtual.c call, the native driver recomputes the step
             from the dumped pre-state, outputs are compared field by field; every libxmp_process_fx call and
             every frame inside xmp_play_buffer is observed through linker --wrap hooks; every effect number x
             parameter is played in a row of a real module (fxall) and compared with Fx.readRow.
search     : every clause of the property evaluated on xmp_frame_info after every successful frame
             (corpus + synthetic modules, random control histories, injected events, configurations).
"""
import os
import re
import sys

sys.path.insert(0, os.path.dirname(os.path.dirname(os.path.abspath(__file__))))
import vlib
import gen_player_consts

LEVEL = "proof"
MANIFEST = dict(
    category="proof",
    text="Lean 4 theorems (XmpProps.C16) over an exact model of libxmp's sequencer kernel (next_order, next_row, update_from_ord_info, "
         "reset_flow, start-up, reposition block, check_end_of_module, ST2.6 step, set_position/next/prev/set_row/seek_time/stop/restart, the "
         "xmp_play_buffer reset entry), of the flow-relevant part of the effect interpreters (XmpModel.Fx: libxmp_process_fx for EVERY effect "
         "number and parameter byte — jump, break, IT break, line jump, pattern loop with all nine FLOW_LOOP_* mode bits and QUIRK_FT2BUGS, "
         "pattern delay incl. the ST3 first-wins rule, IT row delay, speed/tempo set with the 0x20 split, QUIRK_NOBPM, XMP_FLAGS_VBLANK, ST3 "
         "effect memory, speed 0 ignored, the time-factor dependent tempo minimum and its byte clamp, XMP_MIN_BPM, ICE speed, ULT tempo, "
         "global volume, the FAR tempo effects with libxmp_far_translate_tempo; libxmp_process_pattern_loop; the speed pre-scan and delay decision of check_delay; the per-mode call order of "
         "libxmp_read_event; the row-delay gate of read_row; the IT tempo slide tick), of the tick-size arithmetic and of the voice tables of "
         "virtual.c. For ALL modules satisfying the monitored well-formedness predicate and ALL call histories (any arguments): every "
         "successful frame reports 0<=pos<len, pattern=xxo[pos]<pat, 0<=row<rows(pattern), speed 1..255, bpm>0, frame time>0 computed from "
         "the reported tempo, a valid sequence, a non-decreasing loop counter — (a) for ALL effect outcomes inside the monitored EffectRange "
         "(C16_reachable, C16_reachable_info, C16_loop_monotone_run) and (b) with the EFFECTS AS INPUT: for all sequences of effect writes "
         "(any effect numbers, parameter bytes, channels, effect memories, loop states, quirk sets, player/flow modes, time factors) with no "
         "range hypothesis on what they leave behind (C16_fx_range, C16_fx_range_call, C16_fx_range_row, C16_frame_fx_refines, "
         "C16_inv_frame_fx, C16_inv_frame_fx_total, C16_reachable_fx, C16_reachable_fx_info; C16_fx_env_ok: the only module requirement, "
         "a non-zero byte tempo minimum, holds for the code as generated; C16_fx_writer_sites: every assignment to a kernel-read "
         "effect-owned variable in src/*.c sits in a modelled function; C16_fx_unclamped_counterexample: tempo 0 without the clamp = the "
         "repaired finding bpm:min_bpm_clamp; C16_far_tempo_range: FAR tempo effects give speed 4..37 and tempo >= XMP_MIN_BPM in every tempo state, negative tempos included; C16_loop_jump_lands_in_pattern: next_row ends inside the pattern for EVERY loop target, e.g. one carried over from a longer pattern; C16_inv_mode_switch, C16_reachable_modes: xmp_set_player(MODE / CFLAGS) while playing = replacement of every scan-derived table by ANY well-formed rescan of the same song + the sequence fix-up keeps the invariant, the sequence index is valid for the new table; XmpProps.C16Start C16_wf_of_loaded, C16_inv_start_loaded: the initial-speed clause of WF is discharged by C03's post-load clause 1 <= mod->spd <= 255 instead of being assumed). xmp_play_buffer calls (any loop limit, any size, continuing after -XMP_END) play zero or "
         "more frames and nothing else: every state they pass through satisfies the invariant and the loop counter never decreases across "
         "them (C16_play_buffer, C16_reachable_api, C16_loop_monotone_api). For modules that also satisfy the monitored order-list clause "
         "OrdWF the order-skipping loop of next_order terminates within len+1 iterations (C16_next_order_terminates), every xmp_play_frame "
         "returns, -XMP_END exactly in the C's early-return cases (C16_frame_returns), and the history theorems hold with no divergence "
         "escape (C16_inv_frame_total, C16_reachable_total, C16_reachable_info_total). For ALL inputs the buffer is a whole number of "
         "1/2/4-byte frames, between 8 and XMP_MAX_FRAMESIZE/4 frames, never above XMP_MAX_FRAMESIZE bytes, within one frame of rate x frame "
         "time when neither clamp applies (C16_ticksize, C16_framesize_bound, C16_ticksize_agrees); an accepted tempo factor is never clamped "
         "(C16_tempo_factor_no_clamp); 0<=virt_used<=maxvoc<=virt_channels after every history of virtual.c operations (C16_virt, "
         "C16_virt_inv). Tied to src/player.c, control.c, effects.c, flow.c, read_event.c, mixer.c, virtual.c on every run: kernel step of "
         "every frame (also of every frame played INSIDE xmp_play_buffer, observed through a linker --wrap hook on libxmp_mixer_softmixer), "
         "control calls, start-up, ST2.6 step, stop rule and state preservation of xmp_play_buffer, tick size, tempo-factor acceptance, every "
         "virtual.c call; Fx.processFx against sampled real libxmp_process_fx calls (--wrap hook: corpus modules, synthetic modules, injected "
         "and delayed events) and Fx.readRow + ST2.6 step against the first tick of a row of a real module for every effect number x "
         "parameter x lane under random set-up rows, partner effects and 10 (quick) / 24 (thorough) configurations of player mode, quirks, "
         "flow mode, flags and time factor, incl. the two time factors where the tempo minimum leaves the byte range and modules with FAR extras; a third of the synthetic modules carry a pattern-loop start beyond the end of the next pattern; 40% of the cases switch player mode / vblank timing between the frames (mostly from inside the last sequence of multi-sequence marker modules; module tables re-dumped, Seq.rescanFix tied, sequence clause evaluated at once); a third of the cases shut the player down and start it again at another rate / format (mostly XMP_MAX_SRATE or 48 kHz 16-bit stereo, the tempo factor surviving); a quarter are 'marathons': short multi-order modules played on through many wraps with plain xmp_play_frame and no position-control call, in every flow mode and after xmp_set_player(MODE, each value); header speeds 255/256/0x120/0xffff/0 reach libxmp_load_epilogue through synthetic modules and generated XM files; the effect sweep also plays notes with 1/2/4 voices (a note that gets no voice must still run its effects); Fx.tempoSlideStep "
         "against the following tick; constants, the min_bpm clamp, the three frame-size cap divisors (C16_cap_constants) and the writer-site list regenerated from the sources; plus a direct "
         "oracle on xmp_frame_info that yields replayable failing inputs.",
    note="Still abstract / monitored: (1) NO effect number remains abstract: all of 0x00..0xff are modelled, incl. FX_FAR_TEMPO 0x68 / "
         "FX_FAR_F_TEMPO 0x69 in modules with FAR extras (Fx.farTranslate = libxmp_far_translate_tempo with the fine-tempo clamping, both "
         "tempo modes, the unsigned divisor loop for negative tempos and the XMP_MIN_BPM clamp; C16_far_tempo_range; swept in fxall "
         "configurations 2000+ over the accumulated coarse/fine state); Prim.raw is kept as an unused escape. All but the 19 flow/tempo "
         "effects leave the modelled variables "
         "alone, which the exhaustive fxrow correspondence checks). (2) WHICH writes an effect stage performs is exact for read_row on the "
         "first tick of a row (Fx.readRow, tied) incl. the same-tick read of a one-tick delayed event; for the rest of stage B (inject_event, "
         "events delayed by >= 2 ticks, tempo/global-volume slides of play_channel in their real order) the theorems quantify over ALL "
         "sequences of Prim writes — a sound over-approximation, with the completeness of the Prim list checked syntactically "
         "(C16_fx_writer_sites). Event fields other than the two effect lanes (note/instrument/volume, the key-off + EDx rewriting of "
         "read_row) only select which event is read and are not modelled; the post-call xc->vol.memory is compared for FX_S3M_SPEED only. "
         "p->gvol is modelled but not constrained (not a C16 clause). (3) Module data (orders, rows, scan results, xxo_info) enter through "
         "the predicate WF evaluated by the Lean driver on every module played; scan.c and the loaders are not modelled. (4) The C computes "
         "the tick size and min_bpm in double; the model is exact rational arithmetic and the correspondence brackets the rounding. (5) "
         "'agrees with rate x frame time' is proved between the minimum and maximum frame-size clamps, for rates in [XMP_MIN_SRATE, "
         "XMP_MAX_SRATE]. (6) OrdWF (what libxmp_scan_sequences guarantees for kept sequences) is a monitored hypothesis of the termination "
         "theorems only, evaluated by the Lean driver and cross-checked in C. (7) libxmp_virt_off is not modelled; the byte accounting of "
         "xmp_play_buffer is C12's model. Correspondence is sampled (differential) except the effect sweep, which is exhaustive over "
         "effect number x parameter x lane in the thorough tier and over the 17 flow effects in the quick tier.",
    technique="Lean 4 invariant proofs by case analysis over the kernel and the effect interpreter + induction over call histories; "
              "refinement of the abstract effect stage by modelled writes; differential correspondence from dumped pre-states and linker "
              "--wrap hooks; exhaustive effect x parameter sweep; direct oracle on xmp_frame_info",
    design_ref="DESIGN.md section 4 C16/C17",
)

REQUIRED = [
    "Xmp.Seq.C16_inv_start", "Xmp.Seq.C16_inv_frame", "Xmp.Seq.C16_frame_info", "Xmp.Seq.C16_loop_monotone",
    "Xmp.Seq.C16_loop_monotone_run", "Xmp.Seq.C16_inv_control", "Xmp.Seq.C16_reachable", "Xmp.Seq.C16_reachable_info",
    "Xmp.Seq.C16_next_order_terminates", "Xmp.Seq.C16_frame_returns", "Xmp.Seq.C16_inv_frame_total",
    "Xmp.Seq.C16_reachable_total", "Xmp.Seq.C16_reachable_info_total",
    "Xmp.Seq.C16_loop_jump_lands_in_pattern", "Xmp.Fx.C16_far_tempo_range",
    "Xmp.Tick.C16_cap_constants", "Xmp.Seq.C16_next_order_keeps_loop_counter",
    "Xmp.Seq.C16_inv_mode_switch", "Xmp.Seq.C16_reachable_modes", "Xmp.Seq.C16_wf_of_loaded", "Xmp.Seq.C16_inv_start_loaded",
    "Xmp.Seq.C16_play_buffer", "Xmp.Seq.C16_reachable_api", "Xmp.Seq.C16_loop_monotone_api",
    "Xmp.Fx.C16_fx_env_ok", "Xmp.Fx.C16_fx_writer_sites", "Xmp.Fx.C16_fx_range", "Xmp.Fx.C16_fx_range_call", "Xmp.Fx.C16_fx_range_row",
    "Xmp.Fx.C16_frame_fx_refines", "Xmp.Fx.C16_inv_frame_fx", "Xmp.Fx.C16_inv_frame_fx_total", "Xmp.Fx.C16_reachable_fx",
    "Xmp.Fx.C16_reachable_fx_info", "Xmp.Fx.C16_fx_unclamped_counterexample",
    "Xmp.Tick.C16_ticksize", "Xmp.Tick.C16_framesize_bound", "Xmp.Tick.C16_ticksize_agrees", "Xmp.Tick.C16_tempo_factor_no_clamp",
    "Xmp.Virt.C16_virt", "Xmp.Virt.C16_virt_inv",
]

# every xmp_play_frame ends in libxmp_mixer_softmixer (mixer.c): the hook that observes the frames played inside xmp_play_buffer
# every libxmp_process_fx call (effects.c, called from read_event.c) passes through the hook that dumps the flow record around it
HARNESS_EXTRA = ["-Wl,--wrap=libxmp_mixer_softmixer", "-Wl,--wrap=libxmp_process_fx"]

PRODUCERS = ("wf", "start", "von", "frame", "ctl", "fx", "fxrow", "tslide", "pbuf", "st26", "tick", "tfac", "vop", "vopf")
NAMES = {"tslide": "Fx.tempoSlideStep vs the IT tempo slide tick of play_channel",
         "fx": "Fx.processFx vs libxmp_process_fx (flow record around every sampled real call)",
         "fxrow": "Fx.readRow + st26 step + same-tick delayed read vs the first tick of a row of a real module (every effect number x parameter)",
         "pbuf": "Seq.framesUntilLimit vs the number of frames xmp_play_buffer played (loop-limit stop rule)", "wf": "Seq.ordWfB (Lean) vs the same clause evaluated in C on the live module", "frame": "Seq.kernelStep vs xmp_play_frame (kernel-owned fields)", "ctl": "Seq.ctl vs control.c position calls",
         "start": "Seq.start vs xmp_start_player", "von": "Virt.virtOn vs libxmp_virt_on", "st26": "Seq.st26Step vs ST2.6 speed step",
         "tick": "Tick.getTicksize/prepare/bufferSize vs mixer.c", "tfac": "Tick.setTempoFactor vs xmp_set_tempo_factor (acceptance)", "vop": "Virt.step vs virtual.c",
         "vopf": "Virt.step vs virtual.c (field-only operations: setnna, setsmp, queuepatch, pastnote OFF/FADE; all voice fields)"}


def header_speed_files(ck):
    """XM files (structure-aware generator of tools/synthmods.py) whose 16-bit header speed is 255 / 256 / 0x120 / 0xffff / 0:
    xm_load.c takes the field as it is, libxmp_load_epilogue has to bring it back into 1..255."""
    import random
    import shutil
    import struct
    import synthmods
    d = os.path.join(vlib.OUT, "c16", "gen-%d" % ck.seed)
    shutil.rmtree(d, ignore_errors=True)
    os.makedirs(d, exist_ok=True)
    rng = random.Random(ck.seed * 65537 + 16)
    out = []
    for i, spd in enumerate([255, 256, 0x120, 0xffff, 0, 0x100, 31, 0x8000]):
        data = bytearray(synthmods.gen_xm(rng)[0])
        struct.pack_into("<H", data, 76, spd)          # xfh.tempo (default speed), offset 60 + 16
        if i % 2 == 0:
            data[38:58] = b"MED2XM by J.Pynnone "       # tracker id of the converter that writes 16-bit speeds
        fn = os.path.join(d, "spd%04x-%d.xm" % (spd, i))
        open(fn, "wb").write(bytes(data))
        out.append(fn)
    return out


def pick_corpus(ck, n):
    files = [f for f in vlib.corpus_files() if os.path.getsize(f) < 600000]
    fixed = [f for f in files if "/test/test." in f]
    rest = [f for f in files if f not in fixed]
    ck.rng.shuffle(rest)
    return fixed + (rest if n is None else rest[:n])


def run_shard(a):
    exe, args = a
    rc, out, err = vlib.run_exe(exe, args, timeout=2400)
    return rc, out.decode("latin-1"), err


def split_cases(text):
    """-> list of dict(begin, D, E, O, A, complete) ; plus global N stats"""
    cases, cur, stats = [], None, {}
    loose = {"begin": "tick-shard", "D": [], "E": [], "O": [], "A": [], "complete": True}
    lines = text.split("\n")
    if lines and lines[-1] != "":
        lines = lines[:-1]          # the harness died in the middle of a line: drop the fragment
    for line in lines:
        tag, rest = line[:2], line[2:]
        if tag == "B ":
            cur = {"begin": rest, "D": [], "E": [], "O": [], "A": [], "complete": False}
            cases.append(cur)
        elif tag == "Z" or line == "Z":
            if cur is not None:
                cur["complete"] = True
            cur = None
        elif tag == "N ":
            k, v = rest.split()
            stats[k] = stats.get(k, 0) + int(v)
        elif tag in ("D ", "E ", "O ", "A "):
            (cur if cur is not None else loose)[tag[0]].append(rest)
    if loose["D"]:
        cases.append(loose)
    return cases, stats


def replay_of(exe, case, nframes, vd):
    f = case["begin"].split()
    if len(f) >= 3 and f[0] == "case":
        return {"cmd": ["c16_frames", "case", f[1], str(nframes), str(vd), f[2]], "case": case["begin"]}
    if f and f[0] == "modeprobe":
        return {"cmd": ["c16_frames", "modeprobe"], "case": case["begin"]}
    if len(f) >= 3 and f[0] == "fxall" and f[2].startswith("cfg="):
        return {"cmd": ["c16_frames", "fxall", f[1], f[2][4:], "1", "0"], "case": case["begin"]}
    return {"case": case["begin"]}


FXT_SEEN = {}


def wild_eq(et, mt):
    """token-wise equality; '*' on either side matches anything (a field the harness / the driver declares not comparable)"""
    return len(et) == len(mt) and all(a == b or a == "*" or b == "*" for a, b in zip(et, mt))


def compare_case(ck, case, model_lines, stats, rp):
    """Compare expected (real) vs model lines of one case. Returns per-case counters."""
    prod = [d for d in case["D"] if d.split(" ", 1)[0] in PRODUCERS]
    c = {"frames": 0, "repos": 0, "ordchg": 0, "ctl": 0, "wf": None, "ordwf": None, "fin": 0, "fxrows": 0, "fxchanged": 0}
    oracle_failed = bool(case["O"])
    n = min(len(prod), len(case["E"]), len(model_lines))
    prev_ord = None
    for d, e, mo in zip(prod[:n], case["E"][:n], model_lines[:n]):
        kind = d.split(" ", 1)[0]
        et, mt = e.split(), mo.split()
        ok = et == mt
        if kind == "wf":
            c["wf"] = mt[1] == "1"
            c["ordwf"] = len(mt) > 2 and mt[2] == "1"
            # Seq.ordWfB (Lean, on the dumped module) against the same clause evaluated in C on the live module
            ok = len(et) > 2 and len(mt) > 2 and et[2] == mt[2]
        elif kind == "tick":
            stats["tick_cases"] += 1
            if et[1:4] == mt[1:4]:
                stats["tick_exact"] += 1
                ok = True
            else:
                # floating-point rounding bracket: the real (tick size, prepared tick size, buffer size) must be what the model
                # gives for time_factor*(1-2^-40) or for time_factor*(1+2^-40), as a whole triple
                lo3, hi3 = [mt[4], mt[6], mt[7]], [mt[5], mt[8], mt[9]]
                ok = lo3 != hi3 and et[1:4] in (lo3, hi3)
                if ok:
                    stats["tick_rounding_bracket"] += 1
        elif kind == "tfac":
            # exact agreement, or the value sits on the acceptance boundary within floating-point rounding
            ok = et[:2] == mt[:2] or (len(mt) > 3 and mt[2] != mt[3])
            stats["tfac_accepted" if et[1:2] == ["1"] else "tfac_refused"] += 1
        elif kind == "frame":
            if et[:2] == ["k", "ok"]:
                c["frames"] += 1
                if len(et) > 10 and et[10] == "1":
                    c["repos"] += 1
                if prev_ord is not None and et[2] != prev_ord:
                    c["ordchg"] += 1
                prev_ord = et[2]
            elif et[:2] == ["k", "fin"]:
                c["fin"] += 1
            if mt[:2] == ["k", "diverge"]:
                stats["model_diverge"] += 1
        elif kind == "ctl":
            c["ctl"] += 1
        elif kind == "fx":
            ok = wild_eq(et, mt)
            fxt = d.split("|")[1].split()[4]
            FXT_SEEN[int(fxt)] = FXT_SEEN.get(int(fxt), 0) + 1
            if int(fxt) in (0x68, 0x69) and d.split("|")[0].split()[-1] == "1":
                stats["fx_far_tempo_calls_compared"] += 1
        elif kind == "fxrow":
            ok = wild_eq(et, mt)
            c["fxrows"] += 1
            if d.split("|")[2].split() != e.split("|")[0].split()[1:]:
                c["fxchanged"] += 1
        elif kind == "vopf":
            stats["vopf_" + d.split(" ", 2)[1]] += 1
        if ok:
            stats["agree_" + kind] += 1
            ck.cov["traces_validated_against_impl"] += 1 if kind in ("frame", "ctl", "vop", "vopf", "fx", "fxrow") else 0
        elif not oracle_failed:
            stats["disagree_" + kind] += 1
            ck.unproved("correspondence " + NAMES.get(kind, kind),
                        "case [%s]\n input: %s\n real : %s\n model: %s\n replay: %s" % (case["begin"], d[:400], e[:300], mo[:300], rp))
            break
    return c


def run(ck):
    FXT_SEEN.clear()
    consts, changed = gen_player_consts.generate()
    ck.note("generated_consts_changed", changed)
    ck.note("consts", {k: consts[k] for k in ("maxFramesize", "maxSrate", "minBpm", "anticlickShift", "smixNumvoc", "s3mBpmClamp",
                                              "flowWriterSites")})
    ck.proofs(["XmpProps.C16", "XmpProps.C16Start"], required=REQUIRED, drivers=["drv_c16"])
    exe = vlib.build_harness("c16_frames", ["c16_frames.c"], extra=HARNESS_EXTRA)
    quick = ck.tier == "quick"
    seed = ck.seed
    if quick:
        nframes, vd = 300, 6
        synth_shards, synth_per = 11, 28          # 308 synthetic modules
        corpus = pick_corpus(ck, 57) + header_speed_files(ck)   # + the three repo test modules + XM files with 16-bit header speeds
        corpus_shards = 4
        tick_n = 6000
        fx_shards, fx_cfgs, fx_thorough = 2, 5, 0     # 10 configurations (every player mode twice) x ~16 k experiments
    else:
        nframes, vd = 500, 6
        synth_shards, synth_per = 12, 420         # 5040 synthetic modules
        corpus = pick_corpus(ck, None) + header_speed_files(ck)
        corpus_shards = 12
        tick_n = 200000
        fx_shards, fx_cfgs, fx_thorough = 12, 2, 1    # 24 configurations x 2 lanes x 256 effects x 256 parameters
    shards = []
    for i in range(synth_shards):
        shards.append((exe, ["play", str(seed * 7919 + i), str(synth_per), str(nframes), str(vd), "@synth"]))
    per = (len(corpus) + corpus_shards - 1) // corpus_shards
    for i in range(corpus_shards):
        mods = corpus[i * per:(i + 1) * per]
        if mods:
            shards.append((exe, ["play", str(seed * 104729 + i), str(len(mods)), str(nframes), str(vd)] + mods))
    shards.append((exe, ["tick", str(seed * 31 + 5), str(tick_n)]))
    for i in range(fx_shards):
        shards.append((exe, ["fxall", str(seed), str(i * fx_cfgs), str(fx_cfgs), str(fx_thorough)]))
    # time factors at which the tempo minimum of label fx_s3m_bpm leaves the byte range (flow effects only)
    shards.append((exe, ["fxall", str(seed), "1000", "2", "0"]))
    # player-mode switch that turns virtual channels on for a module started without background channels
    shards.append((exe, ["modeprobe"]))
    # modules with FAR extras: FX_FAR_TEMPO / FX_FAR_F_TEMPO sweep over the accumulated coarse / fine tempo state
    if quick:
        shards.append((exe, ["fxall", str(seed), str(2000 + seed % 16), "2", "0"]))
    else:
        for j in range(8):
            shards.append((exe, ["fxall", str(seed), str(2000 + 2 * j), "2", "1"]))   # all 16 initial coarse tempos, every effect x parameter
    results = vlib.pmap(run_shard, shards)

    from collections import defaultdict
    stats = defaultdict(int)
    nstats = defaultdict(int)
    sigs = defaultdict(int)
    wf_fail_cases = []
    ordwf_fail_cases = []
    for (rc, out, err), sh in zip(results, shards):
        cases, ns = split_cases(out)
        for k, v in ns.items():
            nstats[k] += v
        if rc != 0:
            named = re.findall(r"^CASE (.*)$", err, re.M)
            last = {"begin": named[-1]} if named else (cases[-1] if cases else {"begin": "?"})
            if rc == -999:
                sig = "hang:xmp_play_frame"
                what = "harness timed out (endless loop in the player?) in case [%s]" % last["begin"]
            else:
                sig = "harness-abort:" + vlib.sanitizer_signature(err)
                what = "sanitizer/abort (rc=%d) in case [%s]: %s" % (rc, last["begin"], sig)
            ck.violation(sig, dict(replay_of(exe, last, nframes, vd), stderr=err[-3000:]), what)
        if not cases:
            continue
        dtext = "\n".join("\n".join(c["D"]) for c in cases) + "\n"
        model = vlib.run_driver("drv_c16", dtext, timeout=1800) if ck.lean_ok else None
        mi = 0
        for c in cases:
            nprod = sum(1 for d in c["D"] if d.split(" ", 1)[0] in PRODUCERS)
            ml = model[mi:mi + nprod] if model is not None else []
            mi += nprod
            rp = replay_of(exe, c, nframes, vd)
            for o in c["O"]:
                sig = o.split(" ", 1)[0]
                sigs[sig] += 1
                ck.violation(sig, dict(rp, oracle=c["O"][:6]),
                             "C16 clause fails on the real code: " + o[:400])
            if c["begin"] == "tick-shard":
                compare_case(ck, c, ml, stats, rp)
                continue
            cc = compare_case(ck, c, ml, stats, rp) if model is not None else {"frames": 0, "repos": 0, "ordchg": 0, "ctl": 0, "wf": None, "ordwf": None}
            if cc["wf"] is False:
                wf_fail_cases.append(c["begin"][:160])
            if cc["ordwf"] is False:
                ordwf_fail_cases.append(c["begin"][:160])
            elif cc["ordwf"]:
                stats["modules_ordwf_holds"] += 1
            for a in c["A"]:
                stats["assumption_" + a.split(" ", 1)[0]] += 1
                if not c["O"]:
                    ck.unproved("monitored assumption " + a.split(" ", 1)[0],
                                "case [%s]: %s ; replay %s" % (c["begin"], a[:400], rp))
            if c["begin"].startswith("modeprobe"):
                ck.count(vlib.hash_str(c["begin"]), nontrivial=True)
                continue
            if c["begin"].startswith("fxall"):
                stats["fxrow_experiments"] += cc.get("fxrows", 0)
                stats["fxrow_state_changed"] += cc.get("fxchanged", 0)
                ck.count(vlib.hash_str(c["begin"]), nontrivial=cc.get("fxchanged", 0) >= 1000)
                continue
            nontrivial = cc["frames"] >= 20 and cc["ordchg"] >= 1 and (cc["repos"] >= 1 or " mar=1 " in c["begin"])
            ck.count(vlib.hash_str(c["begin"]), nontrivial=nontrivial)
            ck.sample({"case": c["begin"][:200], "frames_ok": cc["frames"], "repositions": cc["repos"],
                       "order_changes": cc["ordchg"], "control_calls": cc["ctl"], "wf": cc["wf"]}, limit=5)
    if wf_fail_cases:
        # a module outside WF is outside the theorems' scope: report, do not hide
        ck.note("modules_outside_WF", wf_fail_cases[:20])
        ck.unproved("monitored assumption WF", "module data read by the kernel violates Seq.wfB: " + "; ".join(wf_fail_cases[:5]))
    if ordwf_fail_cases:
        # outside the scope of the termination theorems (C16_next_order_terminates, C16_*_total): report, do not hide
        ck.note("modules_outside_OrdWF", ordwf_fail_cases[:20])
        ck.unproved("monitored assumption OrdWF", "a loaded module has a sequence that cannot reach a pattern (Seq.ordWfB): "
                    + "; ".join(ordwf_fail_cases[:5]))
    for k, v in sorted(stats.items()):
        ck.note(k, v)
    for k, v in sorted(nstats.items()):
        ck.note("harness_" + k, v)
    ck.note("oracle_failure_signatures", dict(sigs))
    ck.note("fx_calls_compared_by_effect_number", {"%#04x" % k: v for k, v in sorted(FXT_SEEN.items())})
    ck.note("synthetic_modules", synth_shards * synth_per)
    ck.note("corpus_modules_offered", len(corpus))
    ck.cov["rule"] = ("case = (module: corpus file or seeded synthetic module; rate, format, voices, tempo-factor mode, buffer mode; seeded history "
                      "of xmp_play_frame / xmp_play_buffer interleaved with xmp_set_position/next/prev/set_row/seek_time/stop/restart/buffer "
                      "reset and injected speed/tempo/flow events); distinct by hash of the case header; non-trivial = at least 20 successful "
                      "frames, at least one order change and at least one reposition frame (marathon cases: no position-control call by design) inside "
                      "the case. fxall case = one configuration "
                      "(player mode, quirks, flow mode, flags, time factor) of the effect sweep; non-trivial = at least 1000 experiments in "
                      "which the row changed the flow record")
    ck.assumptions += [
        "EffectRange: after every frame pbreak in {0,1}, jump in [-1,255], jumpline/delay/rowdelay >= 0, speed in 1..255, bpm >= 1, "
        "st26_speed 0 or two non-zero bytes — monitored on every real frame (harness 'A effrange'); hypothesis of the C16_reachable family and, "
        "not needed by the C16_*_fx family (every effect incl. the FAR tempo effects is modelled; Prim.raw is unused)",
        "EnvOk: the tempo minimum of label fx_s3m_bpm is a non-zero byte — proved for the code as generated (C16_fx_env_ok, "
        "CLAMP(min_bpm, 1, 255) extracted from src/effects.c on every run); the two time factors where it failed before /repo 694de7b are "
        "played in every run (fxall configurations 1000/1001)",
        "xmp_play_buffer touches the player state only through xmp_play_frame — monitored after every buffer call (harness 'A pbufstate')",
        "spdOK / StartSpeedAgrees: 1 <= mod->spd <= 255 after load (C03's clause, evaluated on the live module at every start: harness 'A spd') "
        "and the scan recorded it for the first playable order ('A startspeed') — hypotheses of C16_inv_start_loaded",
        "SameSong: a mode / timing switch leaves orders and patterns alone — the re-dumped module is what the kernel correspondence of the "
        "following frames runs against",
        "WF: module data read by the kernel (orders, rows >= 1, sequence table, entry points, xxo_info speed/bpm) — evaluated by the Lean "
        "driver (Seq.wfB) on every module played",
        "OrdWF: every kept sequence reaches an order holding a pattern (restart position of the sequence, entry point, or forward walk "
        "from the entry point before the end of the list / an 0xff marker) — evaluated by the Lean driver (Seq.ordWfB) on every module "
        "played and, independently, in C by the harness; hypothesis of the termination theorems only",
        "OpOk: preconditions of the virtual.c operations (resetvoice on a used voice, setpatch on a track channel, NNA only with "
        "QUIRK_VIRTUAL) — monitored at every spied call",
        "XMP_PLAYER_VOICES >= 0 (negative / huge values are finding F4 of another property)",
    ]


def replay(ck, rp):
    exe = vlib.build_harness("c16_frames", ["c16_frames.c"], extra=HARNESS_EXTRA)
    r = rp.get("replay", {})
    cmd = r.get("cmd")
    if not cmd:
        print("replay file names no concrete case: " + str(rp.get("what")))
        print(str(r)[:3000])
        return 1
    rc, out, err = vlib.run_exe(exe, cmd[1:], timeout=600)
    text = out.decode("latin-1")
    olines = [l for l in text.splitlines() if l.startswith("O ")]
    for l in olines[:20]:
        print(l)
    print(err[-2000:])
    if rc != 0 or olines:
        print("VIOLATION property=C16 replay=%s" % " ".join(cmd))
        return 1
    print("no failure reproduced")
    return 0
