"""C08 — Built-in unpacking is transparent and byte-exact.

proof      : XmpProps.C08 over XmpModel.Container / XmpModel.Md5 (+ generated XmpModel.Gen.Depackers)
tie        : translator (depacker_list order, magic tests, exclude globs, sniff limits, MD5 step table, …)
             + correspondence: harness/c08_unpack.c (real md5.c, real depacker tests, real exclude match,
             real arc_unpack RLE90, link-time spies on the real depackers while xmp_load_module runs)
             versus the native model driver drv_c08 on the same cases
search     : direct oracle — payloads wrapped by INDEPENDENT encoders (tools/c08_writers.py, python
             zlib/bz2/lzma/zipfile, CLI gzip/bzip2/xz/zip) loaded BY PATH with the real library and compared
             with the bare payload loaded from memory (module digest, PCM, md5 vs hashlib, test title/format)
"""
import hashlib
import lzma
import os
import re
import shutil
import struct
import subprocess
import sys
import time
import zipfile

import warnings

import vlib

warnings.filterwarnings("ignore", message="Duplicate name")
sys.path.insert(0, os.path.dirname(os.path.dirname(os.path.abspath(__file__))))
import c08_writers as W  # noqa: E402
import gen_depackers  # noqa: E402

LEVEL = "proof"
MANIFEST = dict(
    category="proof",
    text="Lean 4 theorems (XmpProps.C08) prove, for ALL inputs of the modelled layer: MD5Update of md5.c is chunk-independent and "
         "the 16 KiB read loop of set_md5sum yields the MD5 of the whole stream (C08_md5_chunking, _chunking_list, _read_loop, _wf) and equals the RFC 1321 padding+block-fold definition (C08_md5_spec); "
         "decrunch_gzip hands exactly the deflate stream to the decoder and returns the payload for every legal combination of "
         "FTEXT/FHCRC/FEXTRA/FNAME/FCOMMENT/reserved bits (C08_gzip_framing, _stream, _roundtrip); the archive walks select the first "
         "regular non-excluded member for every placement of excluded/directory/unsupported companions (C08_member_selection, "
         "_member_unpack); the exclude globs are modelled on full member paths with fnmatch flags 0 (`*` runs across '/'): a name "
         "accepted by a `*…` pattern stays excluded behind every directory prefix (C08_exclude_path_prefix). FULLY MODELLED CODECS with round-trip theorems: compress(1) LZW as decoded by uncompress.c (input() macro = bit "
         "extraction C08_lzw_input_macro, group alignment C08_lzw_align, decode(encode p) = p for maxbits 10..16, block mode on/off, every "
         "CLEAR policy and phrase-length bound: C08_lzw_roundtrip); PowerPacker PP20 as decoded by ppdepack.c (PP_READ_BITS = pending-bit "
         "stream C08_pp_read_bits, decrunch_pp(ppRender tokens) = ppExpand tokens for EVERY legal token stream of literal runs and matches — "
         "all length classes, 7-bit and table offsets, overlapping copies, all header/trailer checks: C08_pp_tokens; concrete literal-run "
         "encoder C08_pp_roundtrip); "
         "ARC RLE90 for every well-formed token stream and for the concrete encoder (C08_rle90_roundtrip, C08_rle90_encoder); ARC squeeze (method 4, "
         "arc_unpack_huffman_rle90): node-count and child-index tests, arc_huffman_check_tree, the 11-bit lookup + bit walk, end-of-stream code and the "
         "RLE90 stage over the 8192-byte window blocks invert the encoder for EVERY code tree of at most HUFFMAN_TREE_MAX = 256 nodes (257 symbols) and "
         "every well-formed RLE90 token stream (C08_squeeze_huffman_roundtrip, C08_squeeze_roundtrip); the size boundary -- exactly 256 nodes accepted "
         "and decoding every byte string, 257 refused -- is C08_squeeze_tree_limit (limit and comparison generated from the C); the copy stage of the "
         "LHA -lh4-..-lh7- decoders with the history ring PRE-FILLED WITH BLANKS (fill value generated from the memset of init_ring_buffer): the first "
         "copy command of a stream yields blanks whatever its offset, an encoder that codes leading blanks as matches into the dictionary before the "
         "file is inverted (C08_lh_new_blank_dictionary, C08_lh_new_lead_roundtrip, C08_lha_new_decoder; the Huffman stage is a parameter). BYTE-LEVEL "
         "FRAMING theorems: gzip (above); ARC/Spark arc_read on bytes: header walk over excluded members, member selection, stored + RLE90 "
         "methods, CRC-16 gate (C08_arc_framing), sub-directories as nested archives with the walker's directory level: members inside "
         "open or after closed Spark / ARC 6 directories of any depth are reached (C08_arc_framing_dirs), also when the member is squeezed "
         "(C08_arc_framing_squeeze, C08_pipeline_arc_squeeze: no decoder hypothesis); zip: end-of-central-directory record, central directory walk and local headers yield "
         "exactly the written members, stored members come back unconditionally and deflated ones given a correct inflate (C08_zip_members, "
         "C08_zip_framing), miniz' 4096-byte window search with 3-byte overlap finds the last record behind every legal archive comment "
         "(C08_zip_eocd_scan, C08_zip_framing_comment); LHA: the lhasa reader model (archive start search, header levels 0/1/2 with length/checksum tests, name fields, "
         "extended header walk, MS-DOS all-caps fix, member walk, stored decoder) returns the first non-excluded -lh0- member "
         "(C08_lha_framing); ArcFS: header checks, entry table walk, value offsets, stored + RLE90, CRC-16 gate (C08_arcfs_framing); LZX: entry headers with names/comments, chained header CRC-32, merge state machine on "
         "unmerged entries, stored extraction, CRC-32 gate (C08_lzx_framing); MMCMP: header, block offset table, block and sub-block headers, copy of every "
         "sub-block to its position in the zero-filled output (C08_mmcmp_framing); the block decoders block_unpack_8bit / _16bit are modelled (mmDec: LSB-first bit "
         "reader with 0xFF past EOF, code-width changes, escape codes, end marker, translation table, delta predictor / sign handling, sub-block "
         "switching; code tables and flag bits from the translator) and block_unpack_8bit is proved to invert the fixed-width encoder mmEncode8 "
         "with and without DELTA for every list of sub-blocks placed anywhere, in any order, in the output buffer -- the predictor runs through "
         "the whole block (C08_mmcmp_unpack8); files mixing stored, packed and packed+DELTA blocks unpack to the payload with no decoder "
         "hypothesis (C08_mmcmp_framing_packed). PIPELINES loadByPath(wrap p) = loadFromMemory p with md5 = MD5 p: C08_pipeline_gzip (hypothesis: inflate), "
         "C08_pipeline_compress, C08_pipeline_pp and C08_pipeline_pp_tokens (no decoder hypothesis), C08_pipeline_arc / _arc_rle90 (stored + RLE90, no decoder "
         "hypothesis), C08_pipeline_zip (stored: none; deflated: inflate), C08_pipeline_lha (-lh0-: none), C08_pipeline_arcfs (stored + RLE90: none), C08_pipeline_lzx (stored: none), C08_pipeline_mmcmp (stored blocks: none), C08_pipeline_mmcmp_packed (stored + 8-bit packed blocks with the modelled decoder: none), generic C08_pipeline_of_decrunch, C08_not_packed; over the "
         "generated depacker_list all signature tests except LHA's are pairwise exclusive, so the dispatch order matters for LHA only "
         "(C08_tests_exclusive, C08_dispatch_of_test, C08_dispatch_gzip). The model is tied to the C on every run by regenerated facts "
         "(depacker_list order and magic tests, exclude globs, sniff limits, gzip flag bits, MD5 step table, BUFLEN) and by differential "
         "correspondence: real md5.c, depacker test functions, libxmp_exclude_match, arc_unpack(RLE90), arc_unpack(squeezed) incl. mutated / truncated streams, "
         "the LHA copy stage on the command lists of the python -lh5- encoder, link-time spies inside "
         "xmp_load_module, and the real depack() entry points (decrunch_compress, decrunch_pp, arc_read, arcfs_read, lzx_read, decrunch_mmcmp, decrunch_zip, decrunch_lha) run on "
         "streams of the independent python writers, on streams/archives written by the LEAN encoders of the theorems (lzwEncode, ppEncode, "
         "arcWrap / arcfsWrap + rle90Enc, squeeze, lhNewEncodeLead (+ python Huffman stage), zipWrap, lhaWrap, lzxWrap, mmcmpWrap, mmcmpWrapK + mmEncode8; the zip writer is refereed by python zipfile) and on mutated streams, compared with the Lean "
         "decoders (for LHA also the repository's LH1/5/6/7 archives, header walk only; for MMCMP the complete model incl. both block decoders on files of an "
         "independent python compressor: 8/16-bit adaptive widths, DELTA, ABS16, shuffled sub-blocks, several blocks, end markers). A direct "
         "oracle loads archives produced by independent encoders through the real library; it includes payload boundary classes "
         "(modules and raw payloads that begin and end with runs of 1..6 equal bytes of the same value, all-zero / all-0xFF, 0/2/4 "
         "sample bytes, lengths 1..4; titles padded with blanks / NULs / letters and payloads that begin with long runs of them; one / two / all "
         "256 / all-but-one byte values; inputs cut around the code-width and table-full points of the ARC LZW methods) through every codec -- "
         "including own independent encoders for LHA -lh4-/-lh5-/-lh6-/-lh7- (LZ77 with matches into the blank dictionary before the file + static "
         "Huffman blocks), ARC squeeze (Huffman node table over RLE90), ARC crunch / squash / Spark compress (LZW 9..16 bit) in ARC, Spark and ArcFS, and "
         "xz / LZMA2 with a chosen chunk layout (own .xz container + LZMA range encoder, refereed by liblzma: uncompressed and LZMA chunks mixed, small "
         "dictionaries 4 KiB..64 KiB(..256 KiB) that wrap inside both kinds of chunk, matches at distances up to the full dictionary size right after a "
         "wrap; signatures oracle:xz:* stay apart from the known finding xz:dict_size>XZ_MAX_DICT); degenerate members -- empty and one byte -- through "
         "every container writer must come back exactly or be refused cleanly (oracle:<codec>:degenerate, harness-abort:dp:degenerate:*); the two-stage "
         "ARC methods (RLE90 + LZW, decoder re-entered per 8192-byte window) get strings of not-yet-known codes (KwKwK), long strings, code-width "
         "changes, table-full and reset events laid across the window borders with an offset sweep (found with the encoder's own statistics); an own "
         "-lh1- encoder (LZHUF: LZSS + adaptive Huffman with its rebuild at root count 0x8000) with members long enough for several tree rebuilds, and excluded `*.ext` members inside sub-directories in front of a module "
         "that sits in a sub-directory (zip, LZX, LHA, ARC, ArcFS)."
         " DEFLATE: XmpModel.Inflate mirrors libxmp_tinfl_decompress as libxmp calls it (stored / fixed / dynamic blocks, tinfl's "
         "table-acceptance rule incl. empty and one-symbol code sets, symbols 286/287 and 30/31, distance and end-of-input tests); "
         "XmpProps.C08Inflate proves canonical Huffman decoding for every complete code, inflate o deflate = id for the Lean encoders over "
         "any mixture of stored, fixed and dynamic blocks and every LZ77-valid token list, progress and work bounds, and the gzip / zip "
         "pipelines without decoder hypothesis for such streams (C08_pipeline_gzip_deflate, C08_pipeline_zip_deflate). BZIP2: "
         "XmpModel.Bzip2 mirrors bunzip2.c; XmpProps.C08Bzip2 proves the final run-length stage, the inverse BWT against the "
         "sorted-rotation BWT, MTF/RUNA-RUNB, canonical tables for every Kraft-valid length assignment 1..20, bunzip2 (bzip2 p) = p "
         "for every payload and level, and C08_pipeline_bzip2 without decoder hypothesis (sub-checks tools/c08_inflate.py, tools/c08_bzip2.py).",
    note="PARTIAL: the entropy decoders inflate, bzip2, LZMA2, LH1 and the Huffman stage of LH4/5/6/7 (their copy stage is modelled), LZX, ARC "
         "crunch/squash/compress, SQSH and S404 are parameters of the model, not proved (exercised by the oracle against independent encoders only); LZW of compress(1), PowerPacker "
         ", RLE90 and ARC squeeze are modelled and proved completely (squeeze: the lookup table of the C is modelled by its meaning -- the first 11 "
         "code bits may be zero bits behind the data, later ones not; the pipeline theorem for squeezed members takes the signature test of the first "
         "header as a hypothesis); the -lh4-..-lh7- ring of 2^HISTORY_BITS bytes is represented by the unbounded history initial window ++ output, "
         "equivalent for offsets below the ring size (tied on command lists); also (PowerPacker for every legal token stream; bit_buffer/todo are unbounded naturals in the "
         "model, the C widths suffice for efficiency bytes <= 15 and files below 1 GiB), the LZW theorem excludes maxbits=9 (the decoder lineage switches to 10-bit codes when the 9-bit table "
         "is full, compress(1) does not; the model mirrors the decoder). uncompress.c's input buffering (IBUFSIZ refills) is abstracted to a "
         "contiguous stream (refills happen on code-group boundaries); tied on streams spanning many buffers. Byte-level framing theorems exist "
         "for gzip, ARC/Spark and ArcFS (stored + RLE90 members), zip without zip64 (archive comments included: the model's end-of-central-directory search mirrors miniz' 4096-byte "
         "windows as fixed in /repo 956fc91; comment lengths around the window borders are also exercised by the oracle) and LHA -lh0- members "
         "with plain names (no path separators) and level 0/1/2 headers (level 3, paths, common-CRC and SFX stubs are modelled and tied by "
         "correspondence, not in the theorem; the 24-byte lead-in buffer of lhasa is abstracted); LZX is proved for stored unmerged members (merged groups and the LZX decoder are modelled/parameter and tied by correspondence); "
         "MMCMP is proved for stored blocks and for 8-bit blocks written at the fixed code width 7 with the identity table (adaptive code widths, custom "
         "translation tables, the end marker and the 16-bit decoder with DELTA/ABS16 are modelled in mmDec and tied by correspondence on the python "
         "compressor's and on mutated files, not in a theorem; the 32-bit bit window of the C is abstracted to a bit position, the per-file budget "
         "total_unpk of /repo 353a4b5 is in the model); xz/bzip2/SQSH/S404 containers are opaque in the "
         "pipeline model (oracle only). "
         "Out of the property's quantifier and rejected by the code: concatenated multi-member gzip, xz dictionaries above XZ_MAX_DICT "
         "(known finding), zip names not matching the exclude globs (e.g. dir/README). Loaders that read companion files by path are "
         "excluded from the payload pool (C07/C10). Trusted: Lean kernel, translator, harness, differ, python encoders as referees.",
    technique="Lean 4 proofs (lock-step induction encoder/decoder, bit-stream arithmetic, induction over block folds / token streams / member "
              "lists, decide over generated tables) + translator + differential correspondence (incl. Lean-encoder-to-real-decoder) + oracle "
              "with independent encoders",
    design_ref="DESIGN.md section 4 C08 / C09",
)

REQUIRED = ["Xmp.Container." + n for n in (
    "C08_md5_chunking", "C08_md5_chunking_list", "C08_md5_read_loop", "C08_md5_wf", "C08_md5_spec", "C08_gzip_framing", "C08_gzip_stream",
    "C08_gzip_roundtrip", "C08_member_selection", "C08_member_unpack", "C08_exclude_path_prefix", "C08_rle90_roundtrip", "C08_sniff_limits",
    "C08_dispatch_gzip", "C08_tests_exclusive", "C08_dispatch_of_test", "C08_pipeline_of_decrunch", "C08_pipeline_gzip",
    "C08_pipeline_partial", "C08_not_packed",
    "C08_lzw_input_macro", "C08_lzw_align", "C08_lzw_roundtrip", "C08_pipeline_compress",
    "C08_pp_read_bits", "C08_pp_roundtrip", "C08_pp_tokens", "C08_pipeline_pp", "C08_pipeline_pp_tokens",
    "C08_zip_members", "C08_zip_framing", "C08_zip_eocd_scan", "C08_zip_framing_comment", "C08_pipeline_zip", "C08_lha_framing", "C08_pipeline_lha", "C08_arcfs_framing", "C08_pipeline_arcfs", "C08_lzx_framing", "C08_pipeline_lzx", "C08_mmcmp_framing", "C08_pipeline_mmcmp", "C08_mmcmp_unpack8", "C08_mmcmp_framing_packed", "C08_pipeline_mmcmp_packed",
    "C08_squeeze_huffman_roundtrip", "C08_squeeze_roundtrip", "C08_squeeze_tree_limit", "C08_arc_framing_squeeze", "C08_pipeline_arc_squeeze",
    "C08_lh_new_blank_dictionary", "C08_lh_new_lead_roundtrip", "C08_lha_new_decoder",
    "C08_rle90_encoder", "C08_arc_framing", "C08_arc_framing_dirs", "C08_pipeline_arc", "C08_pipeline_arc_rle90")]

WRAPS = ["-Wl,--wrap=libxmp_exclude_match", "-Wl,--wrap=libxmp_tinfl_decompress_mem_to_heap",
         "-Wl,--wrap=libxmp_arc_unpack", "-Wl,--wrap=hio_reopen_mem", "-Wl,--wrap=MD5Update"]

EXCLUDED_NAMES = ["README", "readme", "ReadMe", "file_id.diz", "FILE_ID.DIZ", "info.nfo", "X.NFO", "manual.doc", "a.txt",
                  "NOTES.TXT", "setup.exe", "run.com", "x.readme", "index.htm", "index.html", "about.info", "READ.ME.TXT"]
ARC_EXCLUDED = ["README", "readme", "ReadMe", "FILE_ID.DIZ", "INFO.NFO", "A.TXT", "notes.txt", "RUN.COM", "X.EXE", "InfoText",
                "d/A.TXT", "x/i.nfo", "a/b/r.com", "docs/f.diz"]
MODULE_NAMES = ["song.mod", "test.xm", "MUSIC.S3M", "a", "tune.it", "mod.title", "track01", "x.y.z"]


def build_harness():
    return vlib.build_harness("c08_unpack", ["c08_unpack.c"], extra=WRAPS)


# ---------------------------------------------------------------------------- payloads
PERIODS = [856, 808, 762, 720, 678, 640, 604, 570, 538, 508, 480, 453, 428, 404, 381, 360, 339, 320, 302, 285, 269, 254,
           240, 226, 214, 202, 190, 180, 170, 160, 151, 143, 135, 127, 120, 113]


def tiny_mod():
    p = bytearray(1084 + 1024)
    p[0:4] = b"tiny"
    p[950] = 1
    p[951] = 0x7f
    p[1080:1084] = b"M.K."
    return bytes(p)


def gen_mod(rng, npat=None, total_words=None, sparse=False):
    """a valid 4-channel M.K. module with random patterns and samples"""
    npat = npat or rng.randint(1, 4)
    nsmp = rng.randint(1, 6)
    words = [rng.randint(1, 2000) for _ in range(nsmp)]
    if total_words is not None:
        s = sum(words[:-1])
        if total_words > s:
            words[-1] = total_words - s
        else:
            words = [total_words]
            nsmp = 1
    p = bytearray()
    title = ("gen%d" % rng.randrange(10 ** 6)).encode()
    p += title + b"\0" * (20 - len(title))
    for i in range(31):
        if i < nsmp:
            nm = ("smp%d" % i).encode()
            ln = min(words[i], 0xffff)
            loop = rng.random() < 0.4 and ln > 4
            ls = rng.randint(0, ln // 2) if loop else 0
            ll = rng.randint(2, ln - ls) if loop else 1
            p += nm + b"\0" * (22 - len(nm)) + struct.pack(">HBBHH", ln, rng.randint(0, 15), rng.randint(0, 64), ls, ll)
        else:
            p += b"\0" * 22 + struct.pack(">HBBHH", 0, 0, 0, 0, 1)
    songlen = rng.randint(1, 8)
    p += bytes([songlen, 0x7f])
    p += bytes([rng.randrange(npat) for _ in range(songlen)] + [0] * (128 - songlen))
    if npat - 1 not in p[952:952 + songlen]:
        p[952] = npat - 1
    p += b"M.K."
    for _ in range(npat):
        for _ in range(64 * 4):
            if sparse and rng.random() < 0.9 or rng.random() < 0.4:
                p += b"\0\0\0\0"
            else:
                per = rng.choice(PERIODS)
                ins = rng.randint(1, nsmp)
                fx = rng.choice([0, 0xa, 0xc, 0x4, 0x1, 0x2, 0xe, 0x9])
                prm = rng.randint(0, 0x40) if fx == 0xc else rng.randint(0, 255)
                p += bytes([(ins & 0xf0) | (per >> 8), per & 0xff, ((ins & 0x0f) << 4) | fx, prm])
    for w in words[:nsmp]:
        n = 2 * min(w, 0xffff)
        kind = rng.randrange(3)
        if sparse or kind == 0:
            p += bytes([(rng.randrange(256) if rng.random() < 0.02 else 0) for _ in range(n)])
        elif kind == 1:
            p += bytes([int(127 + 100 * ((i // 7) % 2)) & 0xff for i in range(n)])
        else:
            p += bytes(rng.getrandbits(8) for _ in range(n))
    return bytes(p)


def aaaa_mod(rng):
    """M.K. module whose first bytes are equal: a compress(1) stream WITHOUT block mode assigns code 256 to "aa" and
    uses it as its second code"""
    p = bytearray(gen_mod(rng, npat=1))
    p[0:20] = b"a" * 20
    return bytes(p)


def boundary_mod(rng, b, k, j, words=None):
    """M.K. module that BEGINS with a run of exactly k bytes `b` (title) and ENDS with a run of exactly j bytes `b`
    (tail of the last sample): run-length / block-sorting stages of the codecs see the same byte at both ends"""
    p = bytearray(gen_mod(rng, npat=1, total_words=words or rng.choice([8, 9, 40, 700])))
    other = (b + 1 + rng.randrange(200)) % 256 or 1
    if other == b:
        other = (b + 7) % 256
    p[0:20] = bytes(rng.choice(b"abcdefgh XYZ") for _ in range(20))
    p[0:k] = bytes([b]) * k
    if k < 20:
        p[k] = other
    if j:
        p[-j:] = bytes([b]) * j
        p[-j - 1] = other
    return bytes(p)


XZ_LAYOUT = {}          # md5 of a generated payload -> (dictionary size, pieces for W.xz_own)


def mod_with_body(rng, body):
    """M.K. module whose sample data is exactly `body` (even length); returns (module, offset of the sample data)"""
    assert len(body) % 2 == 0 and len(body) // 2 <= 31 * 0xffff
    m = bytearray(gen_mod(rng, npat=1, total_words=1)[:-2])
    words, i = len(body) // 2, 0
    while words > 0:
        w = min(words, 0xffff)
        off = 20 + 30 * i
        nm = ("part%d" % i).encode()
        m[off:off + 30] = nm + b"\0" * (22 - len(nm)) + struct.pack(">HBBHH", w, 0, 64, 0, 1)
        words -= w
        i += 1
    return bytes(m) + body, len(m)


def xz_mixed_mods(rng, quick):
    """modules for the own xz writer: sample data = incompressible stretches longer than a small LZMA2 dictionary and
    repeats of earlier data at distances up to the dictionary size; the chunk layout (uncompressed / LZMA) is kept in
    XZ_LAYOUT so that the dictionary wraps inside uncompressed chunks and the far matches follow in LZMA chunks"""
    out = []
    for D in ([4096, 8192, 65536] if quick else [4096, 6144, 8192, 16384, 32768, 65536, 1 << 18]):
        for k in range(1 if quick else 3):
            body, pieces = W.xz_mixed_payload(rng, D, rounds=2 if D > 16384 else 3)
            if len(body) % 2:
                body += bytes([rng.getrandbits(8)])
                pieces = pieces[:-1] + [(pieces[-1][0] + 1, pieces[-1][1])]
            mod, off = mod_with_body(rng, body)
            XZ_LAYOUT[hashlib.md5(mod).hexdigest()] = (D, [(off, "lz")] + pieces)
            out.append(("gen/xz-mixed-%d-%d" % (D, k), mod))
    return out


def auto_pieces(rng, p):
    """chunk layout for any payload: random pieces, LZMA-coded when small enough for the python range coder"""
    pieces, left = [], len(p)
    while left:
        k = min(left, rng.choice([1, 300, 3000, 9000, 70000]))
        pieces.append((k, "lz" if k <= 9000 and rng.random() < 0.7 else "raw"))
        left -= k
    return pieces


def boundary_mods(rng, quick):
    """(name, bytes): begin/end runs of every length 1..6 of the same byte, plus modules with 0, 2 and 4 sample bytes"""
    combos = [(k, j) for k in range(1, 7) for j in range(1, 7)]
    out = []
    if quick:
        picks = [(3, 1), (3, 2), (3, 3), (4, 1)] + rng.sample([c for c in combos if c[0] != 3], 4)
        for k, j in picks:
            out.append(("gen/bnd-00-%d-%d" % (k, j), boundary_mod(rng, 0, k, j)))
        out.append(("gen/bnd-ff-3-2", boundary_mod(rng, 0xff, 3, 2)))
        out.append(("gen/bnd-61-6-6", boundary_mod(rng, 0x61, 6, 6)))
    else:
        for b in (0, 0xff, 0x61):
            for k, j in combos:
                out.append(("gen/bnd-%02x-%d-%d" % (b, k, j), boundary_mod(rng, b, k, j)))
    for w in (1, 2):
        out.append(("gen/bnd-words%d" % w, gen_mod(rng, npat=1, total_words=w)))
    # titles padded with blanks / NULs / letters to the full 20 bytes, and a short text followed by the padding: LZ77
    # codecs whose dictionary is pre-filled (LHA: blanks) may code the beginning as a match that reaches before byte 0
    for b in (0x20, 0x00, 0x61):
        out.append(("gen/bnd-title20-%02x" % b, boundary_mod(rng, b, 20, rng.randint(1, 4))))
        m = bytearray(boundary_mod(rng, b, 20, 0))
        t = rng.choice([b"x", b"song", b"my tune 1"])
        m[0:len(t)] = t
        out.append(("gen/bnd-title%d+pad-%02x" % (len(t), b), bytes(m)))
    return out


def boundary_payloads(rng, quick):
    """raw payload classes for the codec-level oracle (not modules): equal-byte runs of length 1..6 at both ends (same
    byte), all-zero / all-0xFF, lengths 1..4"""
    combos = [(k, j) for k in range(1, 7) for j in range(1, 7)]
    out = []
    for b in (0, 0xff, 0x41):
        for k, j in (rng.sample(combos, 5) + [(3, 1), (3, 3), (4, 2)] if quick else combos):
            n = rng.choice([0, 1, 50, 3000])
            mid = bytearray(rng.getrandbits(8) for _ in range(n))
            if mid:
                if mid[0] == b:
                    mid[0] ^= 0x55
                if mid[-1] == b:
                    mid[-1] ^= 0x55
            out.append(("run%d-%02x-run%d" % (k, b, j), bytes([b]) * k + bytes(mid) + bytes([b]) * j))
    for b in (0, 0xff):
        for n in ([1, 3, 4, 255, 256, 4096] if quick else [1, 2, 3, 4, 5, 6, 255, 256, 257, 4095, 4096, 70000]):
            out.append(("all-%02x-%d" % (b, n), bytes([b]) * n))
    for n in (1, 2, 3, 4):
        out.append(("len%d" % n, bytes(rng.getrandbits(8) for _ in range(n))))
    # begins with a long run of blanks / NULs / letters (pre-filled LZ77 dictionaries), then data
    for b in (0x20, 0x00, 0x61):
        for k in ([3, 20, 300] if quick else [1, 2, 3, 4, 19, 20, 21, 256, 257, 300, 9000]):
            tail = bytes(rng.getrandbits(8) for _ in range(rng.choice([0, 1, 40, 2000])))
            if tail and tail[0] == b:
                tail = bytes([b ^ 0x55]) + tail[1:]
            out.append(("lead%d-%02x" % (k, b), bytes([b]) * k + tail))
    # alphabet classes for the Huffman stages: one value, two values, every byte value (full code tree), every value but one
    for n in ([1, 600] if quick else [1, 2, 600, 20000]):
        out.append(("one-value-%d" % n, bytes([rng.choice([0x00, 0x41, 0x90, 0xff])]) * n))
    a, b = rng.sample(range(256), 2)
    out.append(("two-values", bytes(rng.choice([a, b]) for _ in range(rng.choice([2, 50, 3000])))))
    out.append(("two-values-9041", bytes(rng.choice([0x90, 0x41]) for _ in range(200))))
    for extra in ([0, 3000] if quick else [0, 1, 256, 3000, 50000]):
        l = list(range(256))
        rng.shuffle(l)
        out.append(("all256+%d" % extra, bytes(l) + bytes(rng.getrandbits(8) for _ in range(extra))))
    l = [x for x in range(256) if x != rng.randrange(256)]
    rng.shuffle(l)
    out.append(("all-but-one", bytes(l) * 2))
    l = list(range(256))
    rng.shuffle(l)
    out.append(("all256-skewed", b"".join(bytes([x]) * (1 + (i * i) // 40) for i, x in enumerate(l))))
    return out


def lzw_window_payloads(rng, quick):
    """(name, payload, reset_every): inputs for the two-stage ARC methods (RLE90 + LZW; the LZW decoder is re-entered
    for every 8192-byte window of the intermediate stream).  Compressible filler without runs and without 0x90 (so the
    intermediate stream equals the input) keeps the string table small and its strings long; stretches of a fresh
    self-overlapping pattern (period 1+1, 2 or 3: their codes arrive before the decoder has the entry) are laid across
    the multiples of 8192 with a sweep of offsets.  Returned only if a string of such a code really straddles a window
    border (found with the encoder's own statistics)."""
    out = []
    tries = 0
    while len(out) < (6 if quick else 40) and tries < 200:
        tries += 1
        nwin = rng.choice([2, 3, 4])
        block = bytearray()
        while len(block) < rng.choice([40, 300, 900]):
            b = rng.randrange(1, 0x80)
            if len(block) < 2 or not (block[-1] == b and block[-2] == b):
                block.append(b)
        body = bytearray()
        fresh = 0xa0
        for m in range(1, nwin + 1):
            start = m * 8192 - rng.choice([1, 2, 5, 9, 17, 33, 60, 100, 200, rng.randrange(1, 400)])
            while len(body) < start:
                chunk = bytearray(block)
                if rng.random() < 0.5:
                    chunk[rng.randrange(len(chunk))] = rng.randrange(1, 0x80)
                body += chunk
            del body[start:]
            while len(body) >= 3 and body[-1] == body[-2] == body[-3]:
                body[-1] = (body[-1] % 0x7f) + 1
            period = rng.choice([2, 2, 3])
            pat = bytes(fresh + i for i in range(period))
            fresh += period
            body += (pat * 300)[:rng.choice([60, 420, 700])]
        body += bytes(block)
        p = bytes(body)
        if W.rle90_encode(p) != p:
            continue
        rs = rng.choice([0, 0, 30, 300])
        st = {}
        W.arc_lzw(p, 12, rs, stats=st)
        hits = [(a, b) for a, b in st["kwkwk"] if a // 8192 != (b - 1) // 8192]
        if hits:
            out.append(("window-kwkwk-%dw-reset%d-at%d" % (nwin, rs, hits[0][0]), p, rs))
    return out


def lzw_aligned_event_payloads(rng, quick):
    """(name, payload, reset_every): vocabulary text (no runs, no 0x90) behind a period-2 prefix (many bytes, few table
    entries) whose length is swept until an event of the LZW coder -- a code-width change, the table becoming full, a
    reset code -- falls within two bytes of a multiple of 8192 of the intermediate stream, i.e. at a re-entry of the
    window decoder (found with the encoder's own statistics)"""
    out = []
    for wanted in (["width11", "full"] if quick else ["width10", "width11", "width12", "full", "reset", "width11", "full", "reset"]):
        vocab = [bytes(rng.randrange(1, 0x80) for _ in range(rng.randint(2, 7))) for _ in range(rng.choice([40, 200]))]
        body = bytearray()
        while len(body) < 22000:
            body += rng.choice(vocab)
        for i in range(2, len(body)):
            if body[i] == body[i - 1] == body[i - 2]:
                body[i] = (body[i] % 0x7f) + 1
        body = bytes(body)
        rs = 150 if wanted == "reset" else rng.choice([0, 150])
        st = {}
        W.arc_lzw(body, 12, rs, stats=st)
        ev = [pos for n, pos in st["events"] if n == wanted]
        if not ev:
            continue
        k = (-ev[0]) % 8192
        for it in range(40):
            p = (b"\xf0\xf1" * (k // 2 + 1))[:k] + body
            st = {}
            W.arc_lzw(p, 12, rs, stats=st)
            pos = [q for n, q in st["events"] if n == wanted]
            if not pos:
                break
            if pos[0] >= 8190 and (pos[0] % 8192 <= 2 or pos[0] % 8192 >= 8190):
                out.append(("window-%s-at%d-reset%d" % (wanted, pos[0], rs), p, rs))
                break
            miss = (-pos[0]) % 8192
            k += miss if miss < 4096 else 1          # the prefix costs a few table entries: approach from below, then step
    return out


def lzw_boundary_payloads(rng, quick):
    """(name, payload, method, stream): inputs cut around the points where the ARC LZW coder (crunch 12 bit after RLE90,
    squash 13 bit, Spark compress 9..16 bit) widens its codes and where its table becomes full, +-2 bytes"""
    out = []
    base = bytes(rng.getrandbits(8) for _ in range(40000))
    base = bytes(b if b != 0x90 else 0x91 for b in base)
    for what, mb in (("crunch", 12), ("squash", 13), ("compress", rng.choice([9, 10, 11])), ("compress", rng.choice([14, 15, 16]))):
        n = {9: 1200, 10: 2500, 11: 5000, 12: 9000, 13: 18000, 14: 36000, 15: 72000, 16: 150000}[mb]
        src = base * (n // len(base) + 1)
        src = src[:n] if n <= len(base) else bytes(rng.getrandbits(7) for _ in range(n))
        st = {}
        W.arc_lzw(W.rle90_encode(src) if what == "crunch" else src, mb, 0, stats=st)
        ev = st["events"]
        if not any(e[0] == "full" for e in ev):
            raise vlib.InfraError("LZW boundary generator: table of %d bits not filled by %d bytes" % (mb, n))
        if quick:
            other = [e for e in ev if e[0] != "full"]
            ev = [e for e in ev if e[0] == "full"] + rng.sample(other, min(1, len(other)))
        for name, pos in ev:
            for d in ((-1, 0, 1, 2) if quick else (-3, -2, -1, 0, 1, 2, 3, 9)):
                cut = pos + d
                if what == "crunch":
                    # positions are in the RLE90 stream; the data has no runs and no 0x90, so they are input positions too
                    pass
                if 0 < cut <= len(src):
                    out.append(("%s%d-%s%+d" % (what, mb, name, d), src[:cut], what, mb))
                    if name == "full" and d in (0, 2):
                        # the bytes that formed the last table entries once more: the codes next to the table end get used
                        out.append(("%s%d-%s%+d-again" % (what, mb, name, d), src[:cut] + src[max(0, cut - 400):cut], what, mb))
    return out


def corr_boundary(ck, exe, workdir, quick):
    """codec-level oracle on the boundary payload classes: every stream is written by an INDEPENDENT encoder (python
    bz2 / zlib / lzma / zipfile, own LZW, PP20, LHA, ARC, ArcFS, LZX, MMCMP writers) and must come back byte-exact
    from the REAL depack() entry point"""
    rng = ck.rng
    items, meta = [], []
    for name, p in boundary_payloads(rng, quick):
        streams = [("bzip2", W.bzip2(p, rng.choice([1, 9]))), ("bzip2", W.bzip2(p, 9)),
                   ("xz", W.xz(p, check=rng.choice(["crc32", "crc64", "none"]))),
                   ("gzip", W.gzip_member(p, level=rng.choice([1, 6, 9]))[0]),
                   ("compress", W.compress_lzw(p, rng.randint(10, 16), rng.random() < 0.7, 0)),
                   ("zip", W.zip_archive([("a.mod", p, None)], method=rng.choice(["deflated", "stored"]))),
                   ("lha", W.lha_archive([("a.mod", p)], rng.choice([0, 1, 2]))),
                   ("lzx", W.lzx_archive([("a.mod", p)])),
                   ("arc", W.arc_archive([("A.MOD", p, 3)], rng.random() < 0.5)),
                   ("arcfs", W.arcfs_archive([("a/mod", p, 0x83)]))]
        # static-Huffman LHA methods (own LZ77 + Huffman encoder; the dictionary in front of the file holds blanks)
        for m in ([b"-lh5-", rng.choice([b"-lh4-", b"-lh6-", b"-lh7-"])] if quick else [b"-lh4-", b"-lh5-", b"-lh6-", b"-lh7-"]):
            streams.append(("lha", W.lha_archive([("a.mod", p, m, W.lh_new_encode(p, m, rng)[0])], rng.choice([0, 1, 2]))))
        streams.append(("lha", W.lha_archive([("a.mod", p, b"-lh1-", W.lh1_encode(p, rng)[0])], rng.choice([0, 1, 2]))))
        # ARC squeeze (RLE90 + Huffman, node table), crunch / squash / compress (LZW), in ARC, Spark and ArcFS containers
        shape = rng.choice(["huffman", "huffman", "random", "chain"])
        streams.append(("arc", W.arc_archive([("A.MOD", p, 4, W.squeeze_encode(p, rng, shape))], rng.random() < 0.5)))
        streams.append(("arcfs", W.arcfs_archive([("a/mod", p, 0x84, W.squeeze_encode(p, rng, "huffman"))])))
        rs = rng.choice([0, 0, 40]) if len(p) > 4000 else rng.choice([0, 1, 5])
        streams.append(("arc", W.arc_archive([("A.MOD", p, 8, W.arc_crunch(p, rs))], rng.random() < 0.5)))
        streams.append(("arc", W.arc_archive([("A.MOD", p, 9, W.arc_squash(p, rs))], rng.random() < 0.5)))
        mb = rng.randint(9, 16)
        streams.append(("arc", W.arc_archive([("A.MOD", p, 0x7f, W.spark_compress(p, mb, rs))], True)))
        streams.append(("arcfs", W.arcfs_archive([("a/mod", p, 0x88, W.arc_lzw(W.rle90_encode(p), 12, rs), 12)])))
        mb = rng.randint(10, 16)
        streams.append(("arcfs", W.arcfs_archive([("a/mod", p, 0xff, W.arc_lzw(p, mb, rs), mb)])))
        if len(p) < (1 << 16):
            streams.append(("pp", W.pp20(p, use_matches=True, max_match=rng.choice([5, 40, 300]))))
        if len(p) >= 16:
            streams.append(("mmcmp", W.mmcmp_stored(p, block_size=rng.choice([64, 5000]), subs_per_block=rng.choice([1, 3]))))
            streams.append(("mmcmp", W.mmcmp_packed(p, rng, kinds=("8bit", "16bit"))[0]))
        for codec, st in streams:
            items.append((codec, st))
            meta.append((codec, name, p))
    # code-width and table-full boundaries of the ARC LZW methods
    for name, p, what, mb in lzw_boundary_payloads(rng, quick):
        if what == "crunch":
            sts = [("arc", W.arc_archive([("A.MOD", p, 8, W.arc_crunch(p))], rng.random() < 0.5)),
                   ("arcfs", W.arcfs_archive([("a/mod", p, 0x88, W.arc_lzw(W.rle90_encode(p), 12), 12)]))]
        elif what == "squash":
            sts = [("arc", W.arc_archive([("A.MOD", p, 9, W.arc_squash(p))], rng.random() < 0.5))]
        else:
            sts = [("arc", W.arc_archive([("A.MOD", p, 0x7f, W.spark_compress(p, mb))], True))]
            if mb > 9:
                sts.append(("arcfs", W.arcfs_archive([("a/mod", p, 0xff, W.arc_lzw(p, mb), mb)])))
        for codec, st in sts:
            items.append((codec, st))
            meta.append((codec, name, p))
        ck.bump("lzw_boundary_streams", len(sts))
    # strings of not-yet-known codes (KwKwK) and long strings across the 8192-byte windows of the two-stage ARC methods
    for name, p, rs in lzw_window_payloads(rng, quick) + lzw_aligned_event_payloads(rng, quick):
        sts = [("arc", W.arc_archive([("A.MOD", p, 8, W.arc_crunch(p, rs))], False)),
               ("arc", W.arc_archive([("A.MOD", p, 8, W.arc_crunch(p, rs))], True)),
               ("arcfs", W.arcfs_archive([("a/mod", p, 0x88, W.arc_lzw(W.rle90_encode(p), 12, rs), 12)])),
               ("arc", W.arc_archive([("A.MOD", p, 9, W.arc_squash(p, rs))], rng.random() < 0.5)),
               ("arc", W.arc_archive([("A.MOD", p, 0x7f, W.spark_compress(p, rng.randint(12, 16), rs))], True))]
        for codec, st in sts:
            items.append((codec, st))
            meta.append((codec, name, p))
        ck.bump("lzw_window_straddling_streams", len(sts))
    # long -lh1- members: the adaptive Huffman tree is rebuilt every 32768 codes -- several rebuilds per member
    for n in ([45000, 120000] if quick else [33000, 45000, 70000, 120000, 300000]):
        kind = rng.choice(["rand", "skew", "low"])
        p = bytes(rng.getrandbits(8) for _ in range(n)) if kind == "rand" else \
            bytes(min(255, int(rng.expovariate(0.08))) for _ in range(n)) if kind == "skew" else \
            bytes(rng.getrandbits(3) for _ in range(4 * n))
        st, toks, rebuilds = W.lh1_encode(p, rng)
        items.append(("lha", W.lha_archive([("a.mod", p, b"-lh1-", st)], rng.choice([0, 1, 2]))))
        meta.append(("lha", "lh1-%s-%dcodes-%drebuilds" % (kind, len(toks), rebuilds), p))
        ck.bump("lh1_tree_rebuilds_exercised", rebuilds)
    # xz / LZMA2 chunk layouts of the own writer (refereed by liblzma) on raw payloads, small dictionaries
    for D in ([4096, 8192, 16384] if quick else [4096, 6144, 8192, 16384, 32768, 65536]):
        for _ in range(2 if quick else 4):
            p, pieces = W.xz_mixed_payload(rng, D, rounds=rng.choice([2, 3]))
            st, kinds = W.xz_own(p, pieces, D, rng.choice(["none", "crc32", "crc64"]), rng=rng)
            if lzma.decompress(st) != p:
                raise vlib.InfraError("own xz writer: liblzma decodes something else (dict %d)" % D)
            items.append(("xz", st))
            meta.append(("xz", "mixed-chunks-dict%d-%s" % (D, "".join(k[0] for k in kinds)[:24]), p))
            ck.bump("xz_mixed_chunk_streams")
    real = run_dp(ck, exe, workdir, "boundary", items)
    if real is None:
        return
    ck.bump("boundary_payload_streams", len(items))
    for (codec, name, p), (_, st), r in zip(meta, items, real):
        if r != "D ok %d %016x" % (len(p), fnv1a(p)):
            ck.violation("oracle:%s:boundary" % codec, {"how": "python3 tools/check.py C08 --replay <this file>", "dp": codec,
                                                      "stream_hex": st.hex() if len(st) <= 65536 else None,
                                                      "payload_hex": p.hex() if len(p) <= 65536 else None, "class": name},
                         "the %s depacker does not return the payload of class %s (%d bytes) written by an independent encoder: %s" % (
                             codec, name, len(p), r))
    ck.cov["traces_validated_against_impl"] += 0


def corr_degenerate(ck, exe, workdir, minsize=22):
    """degenerate members through every container writer: the EMPTY member (expected: clean refusal or an exact empty
    result -- never an abort) and ONE-BYTE members (exact round trip or clean refusal)"""
    rng = ck.rng
    items, meta = [], []
    for p in [b"", b"", bytes([0]), b" ", b"\x90", b"\xff", bytes([rng.getrandbits(8)])]:
        writers = [
            ("bzip2", lambda: W.bzip2(p, 9)), ("xz", lambda: W.xz(p, check=rng.choice(["crc32", "crc64", "none"]))),
            ("xz", lambda: W.xz_own(p, [(len(p), rng.choice(["raw", "lz"]))] if p else [], 4096, rng=rng)[0]),
            ("gzip", lambda: W.gzip_member(p, level=rng.choice([1, 9]))[0]),
            ("compress", lambda: W.compress_lzw(p, rng.randint(10, 16), True, 0)),
            ("zip", lambda: W.zip_archive([("a.mod", p, None)], method="stored")),
            ("zip", lambda: W.zip_archive([("a.mod", p, None)], method="deflated")),
            ("lha", lambda: W.lha_archive([("a.mod", p)], rng.choice([0, 1, 2]))),
            ("lha", lambda: W.lha_archive([("a.mod", p, b"-lh5-", W.lh_new_encode(p, b"-lh5-", rng)[0])], rng.choice([0, 1, 2]))),
            ("lha", lambda: W.lha_archive([("a.mod", p, b"-lh7-", W.lh_new_encode(p, b"-lh7-", rng)[0])], 1)),
            ("lha", lambda: W.lha_archive([("a.mod", p, b"-lh1-", W.lh1_encode(p, rng)[0])], rng.choice([0, 1]))),
            ("lzx", lambda: W.lzx_archive([("a.mod", p)])),
            ("pp", lambda: W.pp20(p, use_matches=True)),
        ]
        for m in (1, 2, 3, 4, 8, 9):
            writers.append(("arc", lambda m=m: W.arc_archive([("A.MOD", p, m)], False)))
        for m in (2, 3, 4, 8, 9, 0x7f):
            writers.append(("arc", lambda m=m: W.arc_archive([("A.MOD", p, m)], True)))
        for m in (0x82, 0x83, 0x84, 0x88, 0x89, 0xff):
            writers.append(("arcfs", lambda m=m: W.arcfs_archive([("a/mod", p, m)])))
        for codec, wf in writers:
            try:
                st = wf()
            except (AssertionError, ValueError, IndexError, ZeroDivisionError, struct.error):
                ck.bump("degenerate_members_no_encoding")      # the format (or this writer) has no encoding for it
                continue
            if len(st) < minsize:
                # libxmp_decrunch never hands files below its minimum header size to a depacker (C08_not_packed)
                ck.bump("degenerate_members_below_dispatch_size")
                continue
            items.append((codec, st))
            meta.append((codec, p))
    real = run_dp(ck, exe, workdir, "degenerate", items)
    if real is None:
        return
    ck.bump("degenerate_member_streams", len(items))
    for (codec, p), (_, st), r in zip(meta, items, real):
        if r == "D fail" or r == "D ok %d %016x" % (len(p), fnv1a(p)):
            ck.bump("degenerate_members_refused" if r == "D fail" else "degenerate_members_exact")
            continue
        ck.violation("oracle:%s:degenerate" % codec, {"how": "python3 tools/check.py C08 --replay <this file>", "dp": codec,
                                                     "stream_hex": st.hex(), "payload_hex": p.hex()},
                     "the %s depacker returns something else than the %d-byte member (neither exact nor a refusal): %s" % (codec, len(p), r))


def generated_payloads(ck, n):
    out = [("gen/tiny-mod", tiny_mod()), ("gen/aaaa-mod", aaaa_mod(ck.rng))]
    # lengths that exercise the MD5 buffering: total = 1084 + 1024*npat + 2*words
    targets = [55, 56, 63, 64, 0, 1, 8191, 16384 - 54, 16384]
    for t in targets[:n]:
        npat = 1
        base = 1084 + 1024 * npat
        # choose words so that (base + 2*words) % 64 hits a boundary class or the 16 KiB read size
        want = t if t >= 1000 else (t - base) % 64
        if t >= 1000:
            words = max(1, (t - base % 16384) % 16384 // 2 + 8192 * (1 if t - base < 0 else 0))
            total = base + 2 * words
        else:
            words = ((want // 2) or 32) + 32 * ck.rng.randint(1, 20)
            total = base + 2 * words
        out.append(("gen/mod-len%d" % total, gen_mod(ck.rng, npat=npat, total_words=words)))
    while len(out) < n + 2:
        out.append(("gen/mod-r%d" % len(out), gen_mod(ck.rng, sparse=ck.rng.random() < 0.3)))
    return out


# ---------------------------------------------------------------------------- archive recipes
def rnd_name(rng):
    return rng.choice(MODULE_NAMES)


# names that one of the `*…` exclude patterns accepts: they stay excluded behind any directory prefix (fnmatch flags 0:
# `*` runs across '/'); `README` & co. have no `*` and only match the whole member path
STAR_EXCLUDED = ["file_id.diz", "FILE_ID.DIZ", "info.nfo", "X.NFO", "manual.doc", "a.txt", "NOTES.TXT", "setup.exe", "run.com",
                 "x.readme", "index.htm", "index.html", "about.info", "READ.ME.TXT"]
SUBDIRS = ["docs/", "a/b/", "Docs/txt/", "x/"]


def companions(rng, names=EXCLUDED_NAMES, maxn=3, subdirs=0.0, force_k=None):
    """excluded companion members; with probability `subdirs` a `*.ext` name is put into a sub-directory"""
    k = force_k if force_k is not None else rng.choice([0, 0, 1, 1, 2, maxn])
    out = []
    for _ in range(k):
        nm = rng.choice(names)
        if subdirs and rng.random() < subdirs:
            nm = rng.choice(SUBDIRS) + rng.choice([x for x in names if x in STAR_EXCLUDED] or STAR_EXCLUDED)
        out.append((nm, bytes(rng.getrandbits(8) for _ in range(rng.randint(0, 40))) or b"x"))
    return out


def split_companions(rng, comps):
    k = rng.randint(0, len(comps))
    return comps[:k], comps[k:]


def cli(cmd, data, timeout=120):
    p = subprocess.run(cmd, input=data, stdout=subprocess.PIPE, stderr=subprocess.PIPE, timeout=timeout)
    if p.returncode != 0:
        raise vlib.InfraError("%s failed: %s" % (cmd, p.stderr.decode()[-300:]))
    return p.stdout


HAVE = {t: shutil.which(t) is not None for t in ("gzip", "bzip2", "xz", "zip", "uncompress")}


# zip archive comment lengths that put the end-of-central-directory signature at / across the borders of the
# 4096-byte windows of miniz' backward scan (with and without the 3-byte overlap), cf. /repo 956fc91
ZIP_COMMENT_CORE = [4075, 4076, 4077, 8171, 8172, 8173]
ZIP_COMMENT_MORE = sorted(set(
    [4075 + 4096 * k + d for k in range(0, 15) for d in (0, 1, 2)] +
    [4096 + 4093 * k - 22 + d for k in range(0, 15) for d in (-4, -3, -2, -1, 0, 1)] +
    [1, 21, 22, 23, 4070, 4071, 4072, 4073, 4074, 4078, 4079, 4096, 65534, 65535]) - set(ZIP_COMMENT_CORE))
ZIP_COMMENT_MORE = [x for x in ZIP_COMMENT_MORE if 0 < x <= 65535]


def zip_comment(rng, n):
    # never contains the byte 0x05, so no `PK\5\6` inside the comment
    return bytes(rng.choice(b"abcdefghijklmnopqrstuvwxyz0123456789 PK.") for _ in range(n))


def arc_random_tree(rng, p, nm, meth, placement, depth, packed=None):
    """ARC/Spark node list with nested directories of the given depth; the module sits before / inside / after the
    (closed) sub-directories; excluded companions are spread over all levels"""
    def junk():
        return [("file", n, d, rng.choice([2, 3])) for n, d in companions(rng, ["ReadMe", "README", "A.TXT", "x/i.nfo", "InfoText"], maxn=2)]
    mod = ("file", nm, p, meth, packed)
    inner_at = rng.randint(1, depth)          # level that holds the module when it is inside

    def build(level):
        nodes = junk()
        if level == inner_at and placement == "inside":
            nodes.insert(rng.randint(0, len(nodes)), mod) if rng.random() < 0.5 else nodes.append(mod)
        if level < depth:
            sub = ("dir", rng.choice(["Docs", "Sub", "d%d" % level]), build(level + 1))
            nodes.insert(rng.randint(0, len(nodes)), sub)
            if level + 1 == inner_at and placement == "after-inner":
                nodes.append(mod)           # in the parent, right after the closed child
        return nodes
    top = junk() + [("dir", rng.choice(["Docs", "Stuff", "Dir"]), build(1))] + junk()
    if placement == "before":
        top = [mod] + top
    elif placement == "after":
        top = top + [mod]
    elif placement == "after-inner" and inner_at == 1:
        top = top + [mod]
    return top


def make_archive(rng, fmt, p, xzmax, force=None):
    """returns (archive bytes, recipe dict, info dict for the correspondence); `force` pins encoder options"""
    force = force or {}
    r = {"fmt": fmt}
    info = {}
    if fmt == "gzip":
        o = dict(level=rng.choice([0, 1, 6, 9]), wbits=rng.choice([9, 12, 15]), memlevel=rng.choice([1, 8, 9]),
                 strategy=rng.choice([0, 0, 1, 2, 3, 4]), ftext=rng.random() < 0.3, hcrc=rng.random() < 0.4,
                 mtime=rng.choice([0, 1, 0x7fffffff, 0xffffffff, rng.getrandbits(32)]), xfl=rng.choice([0, 2, 4]),
                 osid=rng.choice([0, 3, 11, 255]))
        if rng.random() < 0.4:
            o["extra"] = bytes(rng.getrandbits(8) for _ in range(rng.choice([0, 1, 4, 30, 300])))
        if rng.random() < 0.5:
            o["name"] = bytes(rng.randint(1, 255) for _ in range(rng.choice([0, 1, 8, 40])))
        if rng.random() < 0.4:
            o["comment"] = bytes(rng.randint(1, 255) for _ in range(rng.choice([0, 3, 25, 200])))
        a, hlen, d = W.gzip_member(p, **o)
        r.update({k: (v.hex() if isinstance(v, bytes) else v) for k, v in o.items()})
        info = {"hdr": hlen, "clen": len(d), "cfnv": None}
    elif fmt == "gzip-cli" and HAVE["gzip"]:
        lv = rng.randint(1, 9)
        a = cli(["gzip", "-%d" % lv, "-c"] + (["-n"] if rng.random() < 0.5 else []), p)
        r["level"] = lv
        fmt = "gzip"
    elif fmt == "bzip2":
        lv = rng.randint(1, 9)
        a = W.bzip2(p, lv)
        r["level"] = lv
    elif fmt == "bzip2-cli" and HAVE["bzip2"]:
        lv = rng.randint(1, 9)
        a = cli(["bzip2", "-%d" % lv, "-c"], p)
        r["level"] = lv
    elif fmt == "xz" and force.get("own"):
        lay = XZ_LAYOUT.get(hashlib.md5(p).hexdigest())
        if lay:
            ds, pieces = lay
        else:
            ds, pieces = rng.choice([4096, 6144, 8192, 16384, 65536]), auto_pieces(rng, p)
        lc = rng.randint(0, 4)
        lp = rng.randint(0, 4 - lc)
        o = dict(check=rng.choice(["none", "crc32", "crc64"]), lc=lc, lp=lp, pb=rng.randint(0, 4))
        a, kinds = W.xz_own(p, pieces, ds, rng=rng, **o)
        try:
            ref = lzma.decompress(a)
        except lzma.LZMAError as e:
            raise vlib.InfraError("own xz writer rejected by liblzma: %s (dict %d, %s)" % (e, ds, o))
        if ref != p:
            raise vlib.InfraError("own xz writer: liblzma decodes something else (dict %d, %s)" % (ds, o))
        r.update(o)
        r.update(dict(own=True, dict_size=ds, chunks="".join(k[0] for k in kinds)[:60], laid_out=bool(lay)))
    elif fmt == "xz":
        o = dict(check=rng.choice(["none", "crc32", "crc64", "sha256"]))
        if rng.random() < 0.3:
            o["preset"] = rng.choice([0, 1, 3, 6, 7, 9 | 0x80000000 if False else 6])
        else:
            ds = rng.choice([4096, 8192, 65536, 1 << 20, 3 << 19, 1 << 23, xzmax])
            lc = rng.randint(0, 4)
            lp = rng.randint(0, 4 - lc)
            o.update(dict(dict_size=ds, lc=lc, lp=lp, pb=rng.randint(0, 4)))
            if rng.random() < 0.3:
                o["nice_len"] = rng.choice([2, 8, 32, 273])
        a = W.xz(p, **o)
        r.update(o)
    elif fmt == "xz-cli" and HAVE["xz"]:
        lv = rng.randint(0, 7)
        args = ["xz", "-%d" % lv, "-c", "--check=" + rng.choice(["none", "crc32", "crc64", "sha256"])]
        if rng.random() < 0.3:
            args.append("-e")
        if rng.random() < 0.3:
            args.append("--block-size=%d" % rng.choice([4096, 65536]))
        a = cli(args, p)
        r["args"] = args
    elif fmt == "xz-bigdict":
        ds = rng.choice([2 * xzmax, 4 * xzmax, xzmax + (xzmax >> 1)])
        a = W.xz(p, dict_size=ds)
        r["dict_size"] = ds
    elif fmt == "zip":
        sub = force.get("subdir", False)
        pre, post = split_companions(rng, companions(rng, subdirs=0.5))
        if sub:
            pre = companions(rng, subdirs=1.0, force_k=rng.randint(1, 3)) + pre
        if rng.random() < 0.25:
            pre = [("docs/", b"")] + pre
        nm = rnd_name(rng)
        if sub or rng.random() < 0.3:
            nm = rng.choice(["mods/", "a/b/", "x/"]) + nm
        meth = rng.choice(["deflated", "stored"])
        members = [(n, d, rng.choice([None, "stored", "deflated"])) for n, d in pre] + [(nm, p, None)] + \
                  [(n, d, None) for n, d in post]
        variant = rng.choice(["plain", "plain", "plain", "stream", "zip64", "comment", "comment"])
        clen = 0
        if "comment_len" in force:
            variant, clen = "comment", force["comment_len"]
        elif variant == "comment":
            clen = rng.choice([11 * rng.randint(1, 5), rng.randint(1, 300), rng.choice(ZIP_COMMENT_CORE), rng.choice(ZIP_COMMENT_MORE),
                               rng.randint(1, 65535)])
        if variant == "stream":
            a = W.zip_streamed(members)
        else:
            a = W.zip_archive(members, method=meth, level=rng.choice([1, 6, 9]), zip64=(variant == "zip64"),
                              comment=zip_comment(rng, clen))
        r.update(dict(members=[m[0] for m in members], method=meth, variant=variant, comment_len=clen))
        info = {"trace": [(n.encode(), 1) for n, d in pre if not n.endswith("/")] + [(nm.encode(), 0)]}
    elif fmt == "zip-cli" and HAVE["zip"]:
        d = os.path.join(vlib.OUT, "c08-zipcli-%d" % os.getpid())
        shutil.rmtree(d, ignore_errors=True)
        os.makedirs(d)
        nm = rnd_name(rng)
        names = []
        for n, dat in companions(rng):
            open(os.path.join(d, n), "wb").write(dat)
            names.append(n)
        open(os.path.join(d, nm), "wb").write(p)
        order = sorted(set(names)) + [nm] if rng.random() < 0.5 else [nm] + sorted(set(names))
        lv = rng.choice([0, 1, 6, 9])
        subprocess.run(["zip", "-q", "-X", "-%d" % lv, "out.zip"] + order, cwd=d, check=True, stdout=subprocess.DEVNULL)
        a = open(os.path.join(d, "out.zip"), "rb").read()
        shutil.rmtree(d, ignore_errors=True)
        r.update(dict(members=order, level=lv))
        fmt = "zip"
    elif fmt == "compress":
        mb = rng.randint(10, 16)
        bm = force.get("block_mode", rng.random() < 0.8)
        ce = rng.choice([0, 0, 1, 50, 1000]) if bm else 0
        a = W.compress_lzw(p, mb, bm, ce)
        r.update(dict(maxbits=mb, block_mode=bm, clear_every=ce))
    elif fmt == "lha":
        lv = rng.choice([0, 1, 2])
        sub = force.get("subdir", False)
        pre, post = split_companions(rng, companions(rng, subdirs=0.4))
        if sub:
            pre = companions(rng, subdirs=1.0, force_k=rng.randint(1, 3)) + pre
        osid = rng.choice([b"U", b"M", b"A"])
        nm = rnd_name(rng)
        if sub or rng.random() < 0.3:
            nm = rng.choice(["mods/", "a/b/"]) + nm
        meth = force.get("lha_method", rng.choice([b"-lh0-", b"-lh0-", b"-lh5-", b"-lh5-", b"-lh4-", b"-lh6-", b"-lh7-", b"-lh1-", b"-lh1-"]))
        if len(p) > 300000:
            meth = b"-lh0-"
        if meth == b"-lh0-":
            members = pre + [(nm, p)] + post
        elif meth == b"-lh1-":
            st, toks, rebuilds = W.lh1_encode(p, rng)
            members = pre + [(nm, p, meth, st)] + post
            r.update(dict(tokens=len(toks), tree_rebuilds=rebuilds))
        else:
            st, toks = W.lh_new_encode(p, meth, rng)
            members = pre + [(nm, p, meth, st)] + post
            r.update(dict(prefile_match=bool(toks) and not isinstance(toks[0], int), tokens=len(toks)))
        if rng.random() < 0.2:
            members = [("dir/", b"")] + members
        a = W.lha_archive(members, lv, osid=osid)
        r.update(dict(level=lv, os=osid.decode(), method=meth.decode(), members=[m[0] for m in members]))
    elif fmt == "arc":
        spark = rng.random() < 0.4
        pre, post = split_companions(rng, companions(rng, ARC_EXCLUDED))
        meth = force.get("arc_method", rng.choice([2, 3, 3, 4, 4, 8, 9, 0x7f] if spark else [1, 2, 3, 3, 4, 4, 8, 9]))
        nm = rng.choice(["SONG.MOD", "TEST.XM", "A", "MODULE", "tune/it"])
        packed = None
        if meth == 4:
            shape = rng.choice(["huffman", "huffman", "huffman", "random"])
            packed = W.squeeze_encode(p, rng, shape)
            r.update(dict(tree_shape=shape, nodes=struct.unpack("<H", packed[:2])[0]))
        elif meth in (8, 9, 0x7f):
            rs = rng.choice([0, 0, 0, 300, 5000])
            mb = {8: 12, 9: 13}.get(meth) or rng.randint(9, 16)
            packed = W.arc_crunch(p, rs) if meth == 8 else W.arc_squash(p, rs) if meth == 9 else W.spark_compress(p, mb, rs)
            r.update(dict(reset_every=rs, maxbits=mb))
        members = [(n, d, rng.choice([2, 3, 4, 8])) for n, d in pre] + [(nm, p, meth, packed)] + [(n, d, 2) for n, d in post]
        placement = force.get("tree", rng.choice([None, None, "before", "inside", "after", "after-inner"]))
        if placement:
            depth = force.get("depth", rng.randint(1, 3))
            a = W.arc_tree(arc_random_tree(rng, p, nm, meth, placement, depth, packed), spark)
            r.update(dict(spark=spark, method=meth, tree=placement, depth=depth))
        else:
            a = W.arc_archive(members, spark)
            r.update(dict(spark=spark, method=meth, members=[m[0] for m in members]))
    elif fmt == "arcfs":
        pre, post = split_companions(rng, companions(rng, ["ReadMe", "README", "readme", "A.TXT", "InfoText", "x.doc", "d/A.TXT", "a/b/x.doc"]))
        meth = force.get("arcfs_method", rng.choice([0x82, 0x83, 0x83, 0x84, 0x84, 0x88, 0x89, 0xff]))
        nm = rng.choice(["song/mod", "test/xm", "a", "module"])
        mem = (nm, p, meth)
        if meth == 0x84:
            mem = (nm, p, meth, W.squeeze_encode(p, rng, rng.choice(["huffman", "huffman", "random"])))
        elif meth == 0x88:
            mem = (nm, p, meth, W.arc_lzw(W.rle90_encode(p), 12, rng.choice([0, 0, 300])), 12)
        elif meth == 0x89:
            mem = (nm, p, meth, W.arc_squash(p, rng.choice([0, 0, 300])))
        elif meth == 0xff:
            mb = rng.randint(10, 16)
            mem = (nm, p, meth, W.arc_lzw(p, mb, rng.choice([0, 0, 300])), mb)
            r.update(dict(maxbits=mb))
        members = [(n, d, rng.choice([0x82, 0x83, 0x84])) for n, d in pre] + [mem] + [(n, d, 0x82) for n, d in post]
        a = W.arcfs_archive(members, pad_entries=rng.choice([0, 0, 1, 3]))
        r.update(dict(method=meth, members=[m[0] for m in members]))
    elif fmt == "lzx":
        sub = force.get("subdir", False)
        pre, post = split_companions(rng, companions(rng, subdirs=0.5))
        if sub:
            pre = companions(rng, subdirs=1.0, force_k=rng.randint(1, 3)) + pre
        nm = rnd_name(rng)
        if sub or rng.random() < 0.3:
            nm = rng.choice(["mods/", "a/b/", "x/"]) + nm
        a = W.lzx_archive(pre + [(nm, p)] + post, comment=b"" if rng.random() < 0.7 else b"a comment")
        r.update(dict(members=[m[0] for m in pre + [(nm, p)] + post]))
    elif fmt == "pp":
        if len(p) >= (1 << 24):
            return None
        eff = rng.choice([(9, 9, 9, 9), (9, 10, 10, 10), (9, 10, 11, 11), (9, 10, 12, 12), (9, 10, 12, 13)])
        um = rng.random() < 0.85
        a = W.pp20(p, eff=eff, use_matches=um, max_match=rng.choice([5, 12, 40, 300]))
        r.update(dict(eff=list(eff), use_matches=um))
    elif fmt == "mmcmp":
        bs = rng.choice([0x10000, 5000, 333, 1 << 20])
        if len(p) // bs > 2000:
            bs = 0x10000
        sp = rng.choice([1, 1, 2, 5])
        if force.get("packed", rng.random() < 0.6):
            st = rng.getstate()
            kinds = force.get("kinds", ("stored", "8bit", "16bit"))
            a, desc = W.mmcmp_packed(p, rng, max_block=rng.choice([5000, 20000, 0x10000]), kinds=kinds)
            r.update(dict(packed=True, nblocks=len(desc), kinds=sorted(set(d.split("/")[0] for d in desc)), rngstate=hash(st) & 0xffffffff))
        else:
            a = W.mmcmp_stored(p, block_size=bs, subs_per_block=sp)
            r.update(dict(block_size=bs, subs=sp))
    elif fmt == "bare":
        a = p
    else:
        return None
    r["fmt"] = fmt
    return a, r, info


FORMATS = ["gzip", "gzip", "gzip", "gzip-cli", "bzip2", "bzip2-cli", "xz", "xz", "xz-cli", "zip", "zip", "zip", "zip-cli",
           "compress", "compress", "lha", "lha", "arc", "arc", "arcfs", "lzx", "pp", "mmcmp"]
SMALL_FORMATS = ["gzip", "bzip2", "xz", "compress", "arc", "lha", "zip", "pp", "lzx", "arcfs", "mmcmp"]
DISPATCH_NAME = {"gzip": "gzip", "bzip2": "bzip2", "bzip2-cli": "bzip2", "xz": "xz", "xz-cli": "xz", "xz-bigdict": "xz",
                 "zip": "zip", "compress": "compress", "lha": "lha", "arc": "arc", "arcfs": "arcfs", "lzx": "lzx", "pp": "pp",
                 "mmcmp": "mmcmp", "bare": "none"}


# ---------------------------------------------------------------------------- harness runs
def parse_load(out):
    """-> dict id -> (kv dict, spy lines)"""
    res = {}
    cur, spy = None, []
    for line in out.splitlines():
        if line.startswith("B "):
            cur, spy = line[2:], []
        elif line.startswith("R "):
            f = line.split(" ")
            kv = dict(x.split("=", 1) for x in f[2:])
            res[f[1]] = (kv, spy)
            cur = None
        elif cur is not None:
            spy.append(line)
    return res


# Every malloc'd byte is pre-filled with a constant so that both loads of a case see the same heap contents
# (the harness also pins the per-context random generator before rendering, see pcm_digest).
ASAN_ENV = {"ASAN_OPTIONS": "detect_leaks=0:abort_on_error=0:allocator_may_return_null=1:"
                            "max_malloc_fill_size=1073741824:malloc_fill_byte=190"}


def run_load_shard(args):
    exe, listfile = args
    rc, out, err = vlib.run_exe(exe, ["load", listfile], timeout=3000, env=ASAN_ENV)
    return rc, out.decode("latin-1"), err


def run_load(ck, exe, cases, workdir, tag, nshards=None):
    """cases: list of dict(id, apath, ppath, nframes).  Returns (results dict, aborted list)."""
    nshards = nshards or min(vlib.NCPU, max(1, len(cases) // 4))
    cases = sorted(cases, key=lambda c: (c["ppath"], c["id"]))
    shards = [[] for _ in range(nshards)]
    # keep equal payloads together (the harness caches the memory load of the last payload)
    per = (len(cases) + nshards - 1) // nshards
    for i, c in enumerate(cases):
        shards[min(i // max(per, 1), nshards - 1)].append(c)
    jobs = []
    for i, sh in enumerate(shards):
        if not sh:
            continue
        lf = os.path.join(workdir, "list-%s-%d.txt" % (tag, i))
        with open(lf, "w") as f:
            for c in sh:
                f.write("%s %s %s %d\n" % (c["id"], c["apath"], c["ppath"], c["nframes"]))
        jobs.append((exe, lf))
    results, aborted = {}, []
    for (rc, out, err), job in zip(vlib.pmap(run_load_shard, jobs), jobs):
        results.update(parse_load(out))
        if rc != 0:
            last = re.findall(r"^B (\S+)$", out, re.M)
            aborted.append((job[1], last[-1] if last else None, rc, err))
    return results, aborted


def oracle_one(kv, md5_expected, check_payload=True):
    """the property on one archive; returns list of failure kinds"""
    fails = []
    if kv["mrc"] != "0":
        return ["payload_not_loadable"]
    if kv["prc"] != "0":
        fails.append("load_rc=%s" % kv["prc"])
    else:
        if kv["pdig"] != kv["mdig"]:
            fails.append("module_digest")
        if kv["ppcm"] != kv["mpcm"] or kv["pplayed"] != kv["mplayed"] or kv["pstart"] != kv["mstart"]:
            fails.append("pcm")
        if kv["pmd5"] != md5_expected:
            fails.append("md5")
    if check_payload and kv["mmd5"] != md5_expected:
        fails.append("md5_memory")
    if (kv["tprc"], kv["tpname"], kv["tptype"]) != (kv["tmrc"], kv["tmname"], kv["tmtype"]):
        fails.append("test_path")
    if (kv["tfrc"], kv["tfname"], kv["tftype"]) != (kv["tmrc"], kv["tmname"], kv["tmtype"]):
        fails.append("test_file")
    return fails


def fnv1a(data):
    h = 0xcbf29ce484222325
    for b in data:
        h = ((h ^ b) * 0x100000001b3) & 0xffffffffffffffff
    return h


def seeds_from_tests():
    """(archive path, expected md5 hex) pairs from the repository's own test_depack_*.c"""
    out = []
    td = os.path.join(vlib.REPO, "test-dev")
    try:
        files = sorted(os.listdir(td))
    except OSError:
        return out
    for fn in files:
        if not (fn.startswith("test_depack_") and fn.endswith(".c")):
            continue
        s = open(os.path.join(td, fn), encoding="latin-1").read()
        m = re.search(r'xmp_load_module\(c, "(data/[^"]+)"\)', s)
        d = re.search(r'compare_md5\(info\.md5, "([0-9a-f]{32})', s)
        if m and d and os.path.exists(os.path.join(td, m.group(1))):
            if any(x in fn for x in ("rar", "zoo", "vorbis", "it_sample", "j2b")):
                continue        # external helpers / not depackers of the dispatch list
            out.append((fn[len("test_depack_"):-2], os.path.join(td, m.group(1)), d.group(1)))
    return out


# ---------------------------------------------------------------------------- correspondences
def corr_md5(ck, exe, workdir, n):
    rng = ck.rng
    lines = []
    for i in range(n):
        ln = rng.choice([0, 1, 55, 56, 57, 63, 64, 65, 119, 120, 127, 128, 129, rng.randint(0, 400), rng.randint(0, 3000)])
        data = bytes(rng.getrandbits(8) for _ in range(ln))
        chunks = []
        left = ln
        while left > 0 and len(chunks) < 40:
            k = rng.choice([0, 1, 2, 3, 7, 8, 9, 55, 56, 63, 64, 65, 128, rng.randint(0, 200)])
            chunks.append(k)
            left -= k
        lines.append((data.hex() or "-", ",".join(str(c) for c in chunks) or "0"))
    cf = os.path.join(workdir, "md5cases.txt")
    open(cf, "w").write("".join("%s %s\n" % l for l in lines))
    rc, out, err = vlib.run_exe(exe, ["md5", cf])
    if rc != 0:
        ck.violation("harness-abort:md5:" + vlib.sanitizer_signature(err), {"cases": cf, "stderr": err[-2000:]}, "md5 harness aborted")
        return
    real = out.decode().splitlines()
    # independent referee for the digest lines
    k = 0
    digs = [l for l in real if l.startswith("d ")]
    for (hx, _), d in zip(lines, digs):
        exp = hashlib.md5(bytes.fromhex(hx) if hx != "-" else b"").hexdigest()
        if d[2:] != exp:
            ck.violation("md5.c:digest", {"data": hx}, "MD5Final digest differs from hashlib for %d bytes" % (len(hx) // 2))
            return
    if not ck.lean_ok:
        return
    model = vlib.run_driver("drv_c08", "".join("md5 %s %s\n" % l for l in lines))
    ck.bump("md5_chunkings", len(lines))
    ck.bump("md5_update_states_compared", len(real))
    if real != model:
        for i, (a, b) in enumerate(zip(real, model)):
            if a != b:
                ck.unproved("correspondence Md5.update vs MD5Update", "line %d real=%s model=%s" % (i, a[:120], b[:120]))
                return
        ck.unproved("correspondence Md5.update vs MD5Update", "different number of lines %d/%d" % (len(real), len(model)))
    else:
        ck.cov["traces_validated_against_impl"] += len(lines)


HEADS = [b"PK\x03\x04", b"PK00PK\x03\x04", b"\x1f\x8b\x08", b"\x1f\x9d\x90", b"BZh9", b"\xfd7zXZ\x00", b"PP20", b"XPKF\0\0\0\0SQSH",
         b"Archive\x00", b"ziRCONia", b"LZX", b"S404", b"\x1a\x02TEST.XM\0", b"\x1a\x82file\0", b"\x1a\x08ABCDEFGHIJKL\0",
         b"\x1a\x1fx\0", b"\x1a\x0bNAME\0", b"\x1a\x7fNAME\0", b"\x1a\xffNAME\0", b"\x1a\x14\0", b"\x1a\x63A\0", b"xx-lh5-", b"\x1f\x8b-lh0-",
         b"\x1a\x02-lh5-\0", b"MO3", b"Rar!"]


def model_globs():
    """exclude globs of the committed Lean model (XmpModel/Gen/Depackers.lean)"""
    txt = open(os.path.join(vlib.VERIF, "lean", "XmpModel", "Gen", "Depackers.lean")).read()
    body = txt[txt.index("def excludeGlobs"):]
    body = body[:body.index("\n]")]
    return [bytes(int(x) for x in m.split(",")) for m in re.findall(r"^\s*\[([0-9, ]+)\]", body, re.M)]


def corr_magic(ck, exe, workdir, n):
    rng = ck.rng
    bufs = []
    for i in range(n):
        ln = rng.choice([22, 30, 100, 1024, rng.randint(22, 1100)])
        b = bytearray(rng.getrandbits(8) if rng.random() < 0.5 else 0 for _ in range(ln))
        if rng.random() < 0.9:
            h = bytearray(rng.choice(HEADS))
            if rng.random() < 0.3 and len(h) > 1:
                h[rng.randrange(len(h))] ^= 1 << rng.randrange(8)
            b[:len(h)] = h
        if rng.random() < 0.3:
            b[2:7] = b"-lh" + bytes([rng.choice(b"0157dx")]) + b"-"
            if len(b) > 20:
                b[20] = rng.choice([0, 1, 2, 3, 4, 255])
        if b[0] == 0x1a and rng.random() < 0.5 and len(b) > 16:
            k = rng.randint(2, 15)
            b[2:k] = bytes(rng.choice([0x20, 0x41, 0x7e, 0x7f, 0x1f, 0x80, 0xff, 0x61]) for _ in range(k - 2))
            if rng.random() < 0.7:
                b[k] = 0
        bufs.append(bytes(b[:ln]))
    names = []
    try:
        globs = gen_depackers.extract()["globs"]
    except gen_depackers.TranslatorError:
        globs = model_globs()        # translator refused the source (already recorded): use the model's globs
    for g in globs:
        s = bytes(g).replace(b"\\", b"")
        base = s.replace(b"*", b"abc")
        names += [base, s.replace(b"*", b""), s.replace(b"*", b"dir/x."), base + b"x", b"x" + base, base[:-1], base.swapcase()]
    for d in SUBDIRS + ["/", "a//", "./"]:
        for nm in EXCLUDED_NAMES + MODULE_NAMES:
            names.append((d + nm).encode())
    for i in range(n // 4):
        names.append(bytes(rng.choice(b"abAB.*?\\/!rReE DdMm") for _ in range(rng.randint(0, 12))).replace(b"\0", b"a"))
    names = [x for x in names if b"\0" not in x and b"\n" not in x]
    cf = os.path.join(workdir, "magiccases.txt")
    with open(cf, "w") as f:
        for b in bufs:
            f.write(b.hex() + "\n")
        for nm in names:
            f.write("e %s\n" % (nm.hex() or "-"))
    rc, out, err = vlib.run_exe(exe, ["magic", cf])
    if rc != 0:
        ck.violation("harness-abort:magic:" + vlib.sanitizer_signature(err), {"cases": cf, "stderr": err[-2000:]}, "magic harness aborted")
        return
    real = out.decode().splitlines()
    rnames = real[0].split()[1:]
    real = real[1:]
    ck.bump("magic_buffers", len(bufs))
    ck.bump("exclude_names", len(names))
    if not ck.lean_ok:
        return
    model = vlib.run_driver("drv_c08", "".join("magic %s\n" % b.hex() for b in bufs) + "".join("e %s\n" % (nm.hex() or "-") for nm in names))
    hits = {}
    for i, b in enumerate(bufs):
        rbits = dict(zip(rnames, real[i].split()[1]))
        mf = model[i].split()
        mbits = dict(zip(mf[3:], mf[1]))
        if len(b) >= 22 and rbits != mbits:
            ck.unproved("correspondence Container.evalMagic vs depacker test()", "buffer %s real=%s model=%s" % (b[:32].hex(), rbits, mbits))
            return
        # dispatch: first set bit in generated order (model) vs first set bit in generated order over the real bits
        order = mf[3:]
        first = next((nm for nm in order if rbits.get(nm) == "1"), "none")
        if mf[2] != first:
            ck.unproved("correspondence Container.dispatch", "buffer %s model=%s real-first=%s" % (b[:32].hex(), mf[2], first))
            return
        hits[first] = hits.get(first, 0) + 1
    for j, nm in enumerate(names):
        if real[len(bufs) + j] != model[len(bufs) + j]:
            ck.unproved("correspondence Container.excludeMatch vs libxmp_exclude_match",
                        "name %r real=%s model=%s" % (nm, real[len(bufs) + j], model[len(bufs) + j]))
            return
    ck.note("magic_dispatch_hits", hits)
    ck.cov["traces_validated_against_impl"] += len(bufs) + len(names)


def corr_rle(ck, exe, workdir, n):
    rng = ck.rng
    cases = []
    for i in range(n):
        if rng.random() < 0.5:
            plain = bytes(rng.choice([0x41, 0x41, 0x90, 0x00, rng.getrandbits(8)]) for _ in range(rng.randint(0, 60)))
            packed = bytearray(W.rle90_encode(plain, max_run=rng.choice([3, 255])))
            dl = len(plain)
            if rng.random() < 0.4 and packed:
                k = rng.randrange(len(packed))
                packed[k] = rng.choice([0x90, 0, 1, 2, 255, rng.getrandbits(8)])
            if rng.random() < 0.3:
                dl = max(0, dl + rng.randint(-3, 3))
            packed = bytes(packed)
        else:
            packed = bytes(rng.choice([0x90, 0x90, 0, 1, 2, 3, 0x41, 0x42, 255]) for _ in range(rng.randint(0, 24)))
            dl = rng.randint(0, 40)
        cases.append((packed, dl))
    cf = os.path.join(workdir, "rlecases.txt")
    open(cf, "w").write("".join("%s %d\n" % (p.hex() or "-", d) for p, d in cases))
    rc, out, err = vlib.run_exe(exe, ["rle", cf])
    if rc != 0:
        ck.violation("harness-abort:rle:" + vlib.sanitizer_signature(err), {"cases": cf, "stderr": err[-2000:]}, "rle harness aborted")
        return
    real = out.decode().splitlines()
    ck.bump("rle_streams", len(cases))
    ck.bump("rle_streams_accepted", sum(1 for l in real if l.startswith("r 1")))
    if not ck.lean_ok:
        return
    model = vlib.run_driver("drv_c08", "".join("rle %s %d\n" % (p.hex() or "-", d) for p, d in cases))
    for (p, d), a, b in zip(cases, real, model):
        if a != b:
            ck.unproved("correspondence Container.unrle90 vs arc_unpack(ARC_M_PACKED)", "packed=%s dest_len=%d real=%s model=%s" % (p.hex(), d, a, b))
            return
    ck.cov["traces_validated_against_impl"] += len(cases)


def sq_payload(rng, big=True):
    n = rng.choice([0, 1, 2, 5, 100, 3000, 8192, 8193, 16384, 20000] if big else [0, 1, 2, 5, 100, 3000])
    kind = rng.choice(["rand", "low", "text", "one", "two", "all256", "runs", "rle"])
    if kind == "rand":
        return bytes(rng.getrandbits(8) for _ in range(n))
    if kind == "low":
        return bytes(rng.getrandbits(2) for _ in range(n))
    if kind == "text":
        return (b"hello world, this is a test. " * (n // 20 + 1))[:n]
    if kind == "one":
        return bytes([rng.choice([0, 0x41, 0x90, 0xff])]) * n
    if kind == "two":
        return bytes(rng.choice([0x41, 0x90]) for _ in range(n))
    if kind == "all256":
        l = list(range(256)) * rng.choice([1, 1, 3])
        rng.shuffle(l)
        return bytes(l) + bytes(rng.getrandbits(8) for _ in range(n))
    if kind == "rle":
        return bytes(rng.choice([0x90, 0x90, 0x41, 0, 1, 2, 3, 255]) for _ in range(n))
    return b"".join(bytes([rng.getrandbits(8)]) * rng.choice([1, 2, 3, 4, 10, 300]) for _ in range(max(1, n // 20)))


def sq_tree_spec(t):
    return "l%d" % t if isinstance(t, int) else "n." + sq_tree_spec(t[0]) + "." + sq_tree_spec(t[1])


def corr_squeeze(ck, exe, workdir, n):
    """Container.unsqueeze (model of arc_unpack_huffman_rle90: node table tests, arc_huffman_check_tree, 11-bit lookup +
    bit walk, end-of-stream code, RLE90 over the 8192-byte window blocks) vs the REAL arc_unpack(method 4) on: streams of
    the independent python squeezer (Huffman / random / degenerate trees, tables of 1..256 nodes), streams written by the
    LEAN encoder `squeeze` + `rle90Enc` (object of C08_squeeze_roundtrip), mutated, truncated and extended streams."""
    rng = ck.rng
    cases = []
    for i in range(n):
        p = sq_payload(rng)
        shape = rng.choice(["huffman", "huffman", "random", "chain"])
        cases.append((W.squeeze_encode(p, rng, shape), len(p), p, "python-squeezer " + shape))
    if ck.lean_ok:
        enc = []
        for i in range(n // 2):
            p = sq_payload(rng, big=False)
            shape = rng.choice(["huffman", "random", "chain"])
            freq = [1] * 257          # every byte value and the end-of-stream symbol get a leaf: 256 nodes
            if shape == "huffman":
                for b in W.rle90_encode(p):
                    freq[b] += 1
            enc.append(("sqenc %s %s" % (sq_tree_spec(W.squeeze_tree(freq, rng, shape)), p.hex() or "-"), p))
        out = vlib.run_driver("drv_c08", "".join(l + "\n" for l, _ in enc), timeout=3000)
        for (l, p), o in zip(enc, out):
            cases.append((bytes.fromhex(o[2:]) if o[2:] != "-" else b"", len(p), p, "lean-squeezer"))
    legit = len(cases)
    for i in range(4 * n):
        st, dl, p, tag = cases[rng.randrange(legit)]
        a = bytearray(st)
        how = rng.random()
        if how < 0.5:
            for _ in range(rng.choice([1, 1, 2, 4])):
                k = rng.randrange(0, min(len(a), 2 + 4 * 16)) if rng.random() < 0.5 else rng.randrange(len(a))
                a[k] = rng.choice([a[k] ^ (1 << rng.randrange(8)), 0, 1, 0xff, 0x80, rng.getrandbits(8)])
        elif how < 0.75:
            a = a[:rng.randrange(1, len(a) + 1)]
        else:
            a = a + bytes(rng.getrandbits(8) for _ in range(rng.randint(1, 4)))
        cases.append((bytes(a), max(0, dl + rng.choice([0, 0, 0, -1, 1, 5])), None, "mutated " + tag))
    cf = os.path.join(workdir, "sqcases.txt")
    open(cf, "w").write("".join("%s %d 4\n" % (st.hex() or "-", d) for st, d, _, _ in cases))
    rc, out, err = vlib.run_exe(exe, ["rle", cf])
    if rc != 0:
        ck.violation("harness-abort:squeeze:" + vlib.sanitizer_signature(err), {"cases": cf, "stderr": err[-2000:]},
                     "arc_unpack(method 4) aborted on a generated stream")
        return
    real = out.decode().splitlines()
    ck.bump("squeeze_streams", len(cases))
    ck.bump("squeeze_streams_accepted", sum(1 for l in real if l.startswith("r 1")))
    for (st, d, p, tag), r in zip(cases, real):
        if p is not None and r != "r 1 %s" % (p.hex() or "-"):
            if tag.startswith("lean"):
                ck.unproved("correspondence Container.squeeze (Lean encoder) vs arc_unpack(ARC_M_SQUEEZED)", "%s (%d bytes): real=%s" % (tag, len(p), r[:80]))
            else:
                ck.violation("oracle:squeeze:stream", {"stream_hex": st.hex() if len(st) < 40000 else None, "payload_hex": p.hex() if len(p) < 40000 else None,
                                                       "what": tag, "nodes": struct.unpack("<H", st[:2])[0]},
                             "arc_unpack(ARC_M_SQUEEZED) does not return the payload of a legal squeezed stream (%s, %d nodes): %s" % (
                                 tag, struct.unpack("<H", st[:2])[0], r[:60]))
            return
    if not ck.lean_ok:
        return
    model = vlib.run_driver("drv_c08", "".join("sq %s %d\n" % (st.hex() or "-", d) for st, d, _, _ in cases), timeout=3000)
    for (st, d, p, tag), a, b in zip(cases, real, model):
        if a != b:
            ck.unproved("correspondence Container.unsqueeze vs arc_unpack(ARC_M_SQUEEZED)", "%s dest_len=%d stream=%s real=%s model=%s" % (
                tag, d, st[:80].hex(), a[:60], b[:60]))
            return
    ck.cov["traces_validated_against_impl"] += len(cases)


LH_RING = {b"-lh4-": 1 << 14, b"-lh5-": 1 << 14, b"-lh6-": 1 << 16, b"-lh7-": 1 << 17}


def lh_tokstr(toks):
    return ",".join(("l%02x" % t) if isinstance(t, int) else "c%d.%d" % t for t in toks)


def corr_lhnew(ck, exe, workdir, n):
    """copy stage of lh_new_decoder.c (history ring pre-filled with blanks): the command lists of the python -lh4-..-lh7-
    encoder go through the REAL decoder as complete archives and through Container.lhNewExpand; the LEAN encoder
    lhNewEncodeLead (leading blanks as matches into the dictionary before the file, object of C08_lh_new_lead_roundtrip)
    is completed by the python Huffman stage and decoded by the REAL decoder."""
    rng = ck.rng
    items, exp, lines, tags = [], [], [], []
    for i in range(n):
        body = bytes(rng.choice([0x20, 0x20, 0x41, rng.getrandbits(8)]) for _ in range(rng.choice([0, 1, 5, 100, 3000])))
        p = rng.choice([b"", b" ", b"  ", b" " * 3, b" " * 20, b"\0" * 20, b"a" * 20, b" " * 300, b" " * 600]) + body or b"x"
        m = rng.choice(list(LH_RING))
        st, toks = W.lh_new_encode(p, m, rng)
        items.append(("lha", W.lha_archive([("a.mod", p, m, st)], rng.choice([0, 1, 2]))))
        exp.append(p)
        lines.append("lhnew %d %s" % (LH_RING[m], lh_tokstr(toks)))
        tags.append("python-encoder %s first=%s" % (m.decode(), toks[0] if toks else None))
    if ck.lean_ok:
        lead = []
        for i in range(n // 2):
            k = rng.choice([0, 1, 2, 3, 4, 20, 255, 256, 257, 258, 259, 456, 457, 1000])
            p = b" " * k + bytes(rng.choice([0x20, 0x41, rng.getrandbits(8)]) for _ in range(rng.choice([0, 1, 30])))
            if p[k:k + 1] == b" ":
                p = p[:k] + b"x" + p[k + 1:]
            p = p or b"y"
            m = rng.choice(list(LH_RING))
            lead.append((p, m, rng.choice([0, 1, 5, W.LH_NEW[m][0] - 1])))
        out = vlib.run_driver("drv_c08", "".join("lhlead %d %s\n" % (o, p.hex()) for p, m, o in lead), timeout=3000)
        for (p, m, o), l in zip(lead, out):
            toks = []
            for t in l[2:].split(","):
                if t.startswith("l"):
                    toks.append(int(t[1:3], 16))
                elif t.startswith("c"):
                    a, b = t[1:].split(".")
                    toks.append((int(a), int(b)))
            if any((not isinstance(t, int)) and not (3 <= t[1] <= 256 and t[0] < W.LH_NEW[m][0]) for t in toks):
                ck.unproved("correspondence Container.lhNewEncodeLead vs the -lh5- format", "command outside the format: %s" % l[:100])
                return
            if W.lz_expand(toks) != p:
                ck.unproved("correspondence Container.lhNewEncodeLead vs the -lh5- format", "commands do not mean the payload: %s" % l[:100])
                return
            st, _ = W.lh_new_encode(p, m, rng, toks=toks)
            items.append(("lha", W.lha_archive([("a.mod", p, m, st)], 1)))
            exp.append(p)
            lines.append("lhnew %d %s" % (LH_RING[m], lh_tokstr(toks)))
            tags.append("lean-encoder %s offset=%d blanks=%d" % (m.decode(), o, len(p) - len(p.lstrip(b" "))))
    real = run_dp(ck, exe, workdir, "lhnew", items)
    if real is None:
        return
    ck.bump("lh_new_streams", len(items))
    ck.bump("lh_new_streams_starting_with_a_prefile_match", sum(1 for t in tags if "first=(" in t or ("lean" in t and "blanks=0" not in t)))
    for p, r, tag, (_, a) in zip(exp, real, tags, items):
        if r != "D ok %d %016x" % (len(p), fnv1a(p)):
            if tag.startswith("lean"):
                ck.unproved("correspondence Container.lhNewEncodeLead (Lean encoder) vs lha_lh_new_read", "%s: real=%s" % (tag, r))
            else:
                ck.violation("oracle:lha:stream", {"archive_hex": a.hex() if len(a) < 40000 else None, "payload_hex": p.hex() if len(p) < 40000 else None, "what": tag},
                             "decrunch_lha does not return the member packed by an independent -lh4-..-lh7- encoder (%s): %s" % (tag, r))
            return
    if not ck.lean_ok:
        return
    model = vlib.run_driver("drv_c08", "".join(l + "\n" for l in lines), timeout=3000)
    for p, r, m, tag in zip(exp, real, model, tags):
        if m != r:
            ck.unproved("correspondence Container.lhNewExpand vs lha_lh_new_read", "%s: real=%s model=%s" % (tag, r, m))
            return
    ck.cov["traces_validated_against_impl"] += len(items)


DP_TIMEOUT = 120


def run_dp(ck, exe, workdir, tag, items):
    """items: list of (depacker name, file bytes) -> list of `D …` lines from the REAL depack() functions.
    A depacker that does not return (hang) is a VIOLATION: the culprit is isolated by re-running case by case."""
    cf = os.path.join(workdir, "dp-%s.txt" % tag)
    open(cf, "w").write("".join("%s %s\n" % (n, b.hex()) for n, b in items))
    rc, out, err = vlib.run_exe(exe, ["dp", cf], timeout=DP_TIMEOUT, env=ASAN_ENV)
    if rc == -999:
        done = len(out.decode("latin-1").splitlines())
        culprit = None
        for n, b in items[done:done + 50]:
            one = os.path.join(workdir, "dp-%s-one.txt" % tag)
            open(one, "w").write("%s %s\n" % (n, b.hex()))
            rc1, _, _ = vlib.run_exe(exe, ["dp", one], timeout=20, env=ASAN_ENV)
            if rc1 == -999:
                culprit = (n, b)
                break
        n, b = culprit if culprit else (items[done][0] if done < len(items) else "?", b"")
        ck.violation("hang:%s:%s" % (n, tag), {"how": "python3 tools/check.py C08 --replay <this file>", "dp": n,
                                               "stream_hex": b.hex() if len(b) <= 65536 else None},
                     "the real %s depacker does not return on a %d-byte input (%s): no result after %d s" % (n, len(b), tag, 20 if culprit else DP_TIMEOUT))
        return None
    if rc != 0:
        ck.violation("harness-abort:dp:%s:" % tag + vlib.sanitizer_signature(err), {"cases": cf, "stderr": err[-2000:]},
                     "a real depacker aborted on a generated stream (%s)" % tag)
        return None
    return out.decode().splitlines()


def corr_gzip(ck, exe, workdir, n):
    """decrunch_gzip on legal members of the independent python writer (all optional header fields) and on the same
    members truncated inside / flipped in the header: the model `gunzip` (header parse, EOF inside FEXTRA / FNAME /
    FCOMMENT / FHCRC is a clean failure) vs the REAL decrunch_gzip; a truncated header must be refused, never hang."""
    rng = ck.rng
    cases = []
    for i in range(n):
        p = lzw_payload(rng, rng.choice([1, 30, 700]))
        o = dict(level=rng.choice([1, 6, 9]), ftext=rng.random() < 0.3, hcrc=rng.random() < 0.5)
        if rng.random() < 0.6:
            o["extra"] = bytes(rng.getrandbits(8) for _ in range(rng.choice([0, 1, 4, 30])))
        if rng.random() < 0.7:
            o["name"] = bytes(rng.randint(1, 255) for _ in range(rng.choice([0, 1, 8, 40])))
        if rng.random() < 0.7:
            o["comment"] = bytes(rng.randint(1, 255) for _ in range(rng.choice([0, 3, 25, 200])))
        a, hlen, d = W.gzip_member(p, **o)
        cases.append((a, p, p, "python-writer %s" % sorted(o)))
        for _ in range(4):                      # cut inside the header: every optional field is hit over the run
            k = rng.randrange(1, hlen + 1)
            cases.append((a[:k], None, p, "truncated at %d of a %d-byte header %s" % (k, hlen, sorted(o))))
        cases.append((a[:hlen + rng.randrange(0, 9)], None, p, "truncated behind the header"))
        b = bytearray(a)
        b[rng.randrange(0, hlen)] ^= 1 << rng.randrange(8)
        cases.append((bytes(b), None, p, "header bit flipped"))
    real = run_dp(ck, exe, workdir, "gzip", [("gzip", a) for a, _, _, _ in cases])
    if real is None:
        return
    ck.bump("gzip_members_and_truncations", len(cases))
    for (a, exp, p, tag), r in zip(cases, real):
        if exp is not None and r != "D ok %d %016x" % (len(exp), fnv1a(exp)):
            ck.violation("oracle:gzip:stream", {"dp": "gzip", "stream_hex": a.hex(), "what": tag},
                         "decrunch_gzip does not return the payload of a legal member (%s): %s" % (tag, r))
            return
    if not ck.lean_ok:
        return
    model = vlib.run_driver("drv_c08", "".join("gz %s %s\n" % (a.hex(), p.hex() or "-") for a, _, p, _ in cases), timeout=3000)
    nd = 0
    for (a, exp, p, tag), r, m in zip(cases, real, model):
        if m == "D dec":
            nd += 1
            continue                # header accepted: the outcome is inflate's (parameter of the model)
        if r != m:
            ck.unproved("correspondence Container.gunzip vs decrunch_gzip", "%s (%d bytes): real=%s model=%s file=%s" % (tag, len(a), r, m, a[:80].hex()))
            return
    ck.bump("gzip_headers_refused_identically", len(cases) - nd)
    ck.cov["traces_validated_against_impl"] += len(cases) - nd


def lzw_payload(rng, n):
    k = rng.randrange(5)
    if k == 0:
        return bytes(rng.getrandbits(8) for _ in range(n))
    if k == 1:
        return bytes(rng.choice(b"ab") for _ in range(n))
    if k == 2:
        return bytes([rng.randrange(256)]) * n
    if k == 3:
        return bytes((i // 7 * 13 + i % 5) & 0xff for i in range(n))
    return bytes(rng.choice([0, 0, 0, 1, 255, rng.getrandbits(8)]) for _ in range(n))


def corr_lzw(ck, exe, workdir, n):
    """Lzw.unlzw (model of decrunch_compress) vs the real uncompress.c on: streams of the independent python writer,
    streams of the LEAN encoder (the one in the round-trip theorem), bit-flipped / truncated / re-flagged streams,
    and maxbits=9 streams (lineage quirk).  Streams span several IBUFSIZ input buffers."""
    rng = ck.rng
    cases = []          # (stream, expected payload or None, tag)
    enc = []
    sizes = [1, 2, 5, 30, 300, 3000, 12000, 30000]
    for i in range(n):
        p = lzw_payload(rng, rng.choice(sizes))
        mb = rng.randint(10, 16)
        bm = rng.random() < 0.8
        ce = rng.choice([0, 0, 1, 50, 1000]) if bm else 0
        cases.append((W.compress_lzw(p, mb, bm, ce), p, "python-writer maxbits=%d block=%s clear_every=%d n=%d" % (mb, bm, ce, len(p))))
        ce2 = rng.choice([0, 0, 3, 7, 100, 2000])
        ml = rng.choice([65536, 65536, 1, 2, 3, 10])
        enc.append(("lzwenc %d %d %d %d %s" % (mb, 1 if bm else 0, ce2, ml, p.hex() or "-"), p,
                    "lean-encoder maxbits=%d block=%s clear_every=%d max_len=%d n=%d" % (mb, bm, ce2, ml, len(p))))
    # old format (no block mode): code 256 is an ordinary entry; equal bytes make it the second code of the stream
    n256 = 0
    for i in range(max(4, n // 10)):
        p = bytes([rng.randrange(256)]) * rng.choice([3, 4, 9, 100, 3000]) + lzw_payload(rng, rng.choice([0, 5, 500]))
        mb = rng.randint(10, 16)
        cases.append((W.compress_lzw(p, mb, False, 0), p, "python-writer no-block-mode code256 maxbits=%d n=%d" % (mb, len(p))))
        enc.append(("lzwenc %d 0 0 65536 %s" % (mb, p.hex()), p, "lean-encoder no-block-mode code256 maxbits=%d n=%d" % (mb, len(p))))
        n256 += 2
    ck.bump("lzw_nonblock_streams_using_code_256", n256)
    if ck.lean_ok:
        out = vlib.run_driver("drv_c08", "".join(l + "\n" for l, _, _ in enc), timeout=3000)
        for (l, p, tag), o in zip(enc, out):
            if not o.startswith("E "):
                ck.unproved("driver lzwenc", o[:100])
                return
            cases.append((bytes.fromhex(o[2:]) if o[2:] != "-" else b"", p, tag))
    legit = len(cases)
    for i in range(2 * n):
        s, p, tag = cases[rng.randrange(legit)]
        s = bytearray(s)
        if len(s) <= 6:
            continue
        for _ in range(rng.choice([1, 1, 2, 5])):
            s[rng.randrange(3, len(s))] ^= 1 << rng.randrange(8)
        if rng.random() < 0.3:
            s = s[:rng.randrange(5, len(s))]
        if rng.random() < 0.1:
            s[2] = rng.choice([0x89, 0x8a, 0x09, 0x90, 0x11, 0x88, 0xb0, 0x70])
        cases.append((bytes(s), None, "mutated " + tag))
    for i in range(max(2, n // 10)):
        cases.append((W.compress_lzw(lzw_payload(rng, rng.choice([100, 1000, 5000])), 9, True, 0), None, "python-writer maxbits=9"))
    cases = [c for c in cases if len(c[0]) >= 5]        # (an empty code area makes realloc(outbuf, 0): not reachable below 22 bytes)
    real = run_dp(ck, exe, workdir, "lzw", [("compress", s) for s, _, _ in cases])
    if real is None:
        return
    ck.bump("lzw_streams", len(cases))
    ck.bump("lzw_streams_accepted", sum(1 for l in real if l.startswith("D ok")))
    ck.bump("lzw_streams_multi_buffer", sum(1 for s, _, _ in cases if len(s) > 3 * 8192))
    for (s, p, tag), a in zip(cases, real):
        if p is not None and a != "D ok %d %016x" % (len(p), fnv1a(p)):
            ck.violation("oracle:compress:stream", {"stream_hex": s.hex() if len(s) < 40000 else None, "payload_hex": p.hex() if len(p) < 40000 else None, "what": tag},
                         "decrunch_compress does not return the payload of a legal compress(1) stream (%s): %s" % (tag, a))
            return
    if not ck.lean_ok:
        return
    model = vlib.run_driver("drv_c08", "".join("lzw %s\n" % s.hex() for s, _, _ in cases), timeout=3000)
    for (s, p, tag), a, b in zip(cases, real, model):
        if a != b:
            ck.unproved("correspondence Lzw.unlzw vs decrunch_compress", "%s (%d bytes): real=%s model=%s stream=%s" % (tag, len(s), a, b, s[:64].hex()))
            return
    ck.cov["traces_validated_against_impl"] += len(cases)


PP_EFFS = [(9, 9, 9, 9), (9, 10, 10, 10), (9, 10, 11, 11), (9, 10, 12, 12), (9, 10, 12, 13), (15, 15, 15, 15), (9, 9, 15, 12)]


def corr_pp(ck, exe, workdir, n):
    """PowerPacker.decrunchPP (model of decrunch_pp/ppdepack/ppDecrunch) vs the real ppdepack.c on files of the
    independent python writer (literals + matches), files of the LEAN literal-run encoder (object of C08_pp_roundtrip)
    and mutated files (bit flips, removed longwords, skip-bit / efficiency bytes rewritten)."""
    rng = ck.rng
    cases, enc = [], []
    for i in range(n):
        p = lzw_payload(rng, rng.choice([1, 2, 3, 4, 5, 7, 30, 300, 3000, 20000]))
        eff = rng.choice(PP_EFFS)
        um = rng.random() < 0.8
        cases.append((W.pp20(p, eff=eff, use_matches=um, max_match=rng.choice([5, 12, 40, 300])), p,
                      "python-writer eff=%s matches=%s n=%d" % (eff, um, len(p))))
        enc.append(("ppenc %s %s" % (bytes(eff).hex(), p.hex()), p, "lean-encoder eff=%s n=%d" % (eff, len(p))))
    if ck.lean_ok:
        out = vlib.run_driver("drv_c08", "".join(l + "\n" for l, _, _ in enc), timeout=3000)
        for (l, p, tag), o in zip(enc, out):
            if not o.startswith("E "):
                ck.unproved("driver ppenc", o[:100])
                return
            cases.append((bytes.fromhex(o[2:]), p, tag))
    # random LEGAL token streams (literal runs + matches of every class) rendered by the Lean writer ppRender:
    # the object of C08_pp_tokens; the expected payload is ppExpand of the same tokens
    if ck.lean_ok:
        tl = []
        for i in range(n):
            eff = rng.choice(PP_EFFS)
            L, items = 0, []
            for _ in range(rng.choice([1, 2, 5, 30, 200])):
                nl = rng.choice([0, 0, 1, 2, 3, 4, 7, 40]) if L > 0 else rng.choice([1, 2, 3, 9])
                lits = bytes(rng.choice([0, 1, 255, rng.getrandbits(8)]) for _ in range(nl))
                ml = rng.choice([2, 3, 4, 5, 6, 11, 12, 13, 40, 300])
                x = min(ml, 5) - 2
                short = x == 3 and rng.random() < 0.5
                width = 7 if short else eff[x]
                mo = rng.randrange(0, min(L + nl, 1 << width))
                items.append("%s:%d:%d:%d" % (lits.hex() or "-", ml, mo, 1 if short else 0))
                L += nl + ml
            if rng.random() < 0.5:
                items.append("%s:0:0:0" % bytes(rng.getrandbits(8) for _ in range(rng.randint(1, 5))).hex())
            tl.append("pprender %s %s" % (bytes(eff).hex(), " ".join(items)))
        out = vlib.run_driver("drv_c08", "".join(l + "\n" for l in tl), timeout=3000)
        for l, o in zip(tl, out):
            f = o.split()
            if len(f) != 3 or f[0] != "E":
                ck.unproved("driver pprender", o[:100])
                return
            cases.append((bytes.fromhex(f[1]), bytes.fromhex(f[2]), "lean-token-stream " + l[:160]))
        ck.bump("pp_lean_token_streams", len(tl))
    legit = len(cases)
    for i in range(3 * n):
        s, p, tag = cases[rng.randrange(legit)]
        s = bytearray(s)
        for _ in range(rng.choice([1, 1, 2, 5])):
            s[rng.randrange(4, len(s))] ^= 1 << rng.randrange(8)
        if rng.random() < 0.2 and len(s) > 24:
            del s[8:12]
        if rng.random() < 0.1:
            s[-1] = rng.choice([0, 1, 31, 32, 33, 255])
        if rng.random() < 0.1:
            s[rng.randrange(4, 8)] = rng.choice([8, 9, 15, 16, 0x19])
        cases.append((bytes(s), None, "mutated " + tag))
    cases = [c for c in cases if len(c[0]) >= 12]      # decrunch_pp reads data[4..7] unchecked: reachable only from 22 bytes on
    real = run_dp(ck, exe, workdir, "pp", [("pp", s) for s, _, _ in cases])
    if real is None:
        return
    ck.bump("pp_files", len(cases))
    ck.bump("pp_files_accepted", sum(1 for l in real if l.startswith("D ok")))
    for (s, p, tag), a in zip(cases, real):
        if p is not None and a != "D ok %d %016x" % (len(p), fnv1a(p)):
            ck.violation("oracle:pp:stream", {"stream_hex": s.hex() if len(s) < 40000 else None, "payload_hex": p.hex() if len(p) < 40000 else None, "what": tag},
                         "decrunch_pp does not return the payload of a legal PP20 file (%s): %s" % (tag, a))
            return
    if not ck.lean_ok:
        return
    model = vlib.run_driver("drv_c08", "".join("pp %s\n" % s.hex() for s, _, _ in cases), timeout=3000)
    for (s, p, tag), a, b in zip(cases, real, model):
        if a != b:
            ck.unproved("correspondence PowerPacker.decrunchPP vs decrunch_pp", "%s (%d bytes): real=%s model=%s file=%s" % (tag, len(s), a, b, s[:64].hex()))
            return
    ck.cov["traces_validated_against_impl"] += len(cases)


def corr_arcenc(ck, exe, workdir, n):
    """archives written by the LEAN writer `arcWrap` (+ `rle90Enc`), i.e. the object of C08_arc_framing, read by the REAL arc_read"""
    rng = ck.rng
    if not ck.lean_ok:
        return
    lines, exp = [], []
    for i in range(n):
        spark = rng.random() < 0.5
        pre = companions(rng, ARC_EXCLUDED)
        p = lzw_payload(rng, rng.choice([1, 3, 40, 700, 5000]))
        nm = rng.choice(["SONG.MOD", "TEST.XM", "A", "MODULE", "tune/it", "x"])
        ms = [(n_, rng.choice([1, 2, 3]), d) for n_, d in pre] + \
             [(nm, rng.choice([1, 2, 3, 3]), p)] + \
             [(n_, 2, d) for n_, d in companions(rng, ARC_EXCLUDED + ["OTHER.MOD"])]
        lines.append("arcenc %d %s" % (1 if spark else 0, " ".join("%s:%d:%s" % (a.encode().hex(), m + (128 if spark else 0), d.hex() or "-") for a, m, d in ms)))
        exp.append(p)
    # nested directories (Spark sub-archives / ARC 6 directories) written by the Lean item writer: the object of
    # C08_arc_framing_dirs; module before / inside / after closed directories, depth 1..3
    def flatten(nodes, spark):
        out = []
        for nd in nodes:
            if nd[0] == "file":
                out.append("f:%s:%d:%s" % (nd[1].encode().hex(), nd[3] + (128 if spark else 0), nd[2].hex() or "-"))
            else:
                out.append("o:%s" % nd[1].encode().hex())
                out += flatten(nd[2], spark)
                out.append("c:%d" % (128 if spark else 31))
        return out
    ntrees = 0
    for i in range(n):
        spark = rng.random() < 0.5
        p = lzw_payload(rng, rng.choice([1, 3, 40, 700]))
        nodes = arc_random_tree(rng, p, rng.choice(["SONG.MOD", "A", "tune/it"]), rng.choice([2, 3] if spark else [1, 2, 3]),
                                rng.choice(["before", "inside", "after", "after-inner"]), rng.randint(1, 3))
        lines.append("arcitems %d %s" % (1 if spark else 0, " ".join(flatten(nodes, spark))))
        exp.append(p)
        ntrees += 1
    ck.bump("arc_lean_written_directory_trees", ntrees)
    out = vlib.run_driver("drv_c08", "".join(l + "\n" for l in lines), timeout=3000)
    arcs = [bytes.fromhex(o[2:]) for o in out]
    real = run_dp(ck, exe, workdir, "arcenc", [("arc", a) for a in arcs])
    if real is None:
        return
    model = vlib.run_driver("drv_c08", "".join("arc %s -\n" % a.hex() for a in arcs), timeout=3000)
    for l, a, p, r, m in zip(lines, arcs, exp, real, model):
        want = "D ok %d %016x" % (len(p), fnv1a(p))
        if r != want:
            ck.unproved("correspondence Container.arcWrap (Lean writer) vs arc_read", "%s: real=%s expected=%s" % (l[:200], r, want))
            return
        if m != "a ok %d %016x" % (len(p), fnv1a(p)):
            ck.unproved("correspondence Container.arcRead vs arc_read", "%s: real=%s model=%s" % (l[:200], r, m))
            return
    ck.bump("arc_lean_written_archives", len(lines))
    ck.cov["traces_validated_against_impl"] += len(lines)


LHA_NAMES = MODULE_NAMES + ["SONG.MOD", "Mods/tune.it", "a\\b\\c.xm", "UPPER"]


def corr_lha(ck, exe, workdir, n):
    """Container.unlha (model of decrunch_lha over the lhasa reader: sfx skip, header levels 0-3, extended headers,
    name fix-ups, member walk, stored decoder) vs the REAL decrunch_lha on: archives of the independent python writer,
    archives written by the LEAN writer lhaWrap (object of C08_lha_framing), mutated archives (header bytes flipped,
    truncation, leading junk / SFX stubs) and the repository's LH1/5/6/7 archives (structure only)."""
    import glob
    rng = ck.rng
    cases = []          # (archive, expected payload or None, payload handed to the model's `dec`, tag)
    for i in range(n):
        p = lzw_payload(rng, rng.choice([1, 3, 40, 700, 1023, 1024, 1025, 5000]))
        lv = rng.choice([0, 1, 2])
        osid = rng.choice([b"U", b"M", b"A", b"w", b"2", b" "])
        pre, post = split_companions(rng, companions(rng))
        members = pre + [(rng.choice(LHA_NAMES), p)] + post
        if rng.random() < 0.2:
            members = [("dir/", b"")] + members
        cases.append((W.lha_archive(members, lv, osid=osid), p, p, "python-writer level=%d os=%s %s" % (lv, osid.decode(), [m[0] for m in members])))
    if ck.lean_ok:
        enc = []
        for i in range(n):
            p = lzw_payload(rng, rng.choice([1, 3, 40, 700, 2048, 5000]))
            ms = []
            for a, d in companions(rng) + [(rng.choice(MODULE_NAMES + ["SONG.MOD", "UPPER"]), p)] + companions(rng, EXCLUDED_NAMES + ["z.mod"]):
                ms.append("%s:%d:%d:%s" % (a.encode().hex(), rng.choice([0, 1, 2]), rng.choice(b"UMAw2 "), d.hex() or "-"))
            enc.append(("lhaenc " + " ".join(ms), p))
        out = vlib.run_driver("drv_c08", "".join(l + "\n" for l, _ in enc), timeout=3000)
        for (l, p), o in zip(enc, out):
            cases.append((bytes.fromhex(o[2:]), p, p, "lean-writer " + l[:120]))
    legit = len(cases)
    for i in range(3 * n):
        a, exp, p, tag = cases[rng.randrange(legit)]
        a = bytearray(a)
        for _ in range(rng.choice([1, 1, 2, 4])):
            k = rng.randrange(0, min(len(a), 80)) if rng.random() < 0.7 else rng.randrange(len(a))
            a[k] = rng.choice([a[k] ^ (1 << rng.randrange(8)), 0, 0xff, rng.getrandbits(8)])
        if rng.random() < 0.15:
            a = a[:rng.randrange(1, len(a))]
        if rng.random() < 0.1:
            a = bytearray(b"MZ" + bytes(rng.getrandbits(8) for _ in range(rng.randint(0, 60)))) + a
        if rng.random() < 0.05:
            a = bytearray(b"xxLHA-SFXyyyy") + a + a
        cases.append((bytes(a), None, p, "mutated " + tag))
    real = run_dp(ck, exe, workdir, "lha", [("lha", a) for a, _, _, _ in cases])
    if real is None:
        return
    ck.bump("lha_archives", len(cases))
    ck.bump("lha_archives_accepted", sum(1 for l in real if l.startswith("D ok")))
    for (a, exp, p, tag), r in zip(cases, real):
        if exp is not None and r != "D ok %d %016x" % (len(exp), fnv1a(exp)):
            if tag.startswith("lean-writer"):
                ck.unproved("correspondence Container.lhaWrap (Lean writer) vs decrunch_lha", "%s: real=%s" % (tag, r))
            else:
                ck.violation("oracle:lha:stream", {"archive_hex": a.hex() if len(a) < 40000 else None, "what": tag},
                             "decrunch_lha does not return the stored member of a legal archive (%s): %s" % (tag, r))
            return
    if not ck.lean_ok:
        return
    model = vlib.run_driver("drv_c08", "".join("lha %s %s\n" % (a.hex(), p.hex() or "-") for a, _, p, _ in cases), timeout=3000)
    for (a, exp, p, tag), r, m in zip(cases, real, model):
        if m == "D dec" and exp is None:
            ck.bump("lha_mutated_cases_reaching_a_parameter_decoder")
            continue        # a flipped method byte selected LH5 & co.: outside the modelled part
        if r != m:
            ck.unproved("correspondence Container.unlha vs decrunch_lha", "%s (%d bytes): real=%s model=%s archive=%s" % (tag, len(a), r, m, a[:96].hex()))
            return
    # repository archives with LH1/5/6/7 members and level 0/1/2 headers: header walk and sizes only
    seeds = [f for f in sorted(glob.glob(os.path.join(vlib.REPO, "test-dev", "data", "l[0-3]_*"))) if os.path.getsize(f) < 400000]
    if seeds:
        sreal = run_dp(ck, exe, workdir, "lhaseeds", [("lha", open(f, "rb").read()) for f in seeds])
        if sreal is None:
            return
        lines = []
        for f, r in zip(seeds, sreal):
            k = int(r.split()[2]) if r.startswith("D ok") else 0
            lines.append("lhalen %s %d\n" % (open(f, "rb").read().hex(), k))
        smodel = vlib.run_driver("drv_c08", "".join(lines), timeout=3000)
        for f, r, m in zip(seeds, sreal, smodel):
            if " ".join(r.split()[:3]) != m:
                ck.unproved("correspondence Container.unlha vs decrunch_lha (repository archive)", "%s: real=%s model=%s" % (os.path.basename(f), r, m))
                return
        ck.bump("lha_repo_archives_structure_matched", len(seeds))
    ck.cov["traces_validated_against_impl"] += len(cases)


ARCFS_EXCL = ["ReadMe", "README", "readme", "A.TXT", "InfoText", "x.doc"]


def corr_arcfs(ck, exe, workdir, n):
    """Container.arcfsRead (model of arcfs_read) vs the REAL arcfs_read on archives of the independent python writer,
    archives written by the LEAN writer arcfsWrap (+ rle90Enc; object of C08_arcfs_framing) and mutated archives."""
    rng = ck.rng
    cases = []
    for i in range(n):
        p = lzw_payload(rng, rng.choice([1, 3, 40, 700, 5000]))
        pre, post = split_companions(rng, companions(rng, ARCFS_EXCL))
        nm = rng.choice(["song/mod", "test/xm", "a", "module"])
        members = [(a, d, rng.choice([0x82, 0x83])) for a, d in pre] + [(nm, p, rng.choice([0x82, 0x83]))] + [(a, d, 0x82) for a, d in post]
        cases.append((W.arcfs_archive(members, pad_entries=rng.choice([0, 0, 1, 3])), p, p, "python-writer %s" % [m[0] for m in members]))
    if ck.lean_ok:
        enc = []
        for i in range(n):
            p = lzw_payload(rng, rng.choice([1, 3, 40, 700, 5000]))
            ms = ["%s:%d:%s" % (a.encode().hex(), rng.choice([0x82, 0x83]), d.hex() or "-") for a, d in companions(rng, ARCFS_EXCL)] + \
                 ["%s:%d:%s" % (rng.choice(["song/mod", "a", "module"]).encode().hex(), rng.choice([0x82, 0x83]), p.hex())] + \
                 ["%s:%d:%s" % (a.encode().hex(), 0x82, d.hex() or "-") for a, d in companions(rng, ARCFS_EXCL + ["other"])]
            enc.append(("arcfsenc %d %s" % (rng.choice([0, 0, 1, 3]), " ".join(ms)), p))
        out = vlib.run_driver("drv_c08", "".join(l + "\n" for l, _ in enc), timeout=3000)
        for (l, p), o in zip(enc, out):
            cases.append((bytes.fromhex(o[2:]), p, p, "lean-writer " + l[:120]))
    legit = len(cases)
    for i in range(3 * n):
        a, exp, p, tag = cases[rng.randrange(legit)]
        a = bytearray(a)
        for _ in range(rng.choice([1, 1, 2, 4])):
            k = rng.randrange(0, min(len(a), 240)) if rng.random() < 0.8 else rng.randrange(len(a))
            a[k] = rng.choice([a[k] ^ (1 << rng.randrange(8)), 0, 0xff, rng.getrandbits(8)])
        if rng.random() < 0.15:
            a = a[:rng.randrange(1, len(a))]
        cases.append((bytes(a), None, p, "mutated " + tag))
    real = run_dp(ck, exe, workdir, "arcfs", [("arcfs", a) for a, _, _, _ in cases])
    if real is None:
        return
    ck.bump("arcfs_archives", len(cases))
    ck.bump("arcfs_archives_accepted", sum(1 for l in real if l.startswith("D ok")))
    for (a, exp, p, tag), r in zip(cases, real):
        if exp is not None and r != "D ok %d %016x" % (len(exp), fnv1a(exp)):
            if tag.startswith("lean-writer"):
                ck.unproved("correspondence Container.arcfsWrap (Lean writer) vs arcfs_read", "%s: real=%s" % (tag, r))
            else:
                ck.violation("oracle:arcfs:stream", {"archive_hex": a.hex() if len(a) < 40000 else None, "what": tag},
                             "arcfs_read does not return the member of a legal archive (%s): %s" % (tag, r))
            return
    if not ck.lean_ok:
        return
    model = vlib.run_driver("drv_c08", "".join("arcfs %s %s\n" % (a.hex(), p.hex() or "-") for a, _, p, _ in cases), timeout=3000)
    for (a, exp, p, tag), r, m in zip(cases, real, model):
        if m == "D dec" and exp is None:
            ck.bump("arcfs_mutated_cases_reaching_a_parameter_decoder")
            continue
        if r != m:
            ck.unproved("correspondence Container.arcfsRead vs arcfs_read", "%s (%d bytes): real=%s model=%s entries=%s" % (tag, len(a), r, m, a[96:96 + 72].hex()))
            return
    ck.cov["traces_validated_against_impl"] += len(cases)


def corr_lzx(ck, exe, workdir, n):
    """Container.lzxRead (model of lzx_read: entry headers, header CRC-32, merge state machine, selection, CRC gate) vs
    the REAL lzx_read on archives of the independent python writer, archives written by the LEAN writer lzxWrap
    (object of C08_lzx_framing) and mutated archives."""
    rng = ck.rng
    cases = []
    for i in range(n):
        p = lzw_payload(rng, rng.choice([1, 3, 40, 700, 5000]))
        pre, post = split_companions(rng, companions(rng))
        cases.append((W.lzx_archive(pre + [(rnd_name(rng), p)] + post, comment=b"" if rng.random() < 0.7 else b"a comment"), p, p, "python-writer"))
    if ck.lean_ok:
        enc = []
        for i in range(n):
            p = lzw_payload(rng, rng.choice([1, 3, 40, 700, 5000]))
            ms = ["%s:%s:%s" % (a.encode().hex(), rng.choice(["-", "-", b"cmt".hex()]), d.hex() or "-") for a, d in companions(rng)] + \
                 ["%s:%s:%s" % (rnd_name(rng).encode().hex(), rng.choice(["-", b"hello".hex()]), p.hex())] + \
                 ["%s:-:%s" % (a.encode().hex(), d.hex() or "-") for a, d in companions(rng, EXCLUDED_NAMES + ["other.mod"])]
            enc.append(("lzxenc " + " ".join(ms), p))
        out = vlib.run_driver("drv_c08", "".join(l + "\n" for l, _ in enc), timeout=3000)
        for (l, p), o in zip(enc, out):
            cases.append((bytes.fromhex(o[2:]), p, p, "lean-writer " + l[:120]))
    legit = len(cases)
    for i in range(3 * n):
        a, exp, p, tag = cases[rng.randrange(legit)]
        a = bytearray(a)
        for _ in range(rng.choice([1, 1, 2, 4])):
            k = rng.randrange(0, min(len(a), 120)) if rng.random() < 0.8 else rng.randrange(len(a))
            a[k] = rng.choice([a[k] ^ (1 << rng.randrange(8)), 0, 1, 2, 0xff, rng.getrandbits(8)])
        if rng.random() < 0.15:
            a = a[:rng.randrange(1, len(a))]
        cases.append((bytes(a), None, p, "mutated " + tag))
    real = run_dp(ck, exe, workdir, "lzx", [("lzx", a) for a, _, _, _ in cases])
    if real is None:
        return
    ck.bump("lzx_archives", len(cases))
    ck.bump("lzx_archives_accepted", sum(1 for l in real if l.startswith("D ok")))
    for (a, exp, p, tag), r in zip(cases, real):
        if exp is not None and r != "D ok %d %016x" % (len(exp), fnv1a(exp)):
            if tag.startswith("lean-writer"):
                ck.unproved("correspondence Container.lzxWrap (Lean writer) vs lzx_read", "%s: real=%s" % (tag, r))
            else:
                ck.violation("oracle:lzx:stream", {"archive_hex": a.hex() if len(a) < 40000 else None, "what": tag},
                             "lzx_read does not return the member of a legal archive (%s): %s" % (tag, r))
            return
    if not ck.lean_ok:
        return
    model = vlib.run_driver("drv_c08", "".join("lzx %s %s\n" % (a.hex(), p.hex() or "-") for a, _, p, _ in cases), timeout=3000)
    for (a, exp, p, tag), r, m in zip(cases, real, model):
        if m == "D dec" and exp is None:
            ck.bump("lzx_mutated_cases_reaching_a_parameter_decoder")
            continue
        if r != m:
            ck.unproved("correspondence Container.lzxRead vs lzx_read", "%s (%d bytes): real=%s model=%s head=%s" % (tag, len(a), r, m, a[:80].hex()))
            return
    ck.cov["traces_validated_against_impl"] += len(cases)


def corr_mmcmp(ck, exe, workdir, n):
    """Container.decrunchMmcmp (model of decrunch_mmcmp: header, block table, block/sub-block headers, block_copy) vs the
    REAL decrunch_mmcmp on files of the independent python writer, files written by the LEAN writer mmcmpWrap (object of
    C08_mmcmp_framing; random splits into blocks and sub-blocks) and mutated files."""
    rng = ck.rng
    cases = []
    for i in range(n):
        p = lzw_payload(rng, rng.choice([16, 17, 40, 700, 5000, 20000]))
        cases.append((W.mmcmp_stored(p, block_size=rng.choice([0x10000, 5000, 333, 64]), subs_per_block=rng.choice([1, 1, 2, 5])), p, p, "python-writer"))
    for i in range(2 * n):               # bit-packed blocks: 8/16 bit, DELTA, ABS16, several (shuffled) sub-blocks, several blocks
        p = lzw_payload(rng, rng.choice([16, 17, 40, 700, 5000, 20000]))
        a, desc = W.mmcmp_packed(p, rng)
        cases.append((a, p, p, "python-compressor " + ",".join(desc[:6])))
    ck.bump("mmcmp_python_compressed_files", 2 * n)
    if ck.lean_ok:
        enc = []
        for i in range(n):
            p = lzw_payload(rng, rng.choice([16, 17, 40, 700, 5000]))
            blocks, q = [], 0
            while q < len(p):
                bl = p[q:q + rng.choice([7, 64, 333, 5000])]
                q += len(bl)
                subs, r = [], 0
                while r < len(bl):
                    sb = bl[r:r + rng.choice([1, 3, 50, 5000])]
                    r += len(sb)
                    subs.append(sb)
                blocks.append(subs)
            enc.append(("mmcmpenc " + " ".join(":".join(sb.hex() for sb in b) for b in blocks), p))
            # the same split through mmcmpWrapK (object of C08_mmcmp_framing_packed): per block stored / packed by the
            # Lean encoder mmEncode8 / packed with DELTA -- the REAL block_unpack_8bit must invert the Lean encoder
            enc.append(("mmcmpenck " + " ".join(rng.choice("spdd") + ":" + ":".join(sb.hex() for sb in b) for b in blocks), p))
        out = vlib.run_driver("drv_c08", "".join(l + "\n" for l, _ in enc), timeout=3000)
        for (l, p), o in zip(enc, out):
            cases.append((bytes.fromhex(o[2:]), p, p, "lean-writer %s (%d blocks)" % (l.split(" ", 1)[0], l.count(" "))))
    legit = len(cases)
    for i in range(3 * n):
        a, exp, p, tag = cases[rng.randrange(legit)]
        a = bytearray(a)
        for _ in range(rng.choice([1, 1, 2, 4])):
            k = rng.randrange(0, min(len(a), 80)) if rng.random() < 0.6 else rng.randrange(len(a))
            a[k] = rng.choice([a[k] ^ (1 << rng.randrange(8)), 0, 1, 0xff, rng.getrandbits(8)])
        if rng.random() < 0.15:
            a = a[:rng.randrange(1, len(a))]
        cases.append((bytes(a), None, p, "mutated " + tag))
    real = run_dp(ck, exe, workdir, "mmcmp", [("mmcmp", a) for a, _, _, _ in cases])
    if real is None:
        return
    ck.bump("mmcmp_files", len(cases))
    ck.bump("mmcmp_files_accepted", sum(1 for l in real if l.startswith("D ok")))
    for (a, exp, p, tag), r in zip(cases, real):
        if exp is not None and r != "D ok %d %016x" % (len(exp), fnv1a(exp)):
            if tag.startswith("lean-writer"):
                ck.unproved("correspondence Container.mmcmpWrap / mmcmpWrapK + mmEncode8 (Lean writers) vs decrunch_mmcmp", "%s: real=%s" % (tag, r))
            else:
                ck.violation("oracle:mmcmp:stream", {"archive_hex": a.hex() if len(a) < 40000 else None, "what": tag},
                             "decrunch_mmcmp does not return the payload of a legal file (%s): %s" % (tag, r))
            return
    if not ck.lean_ok:
        return
    # a mutated header may announce an output of hundreds of MiB: the list-based model would need minutes for the zero
    # fill alone; those cases stay in the real run above (no abort, no hang) and are left out of the model comparison
    keep = [i for i, (a, exp, p, tag) in enumerate(cases) if exp is not None or len(a) < 18 or struct.unpack("<I", a[14:18])[0] <= (4 << 20)]
    ck.bump("mmcmp_mutated_cases_with_huge_announced_size", len(cases) - len(keep))
    cases = [cases[i] for i in keep]
    real = [real[i] for i in keep]
    model = vlib.run_driver("drv_c08", "".join("mmcmp %s %s\n" % (a.hex(), p.hex() or "-") for a, _, p, _ in cases), timeout=3000)
    for (a, exp, p, tag), r, m in zip(cases, real, model):
        if r != m:
            ck.unproved("correspondence Container.decrunchMmcmp vs decrunch_mmcmp", "%s (%d bytes): real=%s model=%s head=%s" % (tag, len(a), r, m, a[:64].hex()))
            return
    ck.cov["traces_validated_against_impl"] += len(cases)


def corr_zipenc(ck, exe, workdir, n):
    """archives written by the LEAN writer `zipWrap` (object of C08_zip_framing): python's zipfile must accept them
    (referee: the writer emits real zip files), the REAL decrunch_zip must return the module, the model must agree"""
    import io
    import zlib
    rng = ck.rng
    if not ck.lean_ok:
        return
    hx = lambda b: b.hex() or "-"
    lines, exp, names = [], [], []
    for i in range(n):
        p = lzw_payload(rng, rng.choice([1, 3, 40, 700, 5000]))
        nm = rnd_name(rng)
        pre = [(a, d) for a, d in companions(rng)]
        if rng.random() < 0.3:
            pre.insert(rng.randint(0, len(pre)), ("docs/", b""))
        ms = []
        for a, d in pre + [(nm, p)] + companions(rng, EXCLUDED_NAMES + ["other.mod"]):
            meth = rng.choice([0, 0, 8]) if d else 0
            cd = d
            if meth == 8:
                co = zlib.compressobj(rng.choice([1, 6, 9]), zlib.DEFLATED, -15)
                cd = co.compress(d) + co.flush()
            extra = rng.choice([b"", b"", b"\x55\x54\x05\x00\x01\x00\x00\x00\x00"])
            cextra = rng.choice([b"", extra])
            cm = rng.choice([b"", b"", b"a comment"])
            ea = 16 if a.endswith("/") else rng.choice([0, 0x81a40000, 0x20])
            ms.append("%s:%d:%d:%s:%s:%s:%s:%s" % (a.encode().hex(), meth, ea, hx(extra), hx(cextra), hx(cm), hx(d), hx(cd)))
        lead = rng.choice([b"", b"", b"", b"PK00"])
        clen = rng.choice([0, 0, 0, 7, rng.choice(ZIP_COMMENT_CORE), rng.choice(ZIP_COMMENT_MORE)])
        lines.append("zipenc %s %d %s" % (hx(lead), clen, " ".join(ms)))
        exp.append(p)
        names.append(nm)
    out = vlib.run_driver("drv_c08", "".join(l + "\n" for l in lines), timeout=3000)
    arcs = [bytes.fromhex(o[2:]) for o in out]
    for l, a, p, nm in zip(lines, arcs, exp, names):
        try:
            with zipfile.ZipFile(io.BytesIO(a)) as z:
                bad = z.testzip()
                got = z.read(nm)
        except Exception as e:       # noqa: BLE001
            ck.unproved("Lean zip writer refused by python zipfile", "%s: %r" % (l[:200], e))
            return
        if bad is not None or got != p:
            ck.unproved("Lean zip writer refused by python zipfile", "%s: testzip=%r" % (l[:200], bad))
            return
    real = run_dp(ck, exe, workdir, "zipenc", [("zip", a) for a in arcs])
    if real is None:
        return
    model = vlib.run_driver("drv_c08", "".join("zip %s %s\n" % (a.hex(), hx(p)) for a, p in zip(arcs, exp)), timeout=3000)
    for l, a, p, r, m in zip(lines, arcs, exp, real, model):
        want = "%d %016x" % (len(p), fnv1a(p))
        if r != "D ok " + want:
            ck.unproved("correspondence Container.zipWrap (Lean writer) vs decrunch_zip", "%s: real=%s expected=%s" % (l[:300], r, want))
            return
        if not m.endswith("ok " + want):
            ck.unproved("correspondence Container.unzip vs decrunch_zip", "%s: real=%s model=%s" % (l[:300], r, m))
            return
    ck.bump("zip_lean_written_archives", len(lines))
    ck.cov["traces_validated_against_impl"] += len(lines)


def corr_framing(ck, arch, results):
    """model driver vs the spies of the real depackers, on the archives small enough to ship as hex"""
    lines, keys = [], []
    for cid, c in arch.items():
        if cid not in results or len(c["abytes"]) > 40000 or len(c["pbytes"]) > 60000:
            continue
        fmt = c["recipe"]["fmt"]
        if fmt == "xz-bigdict":
            continue
        ah, ph = c["abytes"].hex(), c["pbytes"].hex()
        lines.append("pipe %s %s" % (ah, ph))
        keys.append((cid, "pipe"))
        if fmt in ("gzip", "zip", "arc"):
            lines.append("%s %s %s" % (fmt, ah, ph))
            keys.append((cid, fmt))
    if not lines or not ck.lean_ok:
        return
    model = vlib.run_driver("drv_c08", "\n".join(lines) + "\n", timeout=3000)
    nok = 0
    for (cid, kind), ml in zip(keys, model):
        c = arch[cid]
        kv, spy = results[cid]
        fmt = c["recipe"]["fmt"]
        o_lines = [l for l in spy if l.startswith("O ")]
        real_out = o_lines[0][2:] if o_lines else None
        mf = ml.split()
        bad = None
        if kind == "pipe":
            want = DISPATCH_NAME.get(fmt)
            if mf[1] != want:
                bad = "dispatch model=%s expected=%s" % (mf[1], want)
            elif fmt == "bare":
                if o_lines:
                    bad = "real code depacked a bare payload"
            elif mf[2] == "ok":
                if real_out is None or real_out.split() != [mf[3], mf[4]]:
                    bad = "output model=%s real=%s" % (mf[3:5], real_out)
                elif kv["prc"] == "0" and kv["pmd5"] != mf[5]:
                    bad = "md5 model=%s real=%s" % (mf[5], kv["pmd5"])
            elif mf[2] == "fail" and real_out is not None:
                bad = "model rejects, real code unpacked %s" % real_out
        elif kind == "gzip":
            i_lines = [l for l in spy if l.startswith("I ")]
            real_in = i_lines[0].split()[1:] if i_lines else None
            if mf[1] == "none":
                if real_in is not None:
                    bad = "model: no stream; real inflate input %s" % real_in
            else:
                if real_in != [mf[2], mf[3]]:
                    bad = "deflate stream handed to inflate: model len=%s fnv=%s real=%s" % (mf[2], mf[3], real_in)
                elif "hdr" in c["info"] and int(mf[1]) != c["info"]["hdr"]:
                    bad = "header length model=%s encoder=%d" % (mf[1], c["info"]["hdr"])
        elif kind == "zip":
            xs = [tuple(l.split()[1:]) for l in spy if l.startswith("X ")]
            m = re.match(r"z (\d+) \[(.*?)\] (.*)$", ml)
            if not m:
                bad = "model could not parse the central directory: " + ml
            else:
                mt = [tuple(x.split(":")) for x in m.group(2).split()] if m.group(2) else []
                if [(a, b) for a, b in xs] != mt:
                    bad = "exclude-match trace model=%s real=%s" % (mt, xs)
                elif m.group(3).startswith("ok") and (real_out is None or m.group(3).split()[1:] != real_out.split()):
                    bad = "zip output model=%s real=%s" % (m.group(3), real_out)
                elif "trace" in c["info"]:
                    exp = [(n.hex(), str(v)) for n, v in c["info"]["trace"]]
                    if mt != exp:
                        bad = "exclude trace model=%s encoder-side expectation=%s" % (mt, exp)
        elif kind == "arc":
            if mf[1] == "ok" and (real_out is None or mf[2:4] != real_out.split()):
                bad = "arc output model=%s real=%s" % (mf[1:], real_out)
            elif mf[1] == "fail" and real_out is not None:
                bad = "model rejects, real arc_read returned %s" % real_out
        if bad:
            if c.get("oracle_failed"):
                continue        # the property itself failed on this case: already a violation
            ck.unproved("correspondence Container.%s vs real depacker" % kind, "case %s recipe=%s: %s" % (cid, c["recipe"], bad))
            return
        nok += 1
    ck.cov["traces_validated_against_impl"] += nok
    ck.bump("framing_cases_compared", nok)


# ---------------------------------------------------------------------------- main
PHASES = {}


def run(ck):
    quick = ck.tier == "quick"
    try:
        facts, _ = gen_depackers.generate()
    except gen_depackers.TranslatorError as e:
        facts = None
        ck.unproved("translator gen_depackers", str(e))
    ck.proofs(["XmpProps.C08"], required=REQUIRED, drivers=["drv_c08"])
    exe = build_harness()
    xzmax = (facts or {}).get("xzdict") or (16 << 20)
    if facts:
        ck.note("generated", {"depacker_order": [e[0] for e in facts["entries"]], "min_header": facts["minsize"], "sniff": facts["sniff"],
                              "exclude_globs": len(facts["globs"]), "xz_max_dict": facts["xzdict"], "md5_read_chunk": facts["md5buf"]})
    workdir = os.path.join(vlib.OUT, "c08-%s-%d" % (ck.tier, ck.seed))
    shutil.rmtree(workdir, ignore_errors=True)
    os.makedirs(workdir)

    # -- correspondences on the small models
    _t0 = time.time()
    corr_md5(ck, exe, workdir, 150 if quick else 3000)
    PHASES['corr_md5'] = round(time.time() - _t0, 1)
    _t0 = time.time()
    corr_magic(ck, exe, workdir, 400 if quick else 6000)
    PHASES['corr_magic'] = round(time.time() - _t0, 1)
    _t0 = time.time()
    corr_rle(ck, exe, workdir, 400 if quick else 8000)
    PHASES['corr_rle'] = round(time.time() - _t0, 1)
    _t0 = time.time()
    corr_lzw(ck, exe, workdir, 40 if quick else 500)
    PHASES['corr_lzw'] = round(time.time() - _t0, 1)
    _t0 = time.time()
    corr_arcenc(ck, exe, workdir, 40 if quick else 500)
    PHASES['corr_arcenc'] = round(time.time() - _t0, 1)
    _t0 = time.time()
    corr_pp(ck, exe, workdir, 40 if quick else 500)
    PHASES['corr_pp'] = round(time.time() - _t0, 1)
    _t0 = time.time()
    corr_zipenc(ck, exe, workdir, 40 if quick else 500)
    PHASES['corr_zipenc'] = round(time.time() - _t0, 1)
    _t0 = time.time()
    corr_lha(ck, exe, workdir, 40 if quick else 500)
    PHASES['corr_lha'] = round(time.time() - _t0, 1)
    _t0 = time.time()
    corr_arcfs(ck, exe, workdir, 40 if quick else 500)
    PHASES['corr_arcfs'] = round(time.time() - _t0, 1)
    _t0 = time.time()
    corr_lzx(ck, exe, workdir, 40 if quick else 500)
    PHASES['corr_lzx'] = round(time.time() - _t0, 1)
    _t0 = time.time()
    corr_mmcmp(ck, exe, workdir, 40 if quick else 500)
    PHASES['corr_mmcmp'] = round(time.time() - _t0, 1)
    _t0 = time.time()
    corr_squeeze(ck, exe, workdir, 40 if quick else 400)
    PHASES['corr_squeeze'] = round(time.time() - _t0, 1)
    _t0 = time.time()
    corr_lhnew(ck, exe, workdir, 40 if quick else 400)
    PHASES['corr_lhnew'] = round(time.time() - _t0, 1)
    _t0 = time.time()
    corr_gzip(ck, exe, workdir, 40 if quick else 400)
    PHASES['corr_gzip'] = round(time.time() - _t0, 1)
    _t0 = time.time()
    corr_boundary(ck, exe, workdir, quick)
    PHASES['corr_boundary'] = round(time.time() - _t0, 1)
    _t0 = time.time()
    corr_degenerate(ck, exe, workdir, (facts or {}).get("minsize") or 22)
    PHASES['corr_degenerate'] = round(time.time() - _t0, 1)

    # -- payload pool: corpus modules that load identically bare-by-path and from memory, plus generated ones
    maxsize = 150000 if quick else 600000
    corpus = [f for f in vlib.corpus_files() if 200 <= os.path.getsize(f) <= maxsize]
    fixed = [f for f in corpus if "/test/test." in f and not f.endswith(".itz")]
    rest = [f for f in corpus if f not in fixed]
    ck.rng.shuffle(rest)
    cand = fixed + rest[:(70 if quick else 400)]
    gens = generated_payloads(ck, 8 if quick else 30)
    first_boundary = len(gens)
    gens = gens + boundary_mods(ck.rng, quick)
    first_xzmixed = len(gens)
    gens = gens + xz_mixed_mods(ck.rng, quick)
    pool = []
    cases = []
    for i, f in enumerate(cand):
        cases.append(dict(id="bare%d" % i, apath=f, ppath=f, nframes=4))
    for i, (name, data) in enumerate(gens):
        pp = os.path.join(workdir, "gen%d.mod" % i)
        open(pp, "wb").write(data)
        cases.append(dict(id="gbare%d" % i, apath=pp, ppath=pp, nframes=4))
    _t0 = time.time()
    res, aborted = run_load(ck, exe, cases, workdir, "pool")
    PHASES["pool_load"] = round(time.time() - _t0, 1)
    for lf, last, rc, err in aborted:
        # a sanitizer abort while loading a bare corpus file belongs to C01; skip the file here
        ck.bump("pool_aborts")
    dropped = {}
    for c in cases:
        if c["id"] not in res:
            continue
        kv, spy = res[c["id"]]
        data = open(c["ppath"], "rb").read()
        md5 = hashlib.md5(data).hexdigest()
        why = None
        if any(l.startswith("O ") for l in spy):
            why = "is itself packed"
        elif kv["mrc"] != "0":
            why = "not loadable"
        elif oracle_one(kv, md5):
            f0 = oracle_one(kv, md5)
            if set(f0) <= {"md5", "md5_memory"}:
                ck.violation("oracle:bare:md5", {"archive": c["apath"], "payload": c["ppath"], "fails": f0, "result": kv},
                             "xmp_module_info.md5 of an unpacked module differs from the MD5 of its bytes (%s): %s vs %s" % (
                                 ",".join(f0), kv["pmd5"], md5))
            else:
                why = "bare path load differs from memory load (%s)" % ",".join(f0)
        if why:
            dropped[why.split(" (")[0]] = dropped.get(why.split(" (")[0], 0) + 1
            if c["id"].startswith("gbare"):
                raise vlib.InfraError("generated payload %s unusable: %s" % (c["ppath"], why))
            continue
        pool.append(dict(path=c["ppath"], data=data, md5=md5, gen=c["id"].startswith("gbare")))
    ck.note("payload_pool", {"usable": len(pool), "dropped": dropped})
    if len(pool) < 5:
        raise vlib.InfraError("payload pool too small")

    # -- archives
    narch = 380 if quick else 6500
    arch = {}
    tiny = next(p for p in pool if p["path"].endswith("gen0.mod"))
    plan = []
    aaaa = next(p for p in pool if p["path"].endswith("gen1.mod"))
    for fmt in SMALL_FORMATS:                      # regression witness of `decrunch:archive<100bytes`
        plan.append((tiny, fmt, None))
    for _ in range(3 if quick else 8):             # known finding: dictionary above XZ_MAX_DICT
        plan.append((tiny if ck.rng.random() < 0.5 else ck.rng.choice(pool), "xz-bigdict", None))
    # zip archive comments that move the end-of-central-directory record across the scan windows of miniz
    # (regression region of /repo 956fc91), in small and in large archives
    clens = ZIP_COMMENT_CORE + (ck.rng.sample(ZIP_COMMENT_MORE, 8) if quick else ZIP_COMMENT_MORE)
    for cl in clens:
        plan.append((tiny, "zip", {"comment_len": cl}))
        plan.append((ck.rng.choice(pool), "zip", {"comment_len": cl}))
    # payload boundary classes (equal-byte runs of length 1..6 at both ends, 0/2/4 sample bytes) through every codec
    bnd = [p for p in pool if p["gen"] and first_boundary <= int(re.search(r"gen(\d+)\.mod$", p["path"]).group(1)) < first_xzmixed]
    BND_FORMATS = ["bzip2", "bzip2-cli", "gzip", "xz", "compress", "pp", "zip", "lha", "arc", "arcfs", "lzx", "mmcmp"]
    for p in bnd:
        for fmt in (["bzip2", "bzip2-cli"] + ck.rng.sample(BND_FORMATS[2:], 3) if quick else BND_FORMATS):
            plan.append((p, fmt, None))
    ck.note("boundary_modules", len(bnd))
    # excluded `*.ext` members inside sub-directories in front of a module that sits in a sub-directory itself
    for fmt in ("zip", "lzx", "lha"):
        for _ in range(3 if quick else 12):
            plan.append((tiny if ck.rng.random() < 0.5 else ck.rng.choice(pool), fmt, {"subdir": True}))
    # ARC / Spark sub-directories (nested archives): module before / inside / after closed directories, depth 1..3
    for placement in ("before", "inside", "after", "after-inner"):
        for depth in ((1, 2) if quick else (1, 2, 3, 3)):
            plan.append((tiny if ck.rng.random() < 0.5 else ck.rng.choice(pool), "arc", {"tree": placement, "depth": depth}))
    # xz / LZMA2 with small dictionaries written by the own writer: uncompressed and LZMA chunks mixed, the dictionary
    # wraps inside both kinds, matches at distances up to the dictionary size follow (layout from XZ_LAYOUT); the same
    # writer with random layouts on ordinary modules
    xzm = [p for p in pool if hashlib.md5(p["data"]).hexdigest() in XZ_LAYOUT]
    for p in xzm:
        plan.append((p, "xz", {"own": True}))
    ck.note("xz_mixed_chunk_modules", len(xzm))
    small = [p for p in pool if len(p["data"]) <= 60000] or [tiny]
    for _ in range(3 if quick else 20):
        plan.append((ck.rng.choice(small), "xz", {"own": True}))
    # static-Huffman LHA methods on the modules with padded titles (matches into the blank dictionary before the file)
    titled = [p for p in bnd if len(p["data"]) > 20 and (p["data"][19:20] in (b" ", b"\0", b"a"))]
    for p in titled:
        for m in ([b"-lh5-", ck.rng.choice([b"-lh4-", b"-lh6-", b"-lh7-"])] if quick else [b"-lh4-", b"-lh5-", b"-lh6-", b"-lh7-"]):
            plan.append((p, "lha", {"lha_method": m}))
    ck.note("padded_title_modules", len(titled))
    for m in (b"-lh5-", b"-lh6-", b"-lh7-", b"-lh4-"):
        for _ in range(2 if quick else 10):
            plan.append((ck.rng.choice(pool), "lha", {"lha_method": m}))
    # -lh1-: members long enough for several rebuilds of the adaptive tree (every 32768 codes), and ordinary ones
    longp = sorted([p for p in pool if 45000 <= len(p["data"]) <= 300000], key=lambda p: -len(p["data"]))
    for p in (longp[:3] if quick else longp[:12]) + [ck.rng.choice(pool) for _ in range(2 if quick else 10)]:
        plan.append((p, "lha", {"lha_method": b"-lh1-"}))
    ck.note("lh1_long_modules", len(longp))
    # ARC squeeze / crunch / squash / compress members (own Huffman and LZW encoders) in ARC, Spark and ArcFS
    for m in (4, 4, 8, 9):
        for _ in range(2 if quick else 8):
            plan.append((ck.rng.choice(pool), "arc", {"arc_method": m}))
    for m in (0x84, 0x88, 0x89, 0xff):
        for _ in range(1 if quick else 6):
            plan.append((ck.rng.choice(pool), "arcfs", {"arcfs_method": m}))
    # MMCMP bit-packed blocks (8/16 bit, DELTA, several sub-blocks per block)
    for _ in range(4 if quick else 20):
        plan.append((ck.rng.choice(pool), "mmcmp", {"packed": True, "kinds": ("8bit", "16bit")}))
    # old-format compress(1) streams (no block mode): code 256 is an ordinary table entry there
    for _ in range(2 if quick else 6):
        plan.append((aaaa, "compress", {"block_mode": False}))
        plan.append((ck.rng.choice(pool), "compress", {"block_mode": False}))
    while len(plan) < narch:
        p = ck.rng.choice(pool)
        if len(p["data"]) > 100000 and ck.rng.random() < 0.6:
            p = ck.rng.choice(pool)
        plan.append((p, ck.rng.choice(FORMATS), None))
    fmt_count = {}
    _t_arch = time.time()
    for i, (p, fmt, force) in enumerate(plan):
        made = make_archive(ck.rng, fmt, p["data"], xzmax, force)
        if made is None:
            continue
        a, recipe, info = made
        cid = "a%d" % i
        ap = os.path.join(workdir, cid + "." + recipe["fmt"])
        open(ap, "wb").write(a)
        recipe["payload"] = p["path"]
        arch[cid] = dict(id=cid, apath=ap, ppath=p["path"], nframes=12 if quick else 20, recipe=recipe, info=info,
                         abytes=a, pbytes=p["data"], md5=p["md5"])
        fmt_count[recipe["fmt"]] = fmt_count.get(recipe["fmt"], 0) + 1
    ck.note("archives_by_format", fmt_count)
    ck.note("archives_below_100_bytes", sum(1 for c in arch.values() if len(c["abytes"]) < 100 and c["recipe"]["fmt"] != "bare"))

    # referee for the own LZW writer: gzip's unlzw must agree that the stream decodes to the payload
    if HAVE["uncompress"] or HAVE["gzip"]:
        for c in [c for c in arch.values() if c["recipe"]["fmt"] == "compress"][:(6 if quick else 40)]:
            got = subprocess.run(["gzip", "-dc"], input=c["abytes"], stdout=subprocess.PIPE, stderr=subprocess.PIPE)
            if got.returncode != 0 or got.stdout != c["pbytes"]:
                raise vlib.InfraError("own compress(1) writer rejected by gzip -d: %s" % c["recipe"])
            ck.bump("lzw_writer_refereed_by_gzip")

    PHASES["archives_made"] = round(time.time() - _t_arch, 1)
    _t0 = time.time()
    results, aborted = run_load(ck, exe, list(arch.values()), workdir, "arch")
    PHASES["archives_load"] = round(time.time() - _t0, 1)
    for lf, last, rc, err in aborted:
        sig = vlib.sanitizer_signature(err)
        c = arch.get(last)
        ck.violation("harness-abort:" + sig, {"archive": c["apath"] if c else None, "payload": c["ppath"] if c else None,
                                              "recipe": c["recipe"] if c else None, "stderr": err[-3000:]},
                     "loading a generated archive aborted (rc=%d): %s" % (rc, sig))
    fails_by = {}
    md5_chunk_ok = 0
    for cid, c in arch.items():
        if cid not in results:
            continue
        kv, spy = results[cid]
        fmt = c["recipe"]["fmt"]
        key = vlib.hash_str(repr(sorted((k, str(v)) for k, v in c["recipe"].items())))
        ck.count(key, nontrivial=(fmt != "bare"))
        fails = oracle_one(kv, c["md5"])
        if fmt == "xz-bigdict":
            if fails:
                ck.violation("xz:dict_size>XZ_MAX_DICT", {"archive": c["apath"], "payload": c["ppath"], "recipe": c["recipe"], "fails": fails},
                             "xz stream with an LZMA2 dictionary above XZ_MAX_DICT (%d) is rejected: %s" % (xzmax, fails))
                ck.bump("xz_bigdict_rejected")
            else:
                ck.bump("xz_bigdict_accepted")
            continue
        if fails:
            c["oracle_failed"] = True
            small = len(c["abytes"]) < 100 and fmt != "bare" and any(f.startswith("load_rc=-3") for f in fails)
            sig = "decrunch:archive<100bytes" if small else "oracle:%s:%s" % (fmt, fails[0].split("=")[0])
            if fmt == "zip" and c["recipe"].get("comment_len", 0) >= 4000 and any(f.startswith("load_rc=-5") for f in fails):
                sig = "zip:comment:eocd-scan"      # the end-of-central-directory scan lost a record behind a long comment
            fails_by[sig] = fails_by.get(sig, 0) + 1
            ck.violation(sig, {"how": "python3 tools/check.py C08 --replay <this file>", "archive": c["apath"], "payload": c["ppath"],
                               "archive_hex": c["abytes"].hex() if len(c["abytes"]) <= 65536 else None,
                               "payload_hex": c["pbytes"].hex() if len(c["pbytes"]) <= 65536 else None,
                               "recipe": c["recipe"], "fails": fails, "result": kv},
                         "archive (%s, %d bytes) of a loadable module does not load like the bare module: %s" % (fmt, len(c["abytes"]), ", ".join(fails)))
            continue
        ck.sample({"fmt": fmt, "recipe": {k: v for k, v in c["recipe"].items() if k != "payload"}, "archive_bytes": len(c["abytes"]),
                   "payload_bytes": len(c["pbytes"]), "md5": kv["pmd5"]}, limit=5)
        # tie of set_md5sum's chunking: k x BUFLEN + remainder
        u = [l for l in spy if l.startswith("U ")]
        if u and facts:
            m = re.match(r"U (\S+) total=(\d+)", u[0])
            parts = [tuple(int(x) for x in t.split("x")) for t in m.group(1).split(",")] if m and m.group(1) != "-" else []
            sizes = [s for cnt, s in parts for _ in range(cnt)]
            n = len(c["pbytes"])
            exp = [facts["md5buf"]] * (n // facts["md5buf"]) + ([n % facts["md5buf"]] if n % facts["md5buf"] else [])
            # (MD5Final's own two MD5Update calls are intra-object calls and not seen by the link-time spy)
            if sizes != exp:
                if not any(u["name"].startswith("correspondence set_md5sum") for u in ck.unproved_items):
                    ck.unproved("correspondence set_md5sum read loop", "case %s: MD5Update sizes %s, model (chunksOf %d) expects %s" % (
                        cid, parts, facts["md5buf"], exp[:3]))
            else:
                md5_chunk_ok += 1
    ck.note("oracle_failures", fails_by)
    ck.note("phase_seconds", PHASES)
    ck.note("md5_read_loops_matched", md5_chunk_ok)
    ck.cov["traces_validated_against_impl"] += md5_chunk_ok

    corr_framing(ck, arch, results)

    # -- the repository's own archives (seeds for SQSH / S404 / LH1,5,6,7 / ARC 4,8,9 / LZX / MMCMP coders)
    seeds = seeds_from_tests()
    scases = [dict(id="seed-" + n, apath=p, ppath=p, nframes=4) for n, p, d in seeds]
    sres, sab = run_load(ck, exe, scases, workdir, "seeds", nshards=4)
    for lf, last, rc, err in sab:
        ck.violation("harness-abort:seed:" + vlib.sanitizer_signature(err), {"list": lf, "last": last, "stderr": err[-3000:]},
                     "loading a repository archive aborted")
    for n, p, d in seeds:
        r = sres.get("seed-" + n)
        if not r:
            continue
        kv, spy = r
        ck.count("seed-" + n, nontrivial=True)
        if kv["prc"] != "0" or kv["pmd5"] != d or (kv["tprc"], kv["tpname"], kv["tptype"]) != (kv["tfrc"], kv["tfname"], kv["tftype"]):
            ck.violation("oracle:seed:" + n, {"archive": p, "expected_md5": d, "result": kv},
                         "repository archive %s: rc=%s md5=%s expected %s" % (os.path.basename(p), kv["prc"], kv["pmd5"], d))
        else:
            ck.bump("repo_seed_archives_ok")

    # ---- codec sub-checks (own Lean modules, drivers and harnesses; each adds obligations, counts and violations) ----
    import importlib
    for sub in ("c08_inflate", "c08_bzip2"):
        try:
            mod = importlib.import_module(sub)
        except ImportError:
            continue
        mod.run(ck)

    ck.cov["rule"] = ("case = (payload, container format, encoder options, companion members and their order) drawn from VERIF_SEED; "
                      "distinct by hash of the recipe; non-trivial = the file is really wrapped (format != bare). Payloads: corpus modules "
                      "that load identically by path and from memory + generated M.K. modules incl. the <100-byte-archive witness.")
    ck.assumptions += [
        "python zlib/bz2/lzma/zipfile, CLI gzip/bzip2/xz/zip and tools/c08_writers.py are correct independent encoders (own LZW writer refereed by gzip -d)",
        "payload modules whose loader opens companion files or derives data from the path are outside C08 (dropped from the pool; C07/C10/C11)",
        "entropy decoders other than compress-LZW / PowerPacker / RLE90 satisfy dec (enc p) = some p — exercised, not proved",
    ]


def replay(ck, rp):
    r = rp["replay"]
    if isinstance(r, dict) and ("inflate_stream_hex" in r or "zlib_stream_hex" in r):
        import c08_inflate
        return c08_inflate.replay(ck, rp)
    if isinstance(r, dict) and any(k.startswith("bzip2") for k in r):
        import c08_bzip2
        if hasattr(c08_bzip2, "replay"):
            return c08_bzip2.replay(ck, rp)
    exe = build_harness()
    workdir = os.path.join(vlib.OUT, "c08-replay")
    os.makedirs(workdir, exist_ok=True)
    if r.get("dp") and r.get("stream_hex") is not None:
        one = os.path.join(workdir, "dp-replay.txt")
        open(one, "w").write("%s %s\n" % (r["dp"], r["stream_hex"]))
        rc, out, err = vlib.run_exe(exe, ["dp", one], timeout=20, env=ASAN_ENV)
        print(out.decode("latin-1")[-500:], err[-1500:])
        if rc != 0:
            print("VIOLATION property=C08 replay=%s (%s)" % (one, "no result after 20 s" if rc == -999 else "rc=%d" % rc))
            return 1
        return 0
    ap, pp = r.get("archive"), r.get("payload")
    if r.get("archive_hex"):
        ap = os.path.join(workdir, "archive.bin")
        open(ap, "wb").write(bytes.fromhex(r["archive_hex"]))
    if r.get("payload_hex"):
        pp = os.path.join(workdir, "payload.bin")
        open(pp, "wb").write(bytes.fromhex(r["payload_hex"]))
    if not ap or not os.path.exists(ap) or not pp or not os.path.exists(pp):
        print("ERROR replay files missing (archive=%s payload=%s)" % (ap, pp))
        return 2
    lf = os.path.join(workdir, "list.txt")
    open(lf, "w").write("replay %s %s 20\n" % (ap, pp))
    rc, out, err = vlib.run_exe(exe, ["load", lf])
    print(out.decode("latin-1")[-3000:])
    print(err[-2000:])
    if rc != 0:
        print("VIOLATION property=C08 replay=%s" % ap)
        return 1
    kv, spy = parse_load(out.decode("latin-1"))["replay"]
    fails = oracle_one(kv, hashlib.md5(open(pp, "rb").read()).hexdigest())
    print("oracle:", fails or "holds")
    if fails:
        print("VIOLATION property=C08 replay=%s" % ap)
        return 1
    return 0
