"""C04 — Failed or faulted operations are atomic: no leak, no residue, context reusable.

proof   : XmpProps.C04 over XmpModel.Resource (heap/descriptor ledger; xmp_start_player with the
          unwinding table generated from player.c, xmp_end_player, xmp_release_module on ANY partially
          built module, load_module with an arbitrary loader result, hio open/reopen/close with
          noclose and with closes that report errors, cbopen/cbclose, make_temp_file/unlink_temp_file,
          xmp_start_smix / xmp_smix_load_sample / xmp_end_smix, libxmp_scan_sequences on a live context)
          - for every allocation oracle - and over XmpModel.StartFail (the image of struct context_data
          after a failing start, on C06's context model: reuse theorems through C06_restart_independent /
          C06_history_independent)
tie     : (T) tools/gen_c04.py regenerates XmpModel/Gen/StartCfg.lean (goto labels and label blocks of
          xmp_start_player and make_temp_file; what libxmp_virt_on's failure path zeroes; whether
          xmp_smix_load_sample writes the slot before its commit / releases the old contents; whether
          hio_reopen_* bail out on a failing close) from the working tree; the theorems hold for every
          table with `Sound = true` / `idleAfter = true`, evaluated on the generated table each run.
          (C) harness/c04_faults.c logs, through --wrap=malloc/calloc/realloc/free, the blocks that are
          live after every faulted xmp_start_player (from LOADED, from PLAYING, and a second faulted start
          on the residue of a failed one) and the blocks really freed by every xmp_release_module
          (classified through the private headers); drv_c04 runs the model on the same parameters; the
          ledgers are compared.  Member level: the complete image of struct context_data (C06's generated
          leaf list) before/after every failed start vs XmpModel.StartFail.failedStart.
search  : the same harness *is* the oracle: for corpus modules and malformed variants every allocation
          index k, truncation classes, failing reads, helper outcomes, temp-dir faults; after each
          faulted call: return code, state, residue (blocks of the call still live), leaks after the
          context was reused and freed, /proc/self/fd, temp dir, caller's FILE, close-callback count,
          reload+play digest against a fresh context; ASan/UBSan/LSan on top.
"""
import os
import re
import shutil
import stat

import c04_inputs
import gen_c04
import gen_ctx_fields
import vlib

LEVEL = "proof"
MANIFEST = dict(
    category="proof",
    text="Lean 4 theorems (XmpProps.C04) over an explicit resource ledger prove, for EVERY pattern of allocation failures, that "
         "xmp_release_module frees every block of ANY partially built module exactly once and leaves it empty/UNLOADED "
         "(C04_release_total), that a failing xmp_start_player returns <0 with the ledger and state restored for every unwinding "
         "table accepted by a decidable soundness predicate (C04_start_atomic; the table is regenerated from player.c on every "
         "run and evaluated), that load_module with an arbitrary loader result is atomic (C04_load_atomic), that over every "
         "open;reopen*;close sequence the caller's FILE is never closed, an owned FILE and the close callback exactly once "
         "(C04_stream_ownership, by induction over the reopen list) - also when closes report errors, for the hio_reopen_* that "
         "switch streams regardless (C04_stream_ownership_close_failures; flag regenerated from hio.c) -, that the temp-file "
         "protocol leaves no file, descriptor or block behind for every sound table of make_temp_file (C04_tempfile), that the "
         "context after a failed load equals the fresh context (C04_reusable), that a LOADED context left by any number of failed "
         "starts (stale counts, NULL pointers) makes the next xmp_start_player compute literally the same world, return code and "
         "player as a fresh one (C04_reusable_start[_gen], C04_failed_start_invariant), that xmp_start_player on a PLAYING context "
         "(implicit xmp_end_player) is atomic (C04_restart_atomic, C04_restart_after_start), that xmp_start_smix / "
         "xmp_smix_load_sample leave tables, counts, heap and descriptors as before on every failure and xmp_end_smix releases "
         "everything once (C04_smix_atomic, C04_smix_end_total, C04_smix_load_ok), and that a rescan of a live context "
         "(libxmp_scan_sequences via xmp_set_player / xmp_scan_module) keeps p->scan one live block for every oracle and "
         "that xmp_set_player(XMP_PLAYER_MODE) is refused with the old mode restored and rescanned exactly when the rescan "
         "under the new mode fails (C04_rescan_atomic, C04_set_player_mode_atomic). Member level (XmpModel.StartFail on C06's context model): a failing start writes no member the next "
         "start depends on, so by C06_restart_independent the same module restarts with the same player view "
         "(C04_reusable_restart_view); where the decidable predicate idleAfter holds for the generated table the context is "
         "well-formed idle (C04_failed_start_wf) and by C06_history_independent / C06_loaded_view another module loads and plays as "
         "on a fresh context (C04_reusable_reload_view). Counterexample theorems record the defects found: the pinned/intermediate "
         "unwinding tables that leaked, the stale virt counts libxmp_virt_on left (C04_virt_counts_residue), the double fclose of the "
         "bailing hio_reopen_* (C04_reopen_double_close), the occupied-slot leak of xmp_smix_load_sample (C04_smix_occupied_leak). "
         "The model is tied to the C by generated tables/flags and by differential correspondence of allocation ledgers and whole "
         "context images; a fault-injection oracle (every allocation index, truncations, read faults, helper outcomes, failing "
         "fclose / close callback, every smix call, rescans) evaluates the property on the real code and yields replayable inputs.",
    note="Trusted: Lean kernel (propext/Classical.choice/Quot.sound only), the hand-written models XmpModel/Resource.lean and "
         "XmpModel/StartFail.lean (+ C06's XmpModel/Reset.lean), tools/gen_c04.py (regular expressions over player.c, tempfile.c, "
         "virtual.c, smix.c, hio.c), harness and differ. Partial: the ~110 format loaders and the depackers are NOT modelled - their "
         "local temporaries (hundreds of allocation sites) are reached only by the fault enumeration (quick: ~30 small modules x 2 "
         "entry points x every allocation index; thorough: every corpus file <= 64 KiB x 4 entry points x every index, larger files "
         "~120 indices each) and, for the header/table region of the core formats, by the every-byte truncation sweep + allocation "
         "schedule over deterministic inputs (tools/c04_inputs.py: ITs with edit-history / MIDI-configuration blocks, smallest "
         "XM/IT/S3M/MOD; every length 0..size through mem + one rotating entry point, load and test, live blocks counted per call), "
         "by structure-aware corruption of well-formed archives of every built-in container (writers / fault generators of the "
         "C08, C09 and C02 stacks imported read-only: every byte of header region, trailer and known fields replaced by overshooting / "
         "zero / flipped values, ~25 000 corrupt archives per quick run, load+test by path and test by FILE - this is what reaches the "
         "refusal branches that truncation and allocation failure never enter), and by the companion-file search for the multi-file "
         "formats (Startrekker .nt/.NT/.as/.AS, MFP smp.*, MED2/3/4, MOD and STM song instruments: companion missing, a directory, "
         "empty, cut at every byte of its head and at sampled lengths, and every allocation failing while it is read; the check "
         "verifies that each world really opens its companion), by WELL-FORMED archives whose member is empty / one / two "
         "bytes long for every built-in container (a depacker that succeeds with nothing to hand over: gzip, bzip2, xz, zip "
         "stored/deflated/first-of-two, compress, lha 0/1/2, arc 1/2/3, Spark, ArcFS, lzx, PowerPacker, MMCMP - intact through "
         "load/test by path and test by FILE, cut at every byte, every allocation failing incl. the reopen of the handle on the "
         "unpacked data), and by the temp-file fault schedule for files routed to an external helper (TMPDIR missing / a regular "
         "file, mkstemp refused, libc mkstemp at the descriptor limit, fdopen failing; load and test). 'Lets the same context load "
         "and play another module normally' is evaluated after EVERY refused or faulted load of the whole search: two reference "
         "modules of other formats (XM, MOD) are loaded into the same context and must hold and render what a fresh context holds "
         "and renders (module digest, the per-module parameters a loader may install - volume table, c4rate, quirks, flow / event "
         "/ period modes, volume bases, timing, MIDI macros, extras, comment -, return codes, frame info and PCM of the first "
         "frames); the failing first load ranges over every module of the format collection test-dev/data/m cut at ~30 lengths "
         "of its UNPACKED stream (cutting a packed file only exercises the depacker). Post-load calls that allocate "
         "(xmp_set_player MODE / CFLAGS, xmp_scan_module, start, smix): after each allocation failure position control "
         "(xmp_set_position / next / prev / seek_time: return codes and landing order, row, sequence, time) must do what it does "
         "in the twin context - the unfaulted call, or the context that never made the refused call. Reusability after a failed START: proved at ledger level for every oracle and at member level through "
         "C06's model, under the hypotheses that the module has a playable order (the start then leaves mod->len alone) and that the "
         "scan reached the start order; what playback computes from the player view is C06's trusted part. The smix model assumes "
         "that xmp_smix_load_sample writes the slot only at its commit (checked on every run from smix.c: any earlier `xxi->`/`xxs->` "
         "assignment is reported); xmp_smix_release_sample while a voice plays the sample is the caller's responsibility and not "
         "modelled. Rescans: only the memory protocol of libxmp_scan_sequences is modelled (what the scan computes is not); "
         "xmp_set_player(XMP_PLAYER_MODE) acts on its result since e307a0a (modelled: Resource.setPlayerMode; the six restored mode "
         "members are checked by the harness oracle only); XMP_PLAYER_CFLAGS and xmp_scan_module still ignore it (noted, not a "
         "violation: the previous scan data stays valid). Close failures: fclose of library-owned FILEs and the user close callback are injected; fork/pipe "
         "failures and signals are not. Model assumptions checked dynamically by the harness: count fields never exceed the "
         "allocated table length when xmp_release_module runs, no block is referenced twice. Correspondence is sampled "
         "(differential), not exhaustive: per quick run ~250 start ledgers (from LOADED, from PLAYING, second fault on the residue), "
         "~280 whole context images after failed starts (~130 members each), ~2000 release ledgers, 26 smix ledgers, 8 close-failure "
         "cases, 5 rescan ledgers.",
    technique="Lean 4 proofs by multiset counting over a heap ledger + abstract interpretation of generated unwinding tables + "
              "member-level frame reasoning on C06's context model + link-time fault injection (--wrap of the allocator, fclose, "
              "fopen, mkstemp, fdopen) with an exact allocation tracker under ASan/UBSan/LSan",
    design_ref="DESIGN.md section 4 C04",
)
REQUIRED = ["Xmp.Resource.C04_release_total", "Xmp.Resource.C04_start_atomic", "Xmp.Resource.C04_load_atomic",
            "Xmp.Resource.C04_stream_ownership", "Xmp.Resource.C04_tempfile", "Xmp.Resource.C04_reusable",
            # reuse after failed starts (ledger level) and restart while playing
            "Xmp.Resource.C04_reusable_start_gen", "Xmp.Resource.C04_failed_start_invariant", "Xmp.Resource.C04_reusable_start",
            "Xmp.Resource.C04_reuse_needs_strict_entry", "Xmp.Resource.C04_restart_atomic", "Xmp.Resource.C04_restart_after_start",
            # reuse after a failed start, member level (with C06's reset theorems)
            "Xmp.StartFail.C04_reusable_restart_view", "Xmp.StartFail.C04_failed_start_wf", "Xmp.StartFail.C04_reusable_reload_view",
            "Xmp.StartFail.C04_idle_fixed", "Xmp.StartFail.C04_virt_counts_residue",
            # sound-effect mixer calls
            "Xmp.Resource.C04_smix_atomic", "Xmp.Resource.C04_smix_end_total", "Xmp.Resource.C04_smix_load_ok",
            "Xmp.Resource.C04_smix_occupied_leak",
            # closing that reports an error
            "Xmp.Resource.C04_stream_ownership_close_failures", "Xmp.Resource.C04_reopen_bailing_ok_without_failures",
            "Xmp.Resource.C04_reopen_double_close",
            # rescans on a live context
            "Xmp.Resource.C04_rescan_atomic", "Xmp.Resource.C04_set_player_mode_atomic"]

WRAP = ["-Wl,--wrap=malloc", "-Wl,--wrap=calloc", "-Wl,--wrap=realloc", "-Wl,--wrap=free",
        "-Wl,--wrap=libxmp_release_module_extras", "-Wl,--wrap=mkstemp", "-Wl,--wrap=fdopen",
        "-Wl,--wrap=fclose", "-Wl,--wrap=fopen"]
ENTRIES = ["path", "mem", "file", "cb"]
REF_MOD = os.path.join(vlib.REPO, "test-dev", "data", "TDZ3.MOD")
SMIX_SCENARIOS = ["start", "restart", "load", "reload", "loadhdr", "loadshort", "loadrange", "startinval", "end",
                  "startplaying", "endplaying"]


def hdr_hash():
    """the harness includes C06's image headers (one of them generated): make them part of the build key"""
    import hashlib
    h = hashlib.sha256()
    for f in ("c06_image.h", "c06_ctxfields.h"):
        h.update(open(os.path.join(vlib.HARNESS, f), "rb").read())
    return "C04_HDR=0x" + h.hexdigest()[:7]


def build():
    return vlib.build_harness("c04_faults", ["c04_faults.c"], extra=WRAP, defines=[hdr_hash()])


# --------------------------------------------------------------------------
# running the harness
# --------------------------------------------------------------------------

def base_env(scratch, path_prefix=None, tmpdir=None):
    env = {
        "ASAN_OPTIONS": "detect_leaks=1:leak_check_at_exit=0:allocator_may_return_null=1:abort_on_error=0",
        "UBSAN_OPTIONS": "print_stacktrace=1",
        "TMPDIR": tmpdir if tmpdir is not None else os.path.join(scratch, "tmp"),
        "C04_SCRATCH": scratch,
        # reference modules of two formats: after every refused / faulted load they are loaded into the same context
        # and must hold and render what a fresh context holds and renders
        "C04_REF": os.path.join(vlib.REPO, "test", "test.xm"),
        "C04_REF2": REF_MOD,
    }
    if path_prefix is not None:
        env["PATH"] = path_prefix + ":/usr/bin:/bin"
    return env


def parse_output(text):
    """-> list of cases {kind, fields, viols:[(sig,text)], leaks:[site], traces:[line]}, and loose lines"""
    cases, pend_v, pend_l, traces, notes = [], [], [], [], []
    fault = None
    fblock = None
    cur_case = ""
    for line in text.splitlines():
        if line.startswith("case "):
            cur_case = line[5:]
        if line.startswith("fcase "):
            fblock = [line]
        elif fblock is not None:
            fblock.append(line)
            if line == "fend":
                traces.append("\n".join(fblock))
                fblock = None
        elif line.startswith("viol "):
            f = line.split(" ", 2)
            pend_v.append((f[1], f[2] if len(f) > 2 else ""))
        elif line.startswith("leak "):
            m = re.search(r"kind=(\w+) .*site=(\S+)", line)
            if m:
                fl, fn, _ = (m.group(2).split(":") + ["", ""])[:3]
                pend_l.append((m.group(1), "leak:%s:%s" % (fl, fn), line))
        elif line.startswith("fault "):
            m = re.match(r"fault site=(\S+) loader=(\S+)", line)
            if m:
                fault = (m.group(1), m.group(2))
        elif line.startswith("trace "):
            traces.append(line)
        elif line.startswith("base ") or line.startswith("k "):
            f = dict(x.split("=", 1) for x in line.split(" ")[1:] if "=" in x)
            cases.append({"kind": line.split(" ", 1)[0], "f": f, "viols": pend_v, "leaks": pend_l, "line": line,
                          "fault": fault, "case": cur_case})
            pend_v, pend_l, fault = [], [], None
        elif line.startswith(("own ", "smix ", "reads ", "case ", "skip ", "begin ", "end", "stride ", "companion ")):
            notes.append(line)
    return cases, traces, notes, pend_v, pend_l


def lsan_sites(stderr):
    """allocation sites (file:function) of LeakSanitizer reports"""
    out = []
    for blk in re.split(r"\n(?=(?:Direct|Indirect) leak of)", stderr):
        if not blk.startswith(("Direct", "Indirect")):
            continue
        for m in re.finditer(r"#\d+ 0x[0-9a-f]+ in (\w+) (\S+?):(\d+)", blk):
            fn, path = m.group(1), m.group(2)
            if fn.startswith("__") or "/harness/" in path or fn in ("main",):
                continue
            out.append("leak:%s:%s" % (os.path.basename(path), fn))
            break
    return sorted(set(out))


def abort_signature(err):
    """signature of a sanitizer abort.  Double frees and uses after free are named by the libxmp site that trips over
    the block and the libxmp site that released it (`double-free:depacker.c:decrunch_internal<-unxz.c:decrunch_xz`):
    vlib's `kind@function` would call all of them `attempting@free`.  Everything else keeps vlib's form."""
    m = re.search(r"ERROR: AddressSanitizer: (attempting double-free|heap-use-after-free)", err)
    if not m:
        return vlib.sanitizer_signature(err)
    kind = "double-free" if "double" in m.group(1) else "use-after-free"

    def first_lib_frame(text):
        for fm in re.finditer(r"#\d+ 0x[0-9a-f]+ in (\w+) (\S+?):\d+", text):
            fn, path = fm.group(1), fm.group(2)
            if "/src/" in path and "/harness/" not in path:
                return "%s:%s" % (os.path.basename(path), fn)
        return None
    head, _, rest = err.partition("freed by thread")
    here = first_lib_frame(head)
    prev = first_lib_frame(rest.split("previously allocated by")[0]) if rest else None
    if not here:
        return vlib.sanitizer_signature(err)
    return "%s:%s%s" % (kind, here, "<-" + prev if prev else "")


def leak_signature(alloc_sig, fault):
    """A block leaked by a format loader / depacker is attributed to that file and to the function whose
    allocation failed (`leak:<loader file>:<function of the failed call>`); everything else keeps the
    allocation site of the leaked block (`leak:<file>:<function>`)."""
    if fault and fault[1] != "-":
        fn = (fault[0].split(":") + ["?", "?"])[1]
        return "leak:%s:%s" % (fault[1], fn)
    return alloc_sig


class Runner:
    def __init__(self, ck, exe, scratch):
        self.ck, self.exe, self.scratch = ck, exe, scratch
        self.traces = set()
        self.sigs = set()
        self.companions = {}
        self.own_notes = []
        self.stats = {}
        self.njob = 0

    def bump(self, k, n=1):
        self.stats[k] = self.stats.get(k, 0) + n

    def job_dir(self):
        self.njob += 1
        d = os.path.join(self.scratch, "j%d" % self.njob)
        os.makedirs(os.path.join(d, "tmp"), exist_ok=True)
        return d


def run_faults_job(job):
    import time as _time
    r = _run_faults_job(job)
    r["t1"] = _time.time()
    return r


def _run_faults_job(job):
    """One `faults` enumeration with restart after sanitizer aborts.  Pure function of `job` (runs in
    a worker thread); returns a result dict that the main thread folds into the check."""
    exe, args, env, kpos, stride = job["exe"], list(job["args"]), job["env"], job.get("kpos"), job.get("stride", 1)
    res = {"job": job, "cases": [], "traces": [], "notes": [], "aborts": [], "lsan": [], "loose": []}
    import time as _time
    res["t0"] = _time.time()
    restarts = 0
    while True:
        rc, out, err = vlib.run_exe(exe, args, timeout=job.get("timeout", 900), env=env)
        text = out.decode("latin-1")
        cases, traces, notes, pv, pl = parse_output(text)
        res["cases"] += cases
        res["traces"] += traces
        res["notes"] += notes
        if rc == 0 or rc == 2:
            if pv or pl:
                res["loose"].append((pv, pl, list(args)))
            if any(s == "leak:lsan" for s, _ in pv):
                res["lsan"] += lsan_sites(err) or ["leak:lsan:unknown"]
            if rc == 2:
                res["aborts"].append({"sig": "harness-usage", "args": list(args), "stderr": err[-500:], "k": None})
            break
        # aborted (sanitizer report, crash or timeout)
        sig = "timeout" if rc == -999 else abort_signature(err)
        done = [c for c in cases if c["kind"] == "k"]
        if kpos is None:
            res["aborts"].append({"sig": sig, "args": list(args), "stderr": err[-3500:], "k": None, "pending": pv})
            break
        kfrom = int(args[kpos])
        for nline in notes:
            if nline.startswith("stride s="):
                stride = int(nline.split("=")[1].split(" ")[0])
                args[kpos + 2] = str(stride)
        crashed = (int(done[-1]["f"]["k"]) + stride) if done else (kfrom if any(c["kind"] == "base" for c in cases) else None)
        res["aborts"].append({"sig": sig, "args": list(args), "stderr": err[-3500:], "k": crashed, "pending": pv})
        restarts += 1
        if crashed is None or restarts > 40:
            break
        args[kpos] = str(crashed + stride)
    return res


def split_long_jobs(R, jobs, chunk=1200):
    """An every-allocation-index enumeration runs its indices one after the other in one process; a module with
    thousands of allocator calls then decides the wall time of the whole check.  Such jobs are split into index ranges
    that run in parallel: a cheap baseline-only pass (kfrom = -1) tells the number of allocator calls.  Same indices,
    same oracles - only the schedule changes."""
    cand = []
    for j in jobs:
        a = j["args"]
        # (the file size says nothing: a 939-byte ULT makes 9110 allocator calls)
        if a[0] == "faults" and a[1] == "load" and j.get("kpos") == 4 and a[4] == "0" and a[5] == "-1" and a[6] == "1":
            cand.append(j)
    if not cand:
        return jobs

    def probe(j):
        pj = dict(j, args=j["args"][:4] + ["-1", "0", "1"] + j["args"][7:], kpos=None)
        r = _run_faults_job(pj)
        for c in r["cases"]:
            if c["kind"] == "base":
                return int(c["f"].get("n", "0"))
        return 0
    ns = vlib.pmap(probe, cand)
    out = [j for j in jobs if j not in cand]
    nsplit = 0
    for j, n in zip(cand, ns):
        if n <= chunk * 2:
            out.append(j)
            continue
        nsplit += 1
        for lo in range(0, n, chunk):
            d = R.job_dir()
            old = j["env"].get("C04_SCRATCH", "")
            env = {k: (v.replace(old, d) if old else v) for k, v in j["env"].items()}
            args = j["args"][:4] + [str(lo), str(min(n - 1, lo + chunk - 1)), "1"] + j["args"][7:]
            out.append(dict(j, args=args, env=env))
    R.bump("long_enumerations_split", nsplit)
    return out


def fold(R, res):
    """account one job's result: violations, counts, traces"""
    ck, job = R.ck, res["job"]
    what = job["what"]
    R.traces.update(res["traces"])
    R.own_notes.extend(n for n in res["notes"] if n.startswith("own scenario="))
    if job.get("companion"):
        fo = [int(n.split("fopens=")[1]) for n in res["notes"] if n.startswith("companion clen=") and "fopens=" in n]
        if fo:
            R.companions[job["companion"]] = fo[0]        # first case = the intact companion
    for c in res["cases"]:
        f = c["f"]
        fired = f.get("fired") == "1"
        rc = int(f.get("rc", "0"))
        nontrivial = (fired and rc < 0) or (job.get("malformed") and rc < 0)
        ck.count((what, f.get("op"), f.get("k"), job.get("case", ""), c.get("case", "")), nontrivial=bool(nontrivial))
        R.bump("cases")
        R.bump("op_" + f.get("op", "?"))
        if fired:
            R.bump("faults_fired")
            R.bump("fault_tolerated" if rc == 0 else "fault_failed")
        if rc < 0:
            R.bump("rc_%d" % rc)
        if int(f.get("viol", "0")) > 0 or c["viols"] or c["leaks"]:
            rep_args = list(job["args"])
            if job.get("kpos") is not None and f.get("k") not in (None, "-1"):
                rep_args[job["kpos"]] = f["k"]
                rep_args[job["kpos"] + 1] = f["k"]
            m_len = re.match(r"len=(\d+)$", c.get("case", ""))
            if job["args"][0] == "trunc" and m_len:
                rep_args = job["args"][:3] + [m_len.group(1)]       # one length of the sweep
            m_mut = re.match(r"mut=(\S+)$", c.get("case", ""))
            if job["args"][0] == "mutate" and m_mut:
                rep_args = job["args"][:3] + [m_mut.group(1)]       # one corruption
            m_cl = re.match(r"clen=(-?\d+)$", c.get("case", ""))
            if job["args"][0] == "companion" and m_cl:
                rep_args = job["args"][:3] + [m_cl.group(1)]        # one state of the companion file
            rp = {"argv": rep_args, "env": job["env"], "files": job.get("files", {}), "case": c["line"]}
            sigs = [(s, t) for s, t in c["viols"]] + [(leak_signature(s, c.get("fault")), l) for _, s, l in c["leaks"]]
            for sig, text in sigs:
                R.sigs.add(sig)
                ck.violation(sig, rp, "%s: %s [%s k=%s]" % (sig, text[:200], what, f.get("k")))
    for ab in res["aborts"]:
        rep_args = list(ab["args"])
        if job.get("kpos") is not None and ab["k"] is not None:
            rep_args[job["kpos"]] = str(ab["k"])
            rep_args[job["kpos"] + 1] = str(ab["k"])
        rp = {"argv": rep_args, "env": job["env"], "files": job.get("files", {}), "stderr": ab["stderr"]}
        R.bump("aborts")
        ck.violation(ab["sig"], rp, "harness aborted in %s at k=%s: %s" % (what, ab["k"], ab["sig"]))
        for s, t in ab.get("pending") or []:
            ck.violation(s, rp, "%s: %s [%s]" % (s, t[:200], what))
    tracked = any(c["leaks"] for c in res["cases"]) or any(pl for _, pl, _ in res["loose"])
    for sig in ([] if tracked else res["lsan"]):
        # only what the allocation tracker cannot see (FILE objects, libc-internal blocks); blocks it does
        # see were already reported above with their precise attribution
        ck.violation(sig, {"argv": job["args"], "env": job["env"], "files": job.get("files", {})},
                     "LeakSanitizer: block allocated at %s never freed [%s]" % (sig, what))
    for pv, pl, args in res["loose"]:
        for s, t in pv:
            if s == "leak:lsan":
                continue
            ck.violation(s, {"argv": args, "env": job["env"], "files": job.get("files", {})}, "%s: %s [%s]" % (s, t[:200], what))
        for _, s, l in pl:
            ck.violation(s, {"argv": args, "env": job["env"], "files": job.get("files", {})}, "%s [%s]" % (l[:200], what))


# --------------------------------------------------------------------------
# inputs
# --------------------------------------------------------------------------

WANTED_TYPES = [".med", "MED.", ".hmn", ".far", ".mod", ".xm", ".it", ".s3m", ".gz", ".mmcmp", "arc-", ".lha", ".zip", ".xz",
                ".bz2", ".Z", ".j2b", ".669", ".stm", ".mtm", ".okt", ".dbm", ".imf", ".ult", ".ptm", ".psm", ".mdl"]


def pick_modules(ck, n, maxsize):
    files = [f for f in vlib.corpus_files() if 200 < os.path.getsize(f) <= maxsize and not f.endswith((".data", ".txt"))]
    fixed = [f for f in files if "/test/test." in f]
    rest = [f for f in files if f not in fixed]
    ck.rng.shuffle(rest)
    # one per wanted type first (format diversity), then fill up
    chosen = []
    for t in WANTED_TYPES:
        for f in rest:
            if t.lower() in os.path.basename(f).lower() and f not in chosen:
                chosen.append(f)
                break
    for f in rest:
        if f not in chosen:
            chosen.append(f)
    return fixed + chosen[:max(0, n - len(fixed))]


def make_wav(path, nbytes=64, actual=None):
    """mono 8-bit WAV; `actual` < nbytes: the header promises more sample data than the file holds"""
    import struct
    data = bytes((i * 7) & 0xff for i in range(nbytes if actual is None else actual))
    hdr = b"RIFF" + struct.pack("<I", 36 + nbytes) + b"WAVEfmt " + struct.pack("<IHHIIHH", 16, 1, 1, 8000, 8000, 1, 8)
    open(path, "wb").write(hdr + b"data" + struct.pack("<I", nbytes) + data)


def make_helper_dir(d, mode, module):
    """a directory with fake `unrar` and `unmo3` programs: mode = fail | empty | garbage | module"""
    os.makedirs(d, exist_ok=True)
    for name in ("unrar", "unmo3"):
        p = os.path.join(d, name)
        if mode == "fail":
            body = "#!/bin/sh\nexit 3\n"
        elif mode == "empty":
            body = "#!/bin/sh\nexit 0\n"
        elif mode == "garbage":
            body = "#!/bin/sh\nhead -c 3000 /dev/zero | tr '\\0' 'x'\nexit 0\n"
        else:
            body = "#!/bin/sh\ncat '%s'\nexit 0\n" % module
        open(p, "w").write(body)
        os.chmod(p, os.stat(p).st_mode | stat.S_IXUSR | stat.S_IXGRP | stat.S_IXOTH)
    return d


# --------------------------------------------------------------------------
# the check
# --------------------------------------------------------------------------

def run(ck):
    gen = gen_c04.generate()
    gen_ctx_fields.generate()      # leaf list of struct context_data (C06's generator): harness/c06_ctxfields.h + Gen/CtxFields.lean
    ck.note("generated_flags", {k: gen[k] for k in ("virtOnFailZeroes", "smixLoadReleasesOld", "smixLoadEarlyWrites",
                                                    "reopenBailsOnCloseFailure")})
    ck.note("generated_unwinding_table", {k: gen[k] for k in ("startSites", "startLabels", "tempSites", "tempLabels")})
    ck.proofs(["XmpProps.C04"], required=REQUIRED, drivers=["drv_c04"])
    exe = build()
    quick = ck.tier == "quick"
    scratch = os.path.join(vlib.OUT, "c04-scratch-%d" % os.getpid())
    shutil.rmtree(scratch, ignore_errors=True)
    os.makedirs(scratch)
    R = Runner(ck, exe, scratch)
    try:
        _run(ck, R, exe, quick, scratch, gen)
    finally:
        shutil.rmtree(scratch, ignore_errors=True)


def _run(ck, R, exe, quick, scratch, gen=None):
    gen = gen or {}
    # ---- (T) the generated unwinding tables must satisfy the hypothesis of the theorems ----
    if ck.lean_ok:
        o = vlib.run_driver("drv_c04", "startcfg\n")[0]
        ck.note("model_tables", o)
        kv = dict(x.split("=", 1) for x in o.split(" "))
        if kv.get("sound") != "true":
            ck.unproved("C04_start_atomic hypothesis `startCfgNow.Sound`",
                        "the unwinding table generated from xmp_start_player is not sound at failure sites: " + kv.get("unsound_sites", "?"))
        if kv.get("tempsound") != "true":
            ck.unproved("C04_tempfile hypothesis `tempCfgNow.Sound`",
                        "the unwinding table generated from make_temp_file does not release what it acquired")

    if gen.get("smixLoadEarlyWrites"):
        ck.unproved("C04_smix_atomic model assumption: xmp_smix_load_sample writes the slot only when it commits",
                    "smix.c assigns %s before its last failure branch" % ", ".join(gen["smixLoadEarlyWrites"]))
    idle_bad = []
    if ck.lean_ok:
        o = vlib.run_driver("drv_c04", "idle\n")[0]
        ck.note("model_idle_after_failed_start", o)
        kv = dict(x.split("=", 1) for x in o.split(" "))
        idle_bad = [x.split(":")[0] for x in kv.get("idle", "").split(",") if x.endswith(":false")]

    mods = pick_modules(ck, 30 if quick else 400, 32000 if quick else 65536)
    ck.note("modules", [os.path.basename(m) for m in mods][:60])
    jobs = []

    def add(what, args, kpos=None, stride=1, env=None, **kw):
        d = R.job_dir()
        e = env(d) if callable(env) else base_env(d)
        jobs.append(dict(exe=exe, what=what, args=[str(a) for a in args], kpos=kpos, stride=stride, env=e, **kw))

    seed = ck.seed
    for i, m in enumerate(mods):
        bn = os.path.basename(m)
        size = os.path.getsize(m)
        # A. xmp_start_player, every allocation index; fresh (LOADED) and while PLAYING
        add("start:" + bn, ["faults", "start", ENTRIES[(i + seed) % 4], m, 0, -1, 1], kpos=4)
        if i % 3 == (seed % 3) or not quick:
            add("restart:" + bn, ["faults", "restart", "mem", m, 0, -1, 1], kpos=4)
        # B. load, every allocation index: quick = two entry points per module (rotating), thorough = all four
        ents = [ENTRIES[(i + seed + 1) % 4], ENTRIES[(i + seed + 3) % 4]] if quick else ENTRIES
        for e in ents:
            add("load:%s:%s" % (e, bn), ["faults", "load", e, m, 0, -1, 1], kpos=4)
        # C. test
        add("test:%s" % bn, ["faults", "test", ENTRIES[(i + seed + 2) % 4], m, 0, -1, 1], kpos=4)
        # D. truncation length classes
        lens = sorted({0, 1, 2, 99, 100, 101, 1023, 1024, 1025, size // 2, size - 1, size} |
                      {ck.rng.randrange(0, size) for _ in range(3 if quick else 12)})
        lens = [x for x in lens if 0 <= x <= size]
        for e in ([ENTRIES[(i + seed + 3) % 4]] if quick else ENTRIES):
            add("trunc:%s:%s" % (e, bn), ["trunc", e, m] + lens, malformed=True)
        # E. a stream that stops / errors at the j-th read call (callbacks)
        if i % 3 == ((seed + 1) % 3) or not quick:
            add("readfault:%s" % bn, ["readfault", m, 0, -1, max(1, size // (30 if quick else 300)), i % 2], malformed=True)
    # B'. thorough: the larger corpus files, about 120 fault indices spread over the load
    if not quick:
        big = [f for f in vlib.corpus_files() if 65536 < os.path.getsize(f) <= 1500000 and not f.endswith((".data", ".txt"))]
        for i, m in enumerate(big):
            add("load-big:%s" % os.path.basename(m), ["faults", "load", ENTRIES[(i + seed) % 4], m, 0, -1, -120, 2], kpos=4, timeout=1500)
        ck.note("big_modules", len(big))
    # A'. modules with channel extras (MED/HMN/FAR) and sound-effect channels reserved by xmp_start_smix: the
    #     extras loop of xmp_start_player then also covers the smix channels
    ext = [f for f in vlib.corpus_files() if re.search(r"(\.med|med\.|\.far|hmn|\.mmd)", os.path.basename(f), re.I)
           and 200 < os.path.getsize(f) <= 200000 and not f.endswith((".data", ".txt"))
           and not os.path.basename(f).startswith(("load_", "depack_"))]
    ck.rng.shuffle(ext)
    ext = ext[:4] if quick else ext
    for i, m in enumerate(ext):
        bn = os.path.basename(m)
        add("startsmix:" + bn, ["faults", "startsmix", ENTRIES[(i + seed) % 4], m, 0, -1, 1], kpos=4)
        add("start-extras:" + bn, ["faults", "start", "mem", m, 0, -1, 1], kpos=4)
    for m in mods[:6 if quick else 60]:
        add("startsmix:" + os.path.basename(m), ["faults", "startsmix", "mem", m, 0, -1, 1], kpos=4)
    ck.note("extras_modules", [os.path.basename(m) for m in ext][:20])
    # F. stream ownership scenarios
    garbage = os.path.join(scratch, "garbage.bin")
    open(garbage, "wb").write(bytes((i * 37 + 11) & 0xff for i in range(3000)))
    for m in mods[:3 if quick else 12]:
        add("own:" + os.path.basename(m), ["own", m, garbage])
    # G. external helper outcomes and temp files (files that start like a RAR / MO3 archive)
    rar = os.path.join(scratch, "fake.rar")
    open(rar, "wb").write(b"Rar!\x1a\x07\x00" + bytes(range(256)) * 2)
    mo3 = os.path.join(scratch, "fake.mo3")
    open(mo3, "wb").write(b"MO3\x05" + bytes(range(256)) * 2)
    good = [m for m in mods if "/test/test.xm" in m] or mods[:1]
    for arch in (rar, mo3):
        for mode in ("absent", "fail", "empty", "garbage", "module"):
            def env_fn(d, mode=mode):
                hd = os.path.join(d, "bin")
                os.makedirs(hd, exist_ok=True)
                if mode != "absent":
                    make_helper_dir(hd, mode, good[0])
                return base_env(d, path_prefix=hd)
            for op in ("load", "test"):
                add("helper:%s:%s:%s" % (os.path.basename(arch), mode, op), ["faults", op, "path", arch, 0, -1, 1], kpos=4,
                    env=env_fn, malformed=True)
        # temp directory missing / not writable: mkstemp fails for real
        add("tmpdir-missing:" + os.path.basename(arch), ["faults", "load", "path", arch, -1, 0, 1],
            env=lambda d: base_env(d, tmpdir=os.path.join(d, "does-not-exist")), malformed=True)
        add("tmpdir-missing-test:" + os.path.basename(arch), ["faults", "test", "path", arch, -1, 0, 1],
            env=lambda d: base_env(d, tmpdir=os.path.join(d, "does-not-exist")), malformed=True)
        # TMPDIR names a regular file (ENOTDIR) / the temp directory vanishes between the calls is the same path
        notdir = os.path.join(scratch, "tmp-is-a-file")
        open(notdir, "wb").write(b"x")
        for op in ("load", "test"):
            add("tmpdir-notdir:%s:%s" % (op, os.path.basename(arch)), ["faults", op, "path", arch, -1, 0, 1],
                env=lambda d: base_env(d, tmpdir=notdir), malformed=True)
        for which in (1, 2, 3, 11, 12, 13):
            add("tempfault%d:%s" % (which, os.path.basename(arch)), ["tempfault", arch, which], malformed=True)
    # H. smix
    wav = os.path.join(scratch, "s.wav")
    make_wav(wav)
    add("smixstart", ["faults", "smixstart", "mem", good[0], 0, -1, 1], kpos=4)
    add("smixload", ["faults", "smixload", "mem", good[0], 0, -1, 1, 6, wav], kpos=4)
    add("smixload-trunc", ["faults", "smixload", "mem", good[0], -1, 0, 1, 6, garbage], malformed=True)
    add("smix-restart", ["smix"])
    # H'. every smix call after its prelude, every allocation index; ledger traces for Resource.startSmix/...
    trunc = os.path.join(scratch, "trunc.wav")
    make_wav(trunc, 64, actual=10)
    for scn in SMIX_SCENARIOS:
        for m in (good[:1] + ext[:1]):
            add("smix:%s:%s" % (scn, os.path.basename(m)), ["smixfaults", scn, "mem", m, 0, -1, 1, wav, trunc, garbage], kpos=4)

    # I. closing reports an error: the j-th fclose of a load / test by path (plain, through the internal gzip
    #    depacker, through an external helper) for every j; a close callback returning -1
    import gzip
    gz = os.path.join(scratch, "mod.gz")
    open(gz, "wb").write(gzip.compress(open(good[0], "rb").read()))
    for op in ("load", "test"):
        add("closefault:%s:plain" % op, ["closefault", op, "path", good[0], "-"], malformed=True)
        add("closefault:%s:gz" % op, ["closefault", op, "path", gz, "m"], malformed=True)
        add("closefault:%s:cb" % op, ["closefault", op, "cb", good[0], "-"], malformed=True)

        def env_helper(d):
            hd = os.path.join(d, "bin")
            make_helper_dir(hd, "module", good[0])
            return base_env(d, path_prefix=hd)
        add("closefault:%s:helper" % op, ["closefault", op, "path", rar, "f"], env=env_helper, malformed=True)
    add("closefault:test:file-gz", ["closefault", "test", "file", gz, "m"], malformed=True)

    # K. header / table region of the core formats: EVERY truncation length (not a sample of cut points) and the
    #    every-allocation-fails schedule, over IT files with an edit-history and / or MIDI-configuration block
    #    (synthetic: tools/c04_inputs.py) and the smallest XM / IT / S3M / MOD files; live-block accounting per call
    core = c04_inputs.core_inputs(os.path.join(scratch, "core"))
    ck.note("core_inputs", [(os.path.basename(m), end) for m, end in core])
    for i, (m, end) in enumerate(core):
        bn = os.path.basename(m)
        ents = ["mem", ENTRIES[(i + seed) % 4]] if quick else ENTRIES
        for ei, e in enumerate(dict.fromkeys(ents)):
            lens = list(range(0, end + 1))
            if quick and ei > 0 and end > 3000:
                # the second entry point of the large inputs (the 4896-byte MIDI block is 153 identical 32-byte records):
                # every byte of the first and last 700, every record boundary +-1 and every 5th byte in between;
                # the `mem` sweep of the same file keeps every byte
                lens = sorted(set(range(0, 700)) | set(range(end - 700, end + 1)) | set(range(700, end - 700, 5)))
            add("sweep:%s:%s" % (e, bn), ["trunc", e, m] + lens, malformed=True)
            add("load:%s:%s" % (e, bn), ["faults", "load", e, m, 0, -1, 1], kpos=4)
        add("test:%s" % bn, ["faults", "test", ENTRIES[(i + seed + 2) % 4], m, 0, -1, 1], kpos=4)
        add("start:" + bn, ["faults", "start", "mem", m, 0, -1, 1], kpos=4)

    # L. archives that will not unpack - every refusal branch of the built-in depackers, not only truncation and
    #    allocation failure: well-formed archives of every container (writers of the C08/C09 stacks), liars, bombs and
    #    the smallest corpus archives, with every byte of the header region / trailer / known structure fields replaced
    #    (sizes that overshoot, overlapping blocks, method / flag bits, CRCs, table entries) + C09's fault generator;
    #    load and test by path and by FILE, live blocks / descriptors / temp files counted per call
    import random as _random
    import c09_archives
    arch = c04_inputs.archive_set(os.path.join(scratch, "arch"), quick)
    mrng = _random.Random(1000 + seed)
    nspec = 0
    for ai, (ap, fields) in enumerate(arch):
        data = open(ap, "rb").read()
        bn = os.path.basename(ap)
        if fields is None:
            for e in ("path", "file"):
                add("refuse-intact:%s:%s" % (e, bn), ["trunc", e, ap, len(data)], malformed=True)
            continue
        light = isinstance(fields, str)
        if light:
            # degenerate member (empty / one / two bytes): intact through every unpacking entry point, every cut, every
            # allocation of test (path, FILE) and load (path) failing - incl. the reopen of the handle on the unpacked data
            for e in ("path", "file"):
                add("degenerate-intact:%s:%s" % (e, bn), ["trunc", e, ap, len(data)], malformed=True)
            add("degenerate-sweep:%s" % bn, ["trunc", "path", ap] + list(range(0, len(data) + 1)), malformed=True)
            add("test:path:" + bn, ["faults", "test", "path", ap, 0, -1, 1], kpos=4)
            add("test:file:" + bn, ["faults", "test", "file", ap, 0, -1, 1], kpos=4)
            add("load:path:" + bn, ["faults", "load", "path", ap, 0, -1, 1], kpos=4)
            if fields == "light-mut":
                specs = c04_inputs.light_specs(data)
                nspec += len(specs)
                for e in ("path", "file"):
                    add("refuse:%s:%s:0" % (e, bn), ["mutate", e, ap] + specs, malformed=True)
            continue
        specs = c04_inputs.mutation_specs(data, fields, mrng, quick)
        if fields:
            a9 = {"data": data, "fields": {"f%d" % k: fl for k, fl in enumerate(fields)}}
            for f in c09_archives.gen_faults(a9, "quick", mrng, budget=(40, 20, 0) if quick else (600, 200, 0)):
                if f[0] == "flip":
                    specs.append("%d:%d" % (f[1], data[f[1]] ^ (1 << f[2])))
                elif f[0] == "sub":
                    specs.append("%d:%d" % (f[1], f[2]))
        specs = list(dict.fromkeys(specs))
        nspec += len(specs)
        bn = os.path.basename(ap)
        # quick: the FILE entry (xmp_test_module_from_file: same depackers on a handle that must not be closed) for a
        # rotating half of the archives
        for e in (("path", "file") if (not quick or ai % 2 == seed % 2) else ("path",)):
            for c0 in range(0, len(specs), 1500):
                add("refuse:%s:%s:%d" % (e, bn, c0), ["mutate", e, ap] + specs[c0:c0 + 1500], malformed=True)
        add("refuse-intact:%s" % bn, ["trunc", ENTRIES[(ai + seed) % 2 * 2], ap, len(data)], malformed=True)   # path / file
        if len(data) <= 4096:
            add("refuse-sweep:%s" % bn, ["trunc", "path", ap] + list(range(0, len(data) + 1)), malformed=True)
        # every allocation of the unpacking failing (test = unpack + probe: cheap) for every archive; the full load
        # and the FILE entry on a rotating quarter
        add("test:path:" + bn, ["faults", "test", "path", ap, 0, -1, 1], kpos=4)
        if ai % (4 if quick else 1) == seed % (4 if quick else 1):
            add("load:path:" + bn, ["faults", "load", "path", ap, 0, -1, 1], kpos=4)
            add("test:file:" + bn, ["faults", "test", "file", ap, 0, -1, 1], kpos=4)
    ck.note("refusal_archives", len(arch))
    ck.note("refusal_mutations", nspec)

    # M. multi-file formats: the module is intact, the COMPANION file the loader opens (Startrekker .nt/.NT/.as/.AS,
    #    MFP smp.*, external MED2/3/4, MOD and STM song instruments) is missing, a directory, empty, or cut at every
    #    byte of its head and at sampled lengths; plus every allocation failing while it is read; descriptors counted
    worlds = c04_inputs.companion_worlds(os.path.join(scratch, "comp"))
    ck.note("companion_worlds", [w["name"] for w in worlds])
    for w in worlds:
        csize = os.path.getsize(w["companion"])
        dense = 300 if quick else 4096
        lens = [csize, -1, -2] + list(range(0, min(csize, dense) + 1))
        if csize > dense:
            npts = 40 if quick else 400
            lens += sorted({dense + (csize - dense) * k // npts for k in range(1, npts)} | {csize - 1, csize - 2})
        envf = (lambda d, ip=w["inspath"]: dict(base_env(d), **({"XMP_INSTRUMENT_PATH": ip} if ip else {})))
        add("companion:" + w["name"], ["companion", w["module"], w["companion"]] + lens, env=envf, malformed=True,
            companion=w["name"])
    # every allocation failing while module + intact companion are loaded (own copies of the worlds: the jobs above
    # rewrite their companion files while they run)
    for w in c04_inputs.companion_worlds(os.path.join(scratch, "comp-alloc")):
        envf = (lambda d, ip=w["inspath"]: dict(base_env(d), **({"XMP_INSTRUMENT_PATH": ip} if ip else {})))
        add("load:path:companion:" + w["name"], ["faults", "load", "path", w["module"], 0, -1, 1 if not quick or
            os.path.getsize(w["companion"]) < 20000 else 3], kpos=4, env=envf)

    # N. one refused load per FORMAT, then another format in the same context: every module of the format collection
    #    test-dev/data/m (about 150 formats, many of them packed) is cut at ~30 lengths of its UNPACKED stream (what the
    #    format loader reads: cutting the packed file only exercises the depacker), loaded from memory, refused, and the
    #    reference modules must then load and render as in a fresh context (per-module tables, extras, quirks, MIDI
    #    macros, comments a loader installs before it fails must not survive)
    fdir = os.path.join(vlib.REPO, "test-dev", "data", "m")
    fmods = sorted(f for f in (os.path.join(fdir, x) for x in os.listdir(fdir))
                   if os.path.isfile(f) and 64 <= os.path.getsize(f) <= (400000 if quick else 4000000)) if os.path.isdir(fdir) else []
    flens = [16, 64, 128, 256, 512, 850, 1024, 1084, 1500, 2048, 3000, 4096, 8192] + ["p%d" % k for k in range(40, 1000, 48 if quick else 12)] + ["p995"]
    for fm in fmods:
        add("format-cut:" + os.path.basename(fm), ["trunc", "umem", fm] + flens, malformed=True)
    ck.note("format_collection_modules", len(fmods))

    # J. rescans on a live context: xmp_set_player(MODE / CFLAGS) while playing, xmp_scan_module loaded and playing
    resc = [m for m in mods if re.search(r"\.(mod|xm|it|s3m)$", m, re.I)][:4 if quick else 40]
    for m in resc + ([os.path.join(vlib.REPO, "test-dev", "data", "ode2ptk.mod")] if quick else []):
        if not os.path.exists(m):
            continue
        bn = os.path.basename(m)
        add("rescan:mode:" + bn, ["rescan", "mode", 1, m, 0, -1, 1], kpos=4)
        add("rescan:cflags:" + bn, ["rescan", "cflags", 1, m, 0, -1, 1], kpos=4)
        add("rescan:scan:" + bn, ["rescan", "scan", 0, m, 0, -1, 1], kpos=4)
        add("rescan:scan-playing:" + bn, ["rescan", "scan", 1, m, 0, -1, 1], kpos=4)

    import time as _time
    jobs = split_long_jobs(R, jobs)
    results = vlib.pmap(run_faults_job, jobs)
    t_fold = _time.time()
    for res in results:
        fold(R, res)
    ck.note("slowest_jobs", sorted(((round(r.get("t1", 0) - r.get("t0", 0), 1), r["job"]["what"]) for r in results), reverse=True)[:12])
    ck.note("fold_seconds", round(_time.time() - t_fold, 1))
    for k, v in sorted(R.stats.items()):
        ck.note(k, v)
    ck.note("jobs", len(jobs))

    # the companion search is only worth something where the loader really opens the second file
    ck.note("companion_fopens_with_intact_companion", dict(sorted(R.companions.items())))
    opened = [k for k, v in R.companions.items() if v >= 2]
    if len(opened) < 5 or not any(k.startswith("flt") for k in opened) or "mfp" not in opened:
        ck.unproved("search coverage: multi-file formats",
                    "the loaders opened a companion file in only these worlds: %s" % ", ".join(sorted(opened)))

    # the hypothesis of C04_failed_start_wf / C04_reusable_reload_view on the generated table and flag: where it is
    # false the model predicts stale player members after a failed start (theorem C04_virt_counts_residue); the
    # harness oracle `residue:*` then reports the real thing - if it did not, model and code disagree
    if idle_bad and not any(x.startswith("residue:") for x in R.sigs):
        ck.unproved("C04_failed_start_wf hypothesis `idleAfter startCfgNow site vfrNow`",
                    "false at failure sites %s although the real code showed no residue there" % ",".join(idle_bad))

    # ---- (C) correspondence: ledgers of the real code vs the model ----
    correspondence(ck, R)

    ck.cov["rule"] = ("case = (operation, entry point, input file or malformed variant, fault index k / truncation length / "
                      "failing read index / helper outcome); distinct by that tuple; non-trivial = the injected fault fired and the "
                      "call returned an error (an error path really ran), or a malformed input was rejected")
    ck.assumptions += [
        "allocation failures are injected at link level (--wrap): only allocator calls made from libxmp objects fail, libc-internal "
        "allocations (fopen buffers) never do",
        "fclose() failures of library-owned FILEs and a failing user close callback are injected (closefault); fork/pipe "
        "failures and signals are not",
        "model: count fields do not exceed the allocated table length and no block is referenced twice when xmp_release_module runs "
        "(the harness checks both on every release it observes)",
    ]


def correspondence(ck, R):
    if not ck.lean_ok:
        return
    starts, rels, smixes, closes, rescans, rescan_base = {}, {}, {}, {}, {}, {}
    for t in R.traces:
        if t.startswith("trace rescan "):
            kv = dict(x.split("=", 1) for x in t.split(" ")[2:] if "=" in x)
            if kv["k"] == "-1":
                rescan_base[(kv["which"], kv["playing"], kv["file"])] = (int(kv["n"]) - 1 - int(kv["shrink"]), kv["shrink"])
    for t in R.traces:
        if t.startswith("fcase "):
            continue
        f = t.split(" ")
        kv = dict(x.split("=", 1) for x in f[2:] if "=" in x)
        if f[1] == "start":
            key = "start %s %s %s %s %s %s" % (kv["amiga"], kv["extras"], kv["maxvoc"], kv["virtch"], kv["playing"], kv["k"])
            starts.setdefault(key, set()).add("rc=%s state=%s nalloc=%s live=%s" % (kv["rc"], kv["state"], kv["nalloc"], kv["live"]))
        elif f[1] == "start2":
            key = "start2 %s %s %s %s %s %s" % (kv["amiga"], kv["extras"], kv["maxvoc"], kv["virtch"], kv["k"], kv["k2"])
            starts.setdefault(key, set()).add("rc=%s state=%s nalloc=%s live=%s" % (kv["rc"], kv["state"], kv["nalloc"], kv["live"]))
        elif f[1] == "rescan":
            vbl, bshrink = rescan_base.get((kv["which"], kv["playing"], kv["file"]), (None, None))
            if vbl not in (0, 1):
                if kv["n"] != "0":
                    ck.unproved("correspondence Resource.scanSequences vs libxmp_scan_sequences",
                                "the unfaulted rescan of %s makes an unexpected number of allocator calls (%s)" % (kv["file"], vbl))
                continue
            if kv["which"] == "0":
                # xmp_set_player(XMP_PLAYER_MODE): parameters of the rescan under the new mode from the unfaulted call,
                # of the rescan under the old mode from the unfaulted xmp_scan_module the harness ran before
                vold = int(kv["nold"]) - 1 - int(kv["shrinkold"])
                if vold not in (0, 1):
                    ck.unproved("correspondence Resource.setPlayerMode vs xmp_set_player",
                                "the rescan of %s under the old mode makes %s allocator calls" % (kv["file"], kv["nold"]))
                    continue
                key = "rescanmode %d %s %d %s %s" % (vbl, bshrink, vold, kv["shrinkold"], kv["k"])
                rescans.setdefault(key, set()).add("rc=%s n=%s owned=%s other=%s mode=%s" % (
                    kv["rc"], kv["n"], kv["owned"], kv["other"], kv["mode"]))
                continue
            key = "rescan %d 1 %s %s" % (vbl, kv["shrink"], kv["k"])
            rescans.setdefault(key, set()).add("n=%s owned=%s other=%s" % (kv["n"], kv["owned"], kv["other"]))
        elif f[1] == "closefail":
            # an external-helper step also fcloses the pipe from the helper (execute_command; not a stream of the
            # model, its result is ignored): it is the first fclose of the call
            steps = kv["steps"].replace("-", "")
            npipe = steps.count("f")
            j = int(kv["j"])
            mj = "none" if j < npipe else str(j - npipe)
            key = "closefail %s %s %s" % (kv["entry"], mj, " ".join(steps))
            closes.setdefault(key.strip(), set()).add("fcloses=%d caller=%s" % (int(kv["fcloses"]) - npipe, kv["caller"]))
        elif f[1] == "smix":
            key = "smix %s %s" % (kv["scn"], kv["k"])
            smixes.setdefault(key, set()).add(" ".join("%s=%s" % (x, kv[x]) for x in (
                "rc", "nalloc", "xxi", "xxs", "chn", "ins", "subs", "datas", "live", "lost", "fds")))
        elif f[1] == "release":
            key = "release 0 %s" % kv["owned"]
            rels.setdefault(key, set()).add("freed=%s twice=%s missed=%s nonnull_after=%s state=%s" % (
                kv["freed"], kv["twice"], kv["missed"], kv["nonnull_after"], kv["state"]))
    keys = sorted(starts) + sorted(rels) + sorted(smixes) + sorted(closes) + sorted(rescans)
    if not keys:
        ck.unproved("correspondence Resource vs C", "the harness produced no ledger traces")
        return
    outs = vlib.run_driver("drv_c04", "\n".join(keys) + "\n")
    n_ok = 0
    for key, mo in zip(keys, outs):
        real = starts.get(key) or rels.get(key) or smixes.get(key) or closes.get(key) or rescans.get(key)
        mo_c = re.sub(r" bad=\d+$", "", mo)
        if key.startswith("rescanmode "):
            # a module already in the target mode cannot tell old from new: take the model's word for `mode`
            mmode = re.search(r"mode=(\w+)", mo_c).group(1)
            real_n = {x.replace("mode=any", "mode=" + mmode) for x in real}
            if real_n != {mo_c} or not mo.endswith(" bad=0"):
                ck.unproved("correspondence Resource.setPlayerMode vs xmp_set_player(XMP_PLAYER_MODE)",
                            "case `%s`: real=%s model=%s" % (key, sorted(real), mo))
            else:
                n_ok += 1
            continue
        if key.startswith("rescan "):
            if real != {mo_c} or not mo.endswith(" bad=0"):
                ck.unproved("correspondence Resource.scanSequences vs libxmp_scan_sequences (rescan on a live context)",
                            "case `%s`: real=%s model=%s" % (key, sorted(real), mo))
            else:
                n_ok += 1
            continue
        if key.startswith("closefail "):
            mkv = dict(x.split("=", 1) for x in mo.split(" "))
            want = "fcloses=%s caller=%s" % (mkv["fcloses"], mkv["caller"])
            if real != {want} or mkv["live"] != "0" or mkv["fds"] != "0":
                ck.unproved("correspondence Resource.streamLifeR vs hio_reopen_*/hio_close (close failures)",
                            "case `%s`: real=%s model=%s" % (key, sorted(real), mo))
            else:
                n_ok += 1
            continue
        if key.startswith("smix "):
            if real != {mo_c} or not mo.endswith(" bad=0"):
                ck.unproved("correspondence Resource.startSmix/smixLoadSample/endSmix vs smix.c",
                            "case `%s`: real=%s model=%s" % (key, sorted(real), mo))
            else:
                n_ok += 1
            continue
        if key.startswith("start") and " bad=0" not in mo:
            # the model itself predicts an invalid free on the current table: surfaces as unsound table / real abort
            pass
        if real != {mo_c}:
            ck.unproved("correspondence Resource.%s vs %s" % ("startPlayer" if key.startswith("start") else "releaseModule",
                                                              "xmp_start_player" if key.startswith("start") else "xmp_release_module"),
                        "case `%s`: real=%s model=%s" % (key, sorted(real), mo_c))
        else:
            n_ok += 1
    # callbacks refused by cbopen / size probe failing in hio_open_callbacks: close count and residue
    own = {}
    for n in R.own_notes:
        kv = dict(x.split("=", 1) for x in n.split(" ")[1:] if "=" in x)
        m = re.match(r"cbopen_refuse(\d)", kv.get("scenario", ""))
        if not m or "residue" not in kv:
            continue
        i = int(m.group(1))
        key = "stream cb %d 1 %d -1" % (0 if i < 3 else 1, 1 if i < 3 else 0)
        own.setdefault(key, set()).add("opened=0 cb=%s live=%s" % (kv["closes"], kv["residue"]))
    if own:
        okeys = sorted(own)
        oo = vlib.run_driver("drv_c04", "\n".join(okeys) + "\n")
        for key, mo in zip(okeys, oo):
            mkv = dict(x.split("=", 1) for x in mo.split(" "))
            want = "opened=%s cb=%s live=%s" % (mkv["opened"], mkv["cb"], mkv["live"])
            if own[key] != {want}:
                ck.unproved("correspondence Resource.hioOpenCallbacks vs hio_open_callbacks/cbopen",
                            "case `%s`: real=%s model=%s" % (key, sorted(own[key]), want))
            else:
                n_ok += 1
    ck.note("callback_open_failures_compared", len(own))
    n_ok += correspondence_images(ck, R)
    ck.cov["traces_validated_against_impl"] += n_ok
    ck.note("smix_ledgers_compared", len(smixes))
    ck.note("close_failure_cases_compared", len(closes))
    ck.note("rescan_ledgers_compared", len(rescans))
    ck.note("start_ledgers_compared", len(starts))
    ck.note("release_ledgers_compared", len(rels))


def correspondence_images(ck, R):
    """member-level: the complete image of struct context_data after every failed xmp_start_player the harness
    produced vs XmpModel.StartFail.failedStart evaluated on the image before the call"""
    blocks = sorted(set(t for t in R.traces if t.startswith("fcase ")))
    if not blocks:
        ck.unproved("correspondence StartFail.failedStart vs xmp_start_player", "the harness produced no failed-start images")
        return 0
    n_ok, n_vals, n_ext, sites = 0, 0, 0, {}
    CH = 60
    for c0 in range(0, len(blocks), CH):
        chunk = blocks[c0:c0 + CH]
        text = []
        for i, b in enumerate(chunk):
            ls = b.split("\n")
            h = ls[0].split(" ")
            h[1] = "c%d" % i
            text.append(" ".join(h))
            text += [l for l in ls[1:] if not l.startswith("post ")]
        out = vlib.run_driver("drv_c04", "\n".join(text) + "\n", timeout=900)
        model, cur = {}, None
        for l in out:
            f = l.split(" ")
            if f[0] == "begin":
                cur = model.setdefault(f[1], {"site": f[2], "second": f[3], "m": {}})
            elif f[0] == "model" and cur is not None:
                cur["m"][f[1]] = f[2:]
        for i, b in enumerate(chunk):
            ls = b.split("\n")
            real = {}
            for l in ls[1:]:
                f = l.split(" ")
                if f[0] == "pre":
                    real[f[1]] = f[2:]
            for l in ls[1:]:
                f = l.split(" ")
                if f[0] == "post":
                    real[f[1]] = f[2:]
            m = model.get("c%d" % i)
            if m is None or m["site"] == "none":
                ck.unproved("correspondence StartFail.siteOf vs xmp_start_player",
                            "case `%s`: the model has no failure site for this allocation index" % ls[0])
                continue
            sites[m["site"]] = sites.get(m["site"], 0) + 1
            bad = None
            for ctor, mv in m["m"].items():
                rv = real.get(ctor)
                if rv is None:
                    bad = (ctor, "missing in the real image")
                    break
                for k, (a, bq) in enumerate(zip(mv, rv)):
                    if a == "?":
                        n_ext += 1
                        continue
                    n_vals += 1
                    if a != bq:
                        bad = (ctor, "index %d model %s real %s" % (k, a, bq))
                        break
                if bad:
                    break
            if bad:
                ck.unproved("correspondence StartFail.failedStart vs xmp_start_player (member level)",
                            "case `%s` site %s/%s: member %s: %s" % (ls[0], m["site"], m["second"], bad[0], bad[1]))
            else:
                n_ok += 1
    ck.note("failed_start_images_compared", len(blocks))
    ck.note("failed_start_image_sites", sites)
    ck.note("failed_start_member_values_compared", n_vals)
    ck.note("failed_start_member_values_external", n_ext)
    return n_ok


def replay(ck, rp):
    exe = build()
    r = rp["replay"]
    env = dict(r.get("env") or {})
    scratch = os.path.join(vlib.OUT, "c04-replay-%d" % os.getpid())
    shutil.rmtree(scratch, ignore_errors=True)
    os.makedirs(os.path.join(scratch, "tmp"))
    # paths of the recording run's scratch directory are re-created here
    old = env.get("C04_SCRATCH")
    argv = list(r["argv"])
    if old:
        root = os.path.dirname(old)
        env = {k: v.replace(old, scratch).replace(root, scratch) for k, v in env.items()}
        argv = [a.replace(old, scratch).replace(root, scratch) for a in argv]
        # regenerate the synthetic inputs the job may refer to
        open(os.path.join(scratch, "fake.rar"), "wb").write(b"Rar!\x1a\x07\x00" + bytes(range(256)) * 2)
        open(os.path.join(scratch, "fake.mo3"), "wb").write(b"MO3\x05" + bytes(range(256)) * 2)
        open(os.path.join(scratch, "garbage.bin"), "wb").write(bytes((i * 37 + 11) & 0xff for i in range(3000)))
        make_wav(os.path.join(scratch, "s.wav"))
        make_wav(os.path.join(scratch, "trunc.wav"), 64, actual=10)
        c04_inputs.core_inputs(os.path.join(scratch, "core"))
        c04_inputs.archive_set(os.path.join(scratch, "arch"), True)
        c04_inputs.companion_worlds(os.path.join(scratch, "comp"))
        c04_inputs.companion_worlds(os.path.join(scratch, "comp-alloc"))
        import gzip
        open(os.path.join(scratch, "mod.gz"), "wb").write(gzip.compress(open(os.path.join(vlib.REPO, "test", "test.xm"), "rb").read()))
        if "PATH" in env:
            hd = env["PATH"].split(":")[0]
            m = re.search(r"helper:[^:]+:(\w+):", rp.get("what", ""))
            if m and m.group(1) != "absent":
                make_helper_dir(hd, m.group(1), os.path.join(vlib.REPO, "test", "test.xm"))
    rc, out, err = vlib.run_exe(exe, argv, env=env, timeout=900)
    text = out.decode("latin-1")
    print(text[-3000:])
    print(err[-3000:])
    shutil.rmtree(scratch, ignore_errors=True)
    bad = rc != 0 or any(l.startswith(("viol ", "leak ")) for l in text.splitlines())
    if bad:
        print("VIOLATION property=C04 replay=(see above) signature=%s" % rp.get("signature"))
    return 1 if bad else 0
