"""C02 — work and memory are bounded by real input size, never by declared sizes.

proof  : XmpProps.C02 (mixer segment loop ≤ 2·ticksize iterations and ≤ ticksize samples per voice and tick for
         every behaviour of the voice logic; depacker growth rule; generated list of depacker ceilings; work bounds
         and output ceilings of every modelled depacker loop — XmpModel/WorkBound.lean, XmpProofs/WorkBound*.lean;
         IFF chunk walker progress; core-loader loop totals)
tie    : translator tools/gen_depack_limits.py (allocation sites + ceiling tokens per depacker, value of
         LIBXMP_DEPACK_LIMIT / MAX_SAMPLE_SIZE) regenerated on every run; kernel-call counts observed by
         harness/c01_window.c (samples per call ≤ tick size); IFF walker: harness/c02_iff.c (iff.c with recording
         hio wrappers) vs lean/Drv/C02.lean on generated chunked files (tools/c02_iff.py)
oracle : harness/c02_play.c on the uninstrumented build: (a) generated modules whose restart position / jump targets /
         order tails are pattern-less or marker orders (XM restart field, MOD restart byte, IT and S3M markers and Bxx),
         IT row-delay modules and one small corpus file per recognised format are loaded and PLAYED until two passes
         are complete, under an alarm and a CPU limit; (b) truncation sweep: the smallest corpus file of every
         recognised format (~90), memory test + load of every prefix 0..768, every 5th up to 4096 and 200 lengths
         spread over the rest (thorough: every prefix up to 64 KiB + 4000 spread); (c) Unreal packages with boundary
         counts / lengths / offsets, unmodified, through the memory and callback entry points
meters : harness/c02_play.c built with WRAP_METERS (allocator and hio read functions wrapped at link level): `meter` and
         `fields` modes, see MANIFEST text
search : harness/c01_fuzz.c in `res` mode on an uninstrumented -O1 build with a wrapped allocator: CPU time,
         peak live heap and the biggest single request per case, on mutated corpus files (length/count fields
         inflated, truncations, splices) and on generated decompression bombs (gzip, zip, xz, bzip2)
"""
import bz2
import lzma
import os
import re
import struct
import zlib
import vlib
import gen_depack_limits
import random
import shutil
import synthmods
import liars
import c02_gens
import c02_iff

LEVEL = "proof"
MANIFEST = dict(
    category="proof",
    text="PARTIAL. Proved in Lean 4 (XmpProps.C02), for every input byte string: (1) every loop of the modelled depackers is a "
         "counted step function proved equal to its C08/C09 model, every continuing iteration makes progress, so the loop ends by itself "
         "within bytes/k + 1 iterations and the model's fuel never decides: ARC/Spark entry walk (k=2), ArcFS entry table (36, count "
         "backed by bytes), LZX entries (31), xz VLI (<= 9 bytes) / block loop (8) / Index record count, zip EOCD search window "
         "(<= 69650 bytes), zip64 extra walk (4), central directory loop (46 per record whatever count is declared), gzip header "
         "fields, compress(1) LZW code loop (<= 2*(8n/9)+1), PowerPacker count groups and main loop (>= 2 output bytes per iteration), "
         "LHA skip_sfx / extended headers / null decoder / member walk (22), MMCMP tables, RLE90; (2) output ceilings: arc_unpack is never "
         "asked for more than the ceiling (ARC, ArcFS), LZX merged totals, LHA and MMCMP outputs <= LIBXMP_DEPACK_LIMIT (the generated "
         "constant), PowerPacker output = its 24-bit length field, RLE90 output = the sized buffer; (3) the IFF chunk walker "
         "(libxmp_iff_load: all flags, id sizes, registered loaders, declared lengths up to 2^32-1) moves forward by a whole chunk header "
         "per iteration, hence <= size/(id_size+4) + 1 loop tests; the UMX name-table walk (read_typname) advances >= 5 bytes per "
         "iteration inside the file whatever index/count is declared; the scan's per-row visit counter saturates (a visited row never "
         "looks unvisited again under any number of row delays); (4) the four core loaders' loop trip totals for validated header counts "
         "are below one fixed ceiling and sample loads consume/allocate in proportion to the bytes present; (5) the softmixer's segment loop "
         "<= 2*ticksize iterations, next_order / play_frame / set_position / scan terminate, tick size bound, depacker growth rule and the "
         "generated list of ceiling sites (now including uncompress.c). CPU time and memory of the ~110 format parsers' bodies and of the "
         "entropy decoders (inflate, LZMA2, bzip2 BWT/Huffman, LZX/LHA/ARC bit coders, MMCMP bit coder) are MEASURED, not proved: per case "
         "CPU seconds, peak live heap and largest single request on mutated corpus inputs, declared-size liars and generated decompression "
         "bombs (gzip, xz, bzip2, compress code-stream bombs, MMCMP rewrite bomb), against limits proportional to the bytes supplied plus "
         "the fixed ceilings; in addition every truncation point of one small file per recognised format (~90 formats) is loaded, and "
         "generated restart-position / marker-order / row-delay modules plus one file per format are played through their end twice, "
         "under an alarm and the CPU limit; heap and read-work meters (peak live heap, reads made with the stream already at its end, "
         "hard stop at 48 Mi such reads) run on unmodified IFF-family files extended by thousands of repeated zero/4-byte chunks of every id "
         "the file uses, on every synthetic module, and on a field sweep (one 32-bit field = 2^31-1 / 2^32-1 at every offset of small "
         "files, the first/last KiB and behind every header pointer of larger ones). Every metered file goes through three entry points "
         "(memory, FILE handle = data-on-request paths, by path = the one that unpacks). Further unmodified-input oracles: `reloc` sweep "
         "(plausible header offsets / offset-table runs moved by one large constant); XM with OpenMPT-style extension blocks of every "
         "known id under the field sweep; MMCMP empty-sub-block bomb in the search; a module packed 1..1000 times over in stored "
         "MMCMP / gzip / zip / LHA / ARC, by path with a 1 MiB stack (one level loads, deeper is -XMP_ERROR_FORMAT at once), backed by the "
         "generated call-graph fact C02_decrunch_one_level (libxmp_decrunch never calls back into itself); hostile 9-bit LZW code "
         "streams (undefined / self-referential entries, CLEAR + KwKwK) in ARC crunch/squash, Spark and ArcFS 12/13/16 bits, .Z 9/12/16.",
    note="Trusted: Lean kernel; the C08/C09/C03/C20 models the work theorems are stated over (their ties to the C are the correspondences of "
         "those checks: the step functions of XmpModel/WorkBound.lean are proved equal to them, no new trust); model XmpModel/IffWalk.lean "
         "(tied here: harness/c02_iff.c compiles iff.c with recording hio wrappers and compares return value, number of loop tests and every "
         "chunk's position/id/loader size/seek target with lean/Drv/C02.lean on 6000 generated chunked files per quick run, memory and FILE "
         "back-ends; LP64 `long` arithmetic assumed, files below 2 GiB); model XmpModel/UmxWalk.lean (tied here: harness/c02_umx.c calls the "
         "real read_typname on 3000 generated name tables per quick run, both back-ends: return value, iteration count, name); "
         "model XmpModel/MixLoop.lean; translator; allocator wrapper; thresholds "
         "(cpu <= 10 s + 2 us/byte; peak heap <= 48 MiB + 64 x bytes and single request <= 8 MiB + 64 x bytes for plain modules, <= 2.2 x "
         "LIBXMP_DEPACK_LIMIT + 256 MiB for packed inputs). Not modelled: the LZW string-table walk bound (prefix < code invariant), the output "
         "ceiling of decrunch_compress (model Lzw has no growth; ceiling covered by the generated site list and the code-stream bombs), xz "
         "XZ_MAX_OUTPUT, miniz allocation caps, per-iteration cost of loader bodies. Scan / set_position / tick-size / sample-allocation bounds "
         "are proved under C18, C17, C16, C20 and re-exported (Xmp.C02.C02_next_order_terminates, C02_play_frame_returns, "
         "C02_set_position_terminates, C02_scan_terminates, C02_ticksize_bound, C02_sample_alloc_le); their model-to-code ties remain those "
         "of the owning checks. The OrdWF hypothesis of C02_next_order_terminates / C02_play_frame_returns (every kept sequence reaches a "
         "pattern) is not derived from the loader + scan (libxmp_scan_sequences is not modelled): it is monitored by C16 on every loaded "
         "module and, for its two disjuncts visible through the public API, by harness/c02_play.c on every module played here.",
    technique="Lean 4 proofs of loop progress / work bounds over the executable depacker and IFF models + generated ceiling list + "
              "model-vs-real correspondence for the IFF walker + measured CPU/heap search",
    design_ref="DESIGN.md section 4 C02",
)
REQUIRED = ["Xmp.MixLoop.C02_mixer_iterations", "Xmp.MixLoop.C02_mixer_samples", "Xmp.MixLoop.C02_grow_capped",
            "Xmp.MixLoop.C02_depack_limit_sites", "Xmp.MixLoop.C02_depack_limit_value", "Xmp.MixLoop.C02_decrunch_one_level",
            # termination / size theorems re-exported from their owners (C16, C17, C18, C20) in C02's vocabulary
            "Xmp.C02.C02_next_order_terminates", "Xmp.C02.C02_play_frame_returns", "Xmp.C02.C02_set_position_terminates",
            "Xmp.C02.C02_scan_terminates", "Xmp.C02.C02_ticksize_bound", "Xmp.C02.C02_sample_alloc_le",
            # decoders and container walkers as bounded-work functions (counted step functions proved equal to the C08/C09 models)
            "Xmp.C02.C02_depack_limit_models", "Xmp.C02.C02_arc_work", "Xmp.C02.C02_arc_ceiling", "Xmp.C02.C02_arcfs_work",
            "Xmp.C02.C02_lzx_work", "Xmp.C02.C02_xz_work", "Xmp.C02.C02_zip_work", "Xmp.C02.C02_gzip_header",
            "Xmp.C02.C02_lzw_work", "Xmp.C02.C02_pp_work", "Xmp.C02.C02_lha_work", "Xmp.C02.C02_lha_ceiling",
            "Xmp.C02.C02_mmcmp_bounds", "Xmp.C02.C02_rle90_len",
            # core loaders: loop trip totals are one fixed ceiling, sample reads bounded by bytes present (corollary of C03 / C20)
            "Xmp.C02.C02_core_loader_work",
            # IFF chunk walker (own model XmpModel/IffWalk.lean, tied by harness/c02_iff.c + lean/Drv/C02.lean)
            "Xmp.C02.C02_iff_progress", "Xmp.C02.C02_iff_terminates",
            # UMX name-table walk (XmpModel/UmxWalk.lean, tied by harness/c02_umx.c) and the scan's saturating visit counter
            "Xmp.C02.C02_umx_names_terminate", "Xmp.C02.C02_scan_visit_counter_saturates"]

PACKED_EXT = (".gz", ".bz2", ".xz", ".zip", ".lha", ".lzh", ".z", ".arc", ".lzx", ".mmcmp", ".pp", ".xpk", ".sqsh", ".itz",
              ".mdz", ".s3z", ".xmz", ".j2b", ".muse", ".s404", ".arcfs", ".spark", ".zst", ".7z", ".rar", ".mo3")


def is_packed(path):
    low = path.lower()
    if low.endswith(PACKED_EXT):
        return True
    try:
        h = open(path, "rb").read(8)
    except OSError:
        return False
    return (h[:2] in (b"\x1f\x8b", b"\x1f\x9d", b"BZ", b"PK", b"PP") or h[:4] in (b"PP20", b"XPKF", b"ziRC", b"S404", b"MUSE", b"LZX\0")
            or h[:6] == b"\xfd7zXZ\0" or h[2:5] == b"-lh" or h[:1] == b"\x1a")


def zeros_stream(total, chunk=1 << 22):
    z = bytes(chunk)
    while total > 0:
        n = min(total, chunk)
        yield z[:n]
        total -= n


def make_bombs(dirname, quick):
    """Decompression bombs made with independent encoders; a MOD-like header first so that the payload is plausible."""
    os.makedirs(dirname, exist_ok=True)
    out = []
    head = b"bomb" + bytes(1076) + b"M.K." + bytes(1024)
    sizes = [(40 << 20, "40M"), (700 << 20, "700M")] if quick else [(40 << 20, "40M"), (700 << 20, "700M"), (2200 << 20, "2200M")]
    for total, tag in sizes:
        p = os.path.join(dirname, "bomb-%s.gz" % tag)
        if not os.path.exists(p):
            co = zlib.compressobj(9, zlib.DEFLATED, 31)
            with open(p + ".tmp", "wb") as f:
                f.write(co.compress(head))
                for ch in zeros_stream(total):
                    f.write(co.compress(ch))
                f.write(co.flush())
            os.rename(p + ".tmp", p)
        out.append(p)
    # zip (deflate) with a huge declared uncompressed size but tiny data, and xz / bz2 of 64 MiB zeros
    p = os.path.join(dirname, "bomb-64M.xz")
    if not os.path.exists(p):
        c = lzma.LZMACompressor(format=lzma.FORMAT_XZ, check=lzma.CHECK_CRC32, preset=1)
        with open(p + ".tmp", "wb") as f:
            f.write(c.compress(head))
            for ch in zeros_stream(64 << 20):
                f.write(c.compress(ch))
            f.write(c.flush())
        os.rename(p + ".tmp", p)
    out.append(p)
    p = os.path.join(dirname, "bomb-24M.bz2")
    if not os.path.exists(p):
        c = bz2.BZ2Compressor(9)
        with open(p + ".tmp", "wb") as f:
            f.write(c.compress(head))
            for ch in zeros_stream(24 << 20):
                f.write(c.compress(ch))
            f.write(c.flush())
        os.rename(p + ".tmp", p)
    out.append(p)
    # gzip member whose ISIZE trailer lies (declares 4 GiB-1 for 1 KiB of data)
    p = os.path.join(dirname, "liar-isize.gz")
    if not os.path.exists(p):
        co = zlib.compressobj(9, zlib.DEFLATED, -15)
        body = co.compress(head) + co.flush()
        with open(p, "wb") as f:
            f.write(b"\x1f\x8b\x08\x00\0\0\0\0\0\x03" + body + struct.pack("<II", zlib.crc32(head) & 0xffffffff, 0xffffffff))
    out.append(p)
    # compress(1) code-stream bombs (no payload is compressed: the codes are written directly, code k expands to k bytes):
    # 122 657 bytes standing for 2 130 706 560, and 400 more copies of the longest code (past INT_MAX) — the two
    # witnesses of the missing ceiling in decrunch_compress (fixed in /repo d19762f); a 450 MB one that still unpacks
    for ncodes, extra, tag in ((65279, 0, "2030M"), (65280, 400, "2055M"), (30000, 0, "450M")):
        p = os.path.join(dirname, "bomb-%s.Z" % tag)
        if not os.path.exists(p):
            with open(p + ".tmp", "wb") as f:
                f.write(c02_gens.compress_code_bomb(ncodes, extra)[0])
            os.rename(p + ".tmp", p)
        out.append(p)
    # MMCMP whose 65535 block-table entries all name the same stored 4 MiB block (fixed in /repo 353a4b5: total output budget)
    p = os.path.join(dirname, "rewrite-4M.mmcmp")
    if not os.path.exists(p):
        with open(p + ".tmp", "wb") as f:
            f.write(c02_gens.mmcmp_rewrite_bomb(4 << 20))
        os.rename(p + ".tmp", p)
    out.append(p)
    # MMCMP: 20000 block-table entries naming one stored block of 20000 EMPTY sub-blocks: no output, so the output budget is
    # never used, but every entry re-reads the sub-block table (fixed by the sub-block count budget)
    p = os.path.join(dirname, "emptysub-20000.mmcmp")
    if not os.path.exists(p):
        with open(p + ".tmp", "wb") as f:
            f.write(c02_gens.mmcmp_empty_subblock_bomb(20000, 20000))
        os.rename(p + ".tmp", p)
    out.append(p)
    return out


def run_intact_group(args):
    """files of one size, unmodified, through test + load (+ start, one frame) from memory and from callbacks (the harness's
    `prefix` mode at prefix length = file length); returns (rc, cpu seconds of the child, stderr tail, files)"""
    import resource
    exe, size, scratch, files = args
    before = resource.getrusage(resource.RUSAGE_CHILDREN)
    rc, out, err = vlib.run_exe(exe, ["1", str(size), str(size), scratch, "prefix"] + files, timeout=900)
    after = resource.getrusage(resource.RUSAGE_CHILDREN)
    cpu = (after.ru_utime + after.ru_stime) - (before.ru_utime + before.ru_stime)
    last = re.findall(r"^prefixfile (\S+)$", out.decode("latin-1"), re.M)
    return rc, cpu, err[-600:], files, (last[-1] if last else "")


def run_play_group(args):
    exe, maxframes, files = args
    rc, out, err = vlib.run_exe(exe, ["play", str(maxframes)] + files, timeout=1200)
    return rc, out.decode("latin-1"), err[-600:], files


def run_trunc_group(args):
    exe, params, files = args
    rc, out, err = vlib.run_exe(exe, ["trunc"] + [str(x) for x in params] + files, timeout=3600)
    return rc, out.decode("latin-1"), err[-600:], files


METER_WRAPS = ["malloc", "calloc", "realloc", "free", "hio_read8s", "hio_read8", "hio_read16l", "hio_read16b", "hio_read24l",
               "hio_read24b", "hio_read32l", "hio_read32b", "hio_read"]


def build_meter():
    return vlib.build_harness("c02_meter", ["c02_play.c"], variant="plain", defines=["WRAP_METERS"],
                              extra=["-Wl,--wrap=" + w for w in METER_WRAPS])


def run_meter_group(args):
    exe, mode, files = args
    rc, out, err = vlib.run_exe(exe, mode + files, timeout=3600)
    return rc, out.decode("latin-1"), err[-600:], files


def run_meter_small_stack(args):
    """the same with a 1 MiB stack: recursion whose depth follows the input shows as a crash early"""
    exe, mode, files = args
    rc, out, err = vlib.run_exe("/bin/sh", ["-c", 'ulimit -s 1024; exec "$0" "$@"', exe] + mode + files, timeout=3600)
    return rc, out.decode("latin-1"), err[-600:], files


def meter_verdicts(ck, kind, limit, results):
    """oracle over `metered` / `fieldswept` lines and the meters' hard stops (HANG = alarm, WORK = reads after EOF over the cap)"""
    n = 0
    worst = {"cpu": (0.0, ""), "peak": (0, ""), "eofreads": (0, "")}
    for rc, out, err, fl in results:
        for m in re.finditer(r"^(?:metered|fieldswept) (.*?) ((?:\w+=\S+ ?)+)$", out, re.M):
            f = m.group(1)
            kv = dict(x.split("=") for x in m.group(2).split())
            n += int(kv.get("variants", 1))
            size = max(os.path.getsize(f), 1)
            cpu = float(kv.get("cpu", kv.get("maxcpu", 0)))
            peak = int(kv.get("peak", kv.get("maxpeak", 0)))
            eofr = int(kv.get("eofreads", kv.get("maxeof", 0)))
            for k, v in (("cpu", cpu), ("peak", peak), ("eofreads", eofr)):
                if v > worst[k][0]:
                    worst[k] = (v, os.path.basename(f))
            ck.count("%s:%s" % (kind, os.path.basename(f)), nontrivial=True)
            packed = is_packed(f)
            peak_lim = (int(2.2 * limit) + (256 << 20)) if packed else ((48 << 20) + 64 * size)
            what = None
            if cpu > 10.0 + 2e-6 * size:
                what, sig = "%.1f s CPU" % cpu, "cpu@"
            elif peak > peak_lim:
                what, sig = "peak heap %d bytes (limit %d)" % (peak, peak_lim), "heap@"
            if what:
                ck.violation(sig + os.path.basename(f), {"kind": "meter", "mode": kind, "file": f, "line": m.group(0)},
                             "%s (%d bytes, %s): %s" % (os.path.basename(f), size,
                                                        "unmodified" if kind != "fields" else "one 32-bit field set to 2^31-1 / 2^32-1", what))
        stop = re.search(r"^(HANG|WORK) (.*?) (-?\d+)(?: eofreads)?$", out, re.M)
        if stop or rc != 0:
            bad = stop.group(2) if stop else fl[0]
            sig = {"HANG": "hang@", "WORK": "eofreads@"}.get(stop.group(1) if stop else "", "crash@")
            ck.violation(sig + os.path.basename(bad), {"kind": "meter", "mode": kind, "file": bad, "offset": int(stop.group(3)) if stop else -1,
                                                       "stderr": err},
                         "%s (%s%s): %s (rc=%s)" % (
                             os.path.basename(bad), "unmodified" if kind != "fields" else "32-bit field at offset ",
                             "" if kind != "fields" or not stop else stop.group(3),
                             "test/load did not return within 12 s" if sig == "hang@" else
                             "more than 48 Mi reads were made with the stream already at its end: the number of reads is driven by a "
                             "declared count, not by the bytes present" if sig == "eofreads@" else "the harness died", rc))
    return n, worst


def corpus_types(exe, scratch):
    files = sorted(f for f in vlib.corpus_files() if os.path.getsize(f) < 3000000)
    rc, out, err = vlib.run_exe(exe, ["1", "0", "1", scratch, "types"] + files, timeout=900)
    by = {}
    for m in re.finditer(r"^type (.*)\t(.*)$", out.decode("latin-1"), re.M):
        by.setdefault(m.group(2), []).append(m.group(1))
    return by


def corpus_by_format(exe, scratch):
    """one small corpus file of every format xmp_test_module recognises (the C01 harness's `types` mode)"""
    files = sorted(f for f in vlib.corpus_files() if os.path.getsize(f) < 3000000)
    rc, out, err = vlib.run_exe(exe, ["1", "0", "1", scratch, "types"] + files, timeout=900)
    by = {}
    for m in re.finditer(r"^type (.*)\t(.*)$", out.decode("latin-1"), re.M):
        by.setdefault(m.group(2), []).append(m.group(1))
    # the smallest file of at least 1 KiB (regression files of a few bytes have no pattern / sample data to cut), else the largest
    def pick(v):
        # genuine modules first: the fuzz-regression directory (data/f) mostly holds files their loaders refuse
        good = [f for f in v if os.sep + "f" + os.sep not in f]
        v = good or v
        big = [f for f in v if os.path.getsize(f) >= 1024]
        return min(big, key=lambda f: (os.path.getsize(f), f)) if big else max(v, key=lambda f: (os.path.getsize(f), f))
    return {k: pick(v) for k, v in by.items()}


def run_res_shard(args):
    exe, seed, first, count, scratch, files = args
    rows, fails, start = [], [], first
    while start < first + count:
        rc, out, err = vlib.run_exe(exe, [str(seed), str(start), str(first + count - start), scratch, "res"] + files, timeout=3600)
        text = out.decode("latin-1")
        cases = re.findall(r"^case (\d+) (\S+) (.*)$", text, re.M)
        res = re.findall(r"^res (\d+) cpu=([\d.]+) peak=(\d+) big=(\d+) ret=(-?\d+) size=(\d+)", text, re.M)
        cmap = {c[0]: c for c in cases}
        for r in res:
            c = cmap.get(r[0], ("", "?", ""))
            rows.append({"index": int(r[0]), "file": c[1], "desc": c[2], "cpu": float(r[1]), "peak": int(r[2]), "big": int(r[3]),
                         "ret": int(r[4]), "size": int(r[5]), "seed": seed})
        if rc == 0:
            break
        if not cases:
            fails.append({"index": start, "file": "?", "desc": "harness failed before the first case", "stderr": err[-2000:], "rc": rc})
            break
        last = cases[-1]
        fails.append({"index": int(last[0]), "file": last[1], "desc": last[2], "stderr": err[-2000:], "rc": rc, "seed": seed})
        start = int(last[0]) + 1
    return rows, fails


def run(ck):
    info = gen_depack_limits.generate()
    ck.note("generated", info)
    ck.proofs(["XmpProps.C02"], required=REQUIRED, drivers=["drv_c02"])
    quick = ck.tier == "quick"
    # ---- IFF chunk walker: real libxmp_iff_load (both stream back-ends) vs the Lean model, and its progress oracle ----
    if ck.lean_ok:
        c02_iff.run(ck, quick)
        c02_iff.run_umx(ck, quick)
    limit = info["limit"]
    scratch = os.path.join(vlib.OUT, "c02")
    os.makedirs(scratch, exist_ok=True)
    wraps = ["-Wl,--wrap=malloc", "-Wl,--wrap=calloc", "-Wl,--wrap=realloc", "-Wl,--wrap=free"]
    exe = vlib.build_harness("c02_res", ["c01_fuzz.c"], variant="plain", defines=["WRAP_ALLOC"], extra=wraps)

    # ---- kernel-call counts (tie of the loop bound) --------------------------------------------
    wexe = vlib.build_harness("c01_window", ["c01_window.c"])
    mods = [f for f in vlib.corpus_files() if os.path.getsize(f) < 400000]
    ck.rng.shuffle(mods)
    rc, out, err = vlib.run_exe(wexe, [str(ck.seed), "12" if quick else "120", "200"] + mods[:60 if quick else 400], timeout=1800)
    st = re.search(r"stat calls=(\d+) printed=(\d+) maxiter=(\d+) ticksize_violations=(\d+)", out.decode("latin-1"))
    if rc != 0:
        ck.violation("window-harness:" + vlib.sanitizer_signature(err), {"stderr": err[-2000:]}, "sanitizer report in the mixer")
    elif st:
        ck.note("kernel_calls_observed", int(st.group(1)))
        ck.note("max_samples_in_one_kernel_call", int(st.group(3)))
        ck.cov["traces_validated_against_impl"] += int(st.group(1))
        if int(st.group(4)):
            ck.violation("mixer:samples>ticksize", {"stat": st.group(0)}, "a kernel call was asked for more samples than the tick size")

    # ---- walker-stress inputs, unmodified, through the memory and callback entry points ---------------------
    # Unreal packages with boundary counts / lengths / offsets (negative name-length bytes, type-name index 2^31-2 ...)
    # and IT modules whose row delays on one row add up to the visit counter's limits: every one must come back quickly
    ws_dir = os.path.join(scratch, "walk-%d" % ck.seed)
    shutil.rmtree(ws_dir, ignore_errors=True)
    os.makedirs(ws_dir, exist_ok=True)
    by_size = {}
    stress = c02_gens.umx_stress_set(random.Random(ck.seed * 613 + 1)) + c02_gens.it_rowdelay_set()
    for name, data in stress:
        path = os.path.join(ws_dir, name)
        with open(path, "wb") as fh:
            fh.write(data)
        by_size.setdefault(len(data), []).append(path)
    ck.note("walker_stress_files", len(stress))
    groups = [(exe, size, scratch, fl[i:i + 24]) for size, fl in sorted(by_size.items()) for i in range(0, len(fl), 24)]
    worst_intact = 0.0
    for rc, cpu, err, fl, last in vlib.pmap(run_intact_group, groups):
        worst_intact = max(worst_intact, cpu)
        for f in fl:
            ck.count("intact:" + os.path.basename(f), nontrivial=True)
        lim = 10.0 + 0.05 * len(fl)
        if rc != 0 or cpu > lim:
            bad = last or fl[0]
            hang = rc in (-14, 142, -999)
            ck.violation(("timeout@" if hang or rc == 0 else "crash@") + os.path.basename(bad),
                         {"kind": "intact", "files": fl, "size": os.path.getsize(fl[0]), "last": bad, "stderr": err},
                         "%s (unmodified, %d bytes): test/load from memory or callbacks %s (rc=%s, %.1f s CPU for %d files)" % (
                             os.path.basename(bad), os.path.getsize(fl[0]),
                             "did not return within the budget" if hang else "exceeded the CPU limit" if rc == 0 else "died",
                             rc, cpu, len(fl)))
    ck.note("walker_stress_worst_group_cpu", round(worst_intact, 3))

    # ---- played to and beyond the end: restart positions / jump targets / order tails on pattern-less and marker orders ----
    pexe = vlib.build_harness("c02_play", ["c02_play.c"], variant="plain")
    play_dir = os.path.join(scratch, "play-%d" % ck.seed)
    shutil.rmtree(play_dir, ignore_errors=True)
    os.makedirs(play_dir, exist_ok=True)
    play_files = []
    for name, data in c02_gens.restart_play_set() + c02_gens.it_rowdelay_set():
        path = os.path.join(play_dir, name)
        with open(path, "wb") as fh:
            fh.write(data)
        play_files.append(path)
    reps = corpus_by_format(exe, scratch)
    ck.note("formats_recognised_in_corpus", len(reps))
    small_reps = sorted(f for f in reps.values() if os.path.getsize(f) <= 400000)
    play_files += small_reps
    pgroups = [(pexe, 120000, play_files[i:i + 40]) for i in range(0, len(play_files), 40)]
    played = loops2 = ordwf_ok = 0
    for rc, out, err, fl in vlib.pmap(run_play_group, pgroups):
        hang = re.search(r"^HANG (\S+) (-?\d+)$", out, re.M)
        for m in re.finditer(r"^played (\S+) load=(-?\d+) frames=(\d+) loops=(\d+) end=(-?\d+) entryok=(\d) cpu=([\d.]+)$", out, re.M):
            played += 1
            loops2 += int(m.group(4)) >= 2
            ordwf_ok += m.group(6) == "1"
            ck.count("play:" + os.path.basename(m.group(1)), nontrivial=m.group(2) == "0")
            if float(m.group(7)) > 10.0 + 2e-6 * os.path.getsize(m.group(1)):
                ck.violation("cpu@" + os.path.basename(m.group(1)), {"kind": "play", "file": m.group(1), "line": m.group(0)},
                             "%s: load + playing two passes took %s s CPU" % (os.path.basename(m.group(1)), m.group(7)))
        if hang or rc != 0:
            bad = hang.group(1) if hang else fl[0]
            where = ("load" if hang and hang.group(2) == "-1" else "frame %s" % hang.group(2)) if hang else "rc=%s" % rc
            ck.violation(("hang@" if hang else "crash@") + os.path.basename(bad), {"kind": "play", "file": bad, "stderr": err},
                         "%s (unmodified): %s never returned while the module was loaded and played through its end (%s)" % (
                             os.path.basename(bad), "xmp_load_module_from_memory" if "load" in where else "xmp_play_frame", where))
    ck.note("modules_played_through_their_end", {"files": played, "two_passes_completed": loops2,
                                                 "ordwf_sufficient_condition_holds": ordwf_ok})

    # ---- every truncation point: one small file per recognised format, memory test + load of its prefixes ------------
    params = (768, 4096, 5, 200) if quick else (65536, 65536, 1, 4000)
    rep_list = sorted(reps.values(), key=lambda f: (os.path.getsize(f), f))
    tgroups = [(pexe, params, rep_list[i::16]) for i in range(16) if rep_list[i::16]]
    swept = points = 0
    worst_pref = (0.0, "", 0)
    for rc, out, err, fl in vlib.pmap(run_trunc_group, tgroups):
        hang = re.search(r"^HANG (\S+) (-?\d+)$", out, re.M)
        for m in re.finditer(r"^swept (\S+) points=(\d+) maxcpu=([\d.]+) at=(\d+)$", out, re.M):
            swept += 1
            points += int(m.group(2))
            ck.count("trunc:" + os.path.basename(m.group(1)), nontrivial=True)
            if float(m.group(3)) > worst_pref[0]:
                worst_pref = (float(m.group(3)), os.path.basename(m.group(1)), int(m.group(4)))
            if float(m.group(3)) > 10.0:
                ck.violation("cpu@prefix:" + os.path.basename(m.group(1)), {"kind": "trunc", "file": m.group(1), "length": int(m.group(4))},
                             "%s cut at %s bytes: test + load took %s s CPU" % (os.path.basename(m.group(1)), m.group(4), m.group(3)))
        if hang or rc != 0:
            bad = hang.group(1) if hang else fl[0]
            ck.violation(("hang@prefix:" if hang else "crash@prefix:") + os.path.basename(bad),
                         {"kind": "trunc", "file": bad, "length": int(hang.group(2)) if hang else -1, "stderr": err},
                         "%s cut at %s bytes: test/load from memory did not return (rc=%s)" % (
                             os.path.basename(bad), hang.group(2) if hang else "?", rc))
    ck.note("truncation_sweep", {"formats": swept, "prefixes_loaded": points, "slowest_prefix": worst_pref})

    # ---- heap and read-work meters on unmodified inputs (harness/c02_play.c built with WRAP_METERS) ------------------------
    # (a) IFF-family: a genuine corpus file per format + thousands of repeated zero / 4-byte chunks of every id the file uses,
    #     at the tail and right behind the first chunk; (b) every synthetic module of this run; (c) field sweep: one 32-bit
    #     field set to 2^31-1 / 2^32-1 (both byte orders) at every offset of small files, and for larger ones in the first and
    #     last KiB and behind every header pointer.  Oracles: CPU, peak heap against the size of the input, and the number of
    #     reads made with the stream already at its end (hard stop at 48 Mi: a declared count drives the reads, not the bytes).
    mexe = build_meter()
    types = corpus_types(exe, scratch)
    rep_dir = os.path.join(scratch, "iffrep-%d" % ck.seed)
    shutil.rmtree(rep_dir, ignore_errors=True)
    os.makedirs(rep_dir, exist_ok=True)
    meter_files = []
    for typ, fl in sorted(types.items()):
        cand = []
        for f in fl:
            if os.sep + "f" + os.sep in f or os.path.getsize(f) > 300000:
                continue
            with open(f, "rb") as fh:
                if c02_gens.chunk_boundaries(fh.read())[0]:
                    cand.append(f)
        if not cand:
            continue
        f = min(cand, key=lambda x: (os.path.getsize(x), x))
        data = open(f, "rb").read()
        for tag, b in c02_gens.iff_repeat_variants(data, repeats=8192 if quick else 32768):
            path = os.path.join(rep_dir, "%s-%s%s" % (re.sub(r"\W+", "_", typ)[:16], tag, os.path.splitext(f)[1][:6] or ".bin"))
            with open(path, "wb") as fh:
                fh.write(b)
            meter_files.append(path)
    ck.note("iff_repeated_chunk_files", len(meter_files))
    syn_dir = os.path.join(scratch, "syn-%d" % ck.seed)
    shutil.rmtree(syn_dir, ignore_errors=True)
    syn = synthmods.write_set(random.Random(ck.seed * 104729 + 3), syn_dir, 120 if quick else 1200)
    syn += synthmods.write_set_extra(random.Random(ck.seed * 7561 + 5), syn_dir, 90 if quick else 900, gens=c02_gens.GENS, prefix="syx")
    meter_files += syn
    mres = list(vlib.pmap(run_meter_group, [(mexe, ["meter"], meter_files[i::16]) for i in range(16) if meter_files[i::16]]))
    n_m, worst_m = meter_verdicts(ck, "meter", limit, mres)
    ck.note("metered_unmodified", {"files": n_m, "worst": worst_m})
    # (a2) a module packed k times over (k = 1 .. 1000) in every container that can store data cheaply, by path, 1 MiB stack:
    #      the library unpacks ONE level — k = 1 loads, k >= 2 is "not a module" at once; work, heap and stack stay flat in k
    nest_dir = os.path.join(scratch, "nest-%d" % ck.seed)
    shutil.rmtree(nest_dir, ignore_errors=True)
    os.makedirs(nest_dir, exist_ok=True)
    nest_files, depth_of = [], {}
    for name, data, depth in c02_gens.nested_set((1, 2, 3, 10, 100, 1000) if quick else (1, 2, 3, 10, 100, 1000, 10000)):
        path = os.path.join(nest_dir, name)
        with open(path, "wb") as fh:
            fh.write(data)
        nest_files.append(path)
        depth_of[path] = depth
    nres = list(vlib.pmap(run_meter_small_stack, [(mexe, ["meter"], nest_files[i::8]) for i in range(8) if nest_files[i::8]]))
    for rc, out, err, fl in nres:
        if rc not in (0, 14, 15) and not re.search(r"^(HANG|WORK) ", out, re.M):
            done = set(re.findall(r"^metered (.*?) load=", out, re.M))
            bad = next((f for f in fl if f not in done), fl[0])
            ck.violation("nesting-crash@" + os.path.basename(bad), {"kind": "meter", "mode": "meter", "file": bad, "stderr": err},
                         "%s (a module packed %d times over, 1 MiB stack): test/load by path died with rc=%s — stack use follows "
                         "the nesting depth of the input" % (os.path.basename(bad), depth_of.get(bad, 0), rc))
        for m in re.finditer(r"^metered (.*?) load=(-?\d+) fload=(-?\d+) pload=(-?\d+) ", out, re.M):
            d = depth_of.get(m.group(1), 0)
            want = 0 if d == 1 else -3
            if int(m.group(4)) != want:
                ck.violation("nesting-depth@" + os.path.basename(m.group(1)), {"kind": "meter", "mode": "meter", "file": m.group(1)},
                             "%s (a module packed %d times over): xmp_load_module returned %s, documented behaviour is %d (one level "
                             "of unpacking)" % (os.path.basename(m.group(1)), d, m.group(4), want))
    n_n, worst_n = meter_verdicts(ck, "meter", limit, [r for r in nres if r[0] in (0, 14, 15)])
    ck.note("nested_archives", {"files": len(nest_files), "worst": worst_n})
    # (a3) hostile LZW code streams (undefined / self-referential entries, CLEAR followed by KwKwK, codes far above the table) in
    #      every LZW width variant: ARC crunch / squash, Spark and ArcFS compress 12 / 13 / 16 bits, compress(1) 9 / 12 / 16 bits
    lzw_dir = os.path.join(scratch, "lzw-%d" % ck.seed)
    shutil.rmtree(lzw_dir, ignore_errors=True)
    os.makedirs(lzw_dir, exist_ok=True)
    lzw_files = []
    for name, data in c02_gens.hostile_lzw_set(random.Random(ck.seed * 389 + 17)):
        path = os.path.join(lzw_dir, name)
        with open(path, "wb") as fh:
            fh.write(data)
        lzw_files.append(path)
    lres = list(vlib.pmap(run_meter_group, [(mexe, ["meter"], lzw_files[i::16]) for i in range(16) if lzw_files[i::16]]))
    n_l, worst_l = meter_verdicts(ck, "meter", limit, lres)
    ck.note("hostile_lzw_streams", {"files": n_l, "worst": worst_l})
    per_ext = {}
    for f in syn:
        per_ext.setdefault(os.path.splitext(f)[1], []).append(f)
    field_files = [f for ext, fl in sorted(per_ext.items()) for f in sorted(fl, key=os.path.getsize)[:2 if quick else 8]]
    field_files += sorted(f for f in reps.values() if os.path.getsize(f) <= (16384 if quick else 262144) and not is_packed(f))
    for k in range(2 if quick else 8):          # XM with OpenMPT-style extension blocks of every known id behind the samples
        data, ext = c02_gens.xm_with_extensions(random.Random(ck.seed * 77 + k))
        path = os.path.join(rep_dir, "xmext%d.%s" % (k, ext))
        with open(path, "wb") as fh:
            fh.write(data)
        field_files.append(path)
    # one process per file: a memory error of the uninstrumented library on one variant (C01's subject, reported as a note
    # with the file, not as a C02 violation) must not hide the other files
    fres = list(vlib.pmap(run_meter_group, [(mexe, ["fields", "1024" if quick else "8192"], [f]) for f in field_files]))
    crashes = [(os.path.basename(fl[0]), rc) for rc, out, err, fl in fres if rc not in (0, 14, 15) and not re.search(r"^(HANG|WORK) ", out, re.M)]
    fres = [r for r in fres if r[0] in (0, 14, 15) or re.search(r"^(HANG|WORK) ", r[1], re.M)]
    n_f, worst_f = meter_verdicts(ck, "fields", limit, fres)
    # (c2) every plausible header offset moved by the same large constant (offset tables keep their order and distances):
    #      all representatives and synthetic modules, memory and FILE handle (format tests that fetch data on request)
    reloc_files = sorted(set(f for f in reps.values() if not is_packed(f)) | set(syn))
    rres = list(vlib.pmap(run_meter_group, [(mexe, ["reloc"], reloc_files[i::16]) for i in range(16) if reloc_files[i::16]]))
    rcrash = [(os.path.basename(fl[0]), rc) for rc, out, err, fl in rres if rc not in (0, 14, 15) and not re.search(r"^(HANG|WORK) ", out, re.M)]
    n_r, worst_r = meter_verdicts(ck, "fields", limit, [r for r in rres if r[0] in (0, 14, 15) or re.search(r"^(HANG|WORK) ", r[1], re.M)])
    ck.note("offset_relocation_sweep", {"files": len(reloc_files), "variants": n_r, "worst": worst_r, "memory_errors(C01)": rcrash})
    ck.note("field_sweep", {"files": len(field_files), "variants": n_f, "worst": worst_f,
                            "memory_errors_seen_on_the_plain_build(C01)": crashes})

    # ---- measured search ------------------------------------------------------------------------
    files = [f for f in vlib.corpus_files() if os.path.getsize(f) <= (300000 if quick else 3000000)]
    # (syn / syx: the synthetic modules written above — offset-linked / command-table formats and declared-length liars:
    #  MED synth tables with jumps, DBM, IT compressed)
    syn = list(syn)
    syn += c02_gens.patched_corpus_meds(random.Random(ck.seed * 7561 + 9), sorted(vlib.corpus_files()), syn_dir, 6 if quick else 60)
    syn += c02_gens.chunk_liars_from_corpus(random.Random(ck.seed * 7561 + 13), sorted(vlib.corpus_files()), syn_dir, 24 if quick else 300)
    files = files + syn * max(1, len(files) // (2 * max(1, len(syn))))
    ck.note("synthetic_modules", len(syn))
    bombs = make_bombs(os.path.join(scratch, "gen"), quick)
    per = 200 if quick else 10000
    shards = [(exe, ck.seed * 2003 + 13 * i, 0, per, scratch, files) for i in range(14)]
    # bombs: two shards, few cases each (every case picks one of the bombs, mutated or intact)
    shards += [(exe, ck.seed * 2003 + 901 + i, 0, 10 if quick else 60, scratch, bombs) for i in range(2)]
    # archives whose headers declare far more than they hold (LZX incl. merged groups, zip, ARC, LHA, MMCMP)
    liar_dir = os.path.join(scratch, "liars-%d" % ck.seed)
    shutil.rmtree(liar_dir, ignore_errors=True)
    liar_files = liars.write_set(random.Random(ck.seed * 31337 + 11), liar_dir, 64 if quick else 400)
    ck.note("declared_size_liar_archives", len(liar_files))
    shards += [(exe, ck.seed * 2003 + 951 + i, 0, 90 if quick else 5000, scratch, liar_files) for i in range(2)]
    # container headers cut short inside every optional field (by path: the depackers run)
    cut_dir = os.path.join(scratch, "cuts-%d" % ck.seed)
    shutil.rmtree(cut_dir, ignore_errors=True)
    os.makedirs(cut_dir, exist_ok=True)
    cut_files = c02_gens.header_cuts(random.Random(ck.seed * 911 + 7), cut_dir, [f for f in sorted(vlib.corpus_files()) if is_packed(f)],
                                     64 if quick else 640)
    ck.note("header_cut_archives", len(cut_files))
    shards += [(exe, ck.seed * 2003 + 977 + i, 0, 80 if quick else 2000, scratch, cut_files) for i in range(2)]
    worst = {"cpu": None, "peak": None, "big": None, "plain_peak": None, "plain_big": None, "plain_cpu": None}
    n = 0
    for (rows, fails), sh in zip(vlib.pmap(run_res_shard, shards), shards):
        for f in fails:
            timeout = "TIMEOUT" in f.get("stderr", "") or f["rc"] in (-14, 142, -999)
            sig = ("timeout@" if timeout else "crash@") + os.path.basename(f["file"])
            ck.violation(sig, {"harness": "c02_res", "args": [str(f.get("seed", sh[1])), str(f["index"]), "1", scratch, "res"],
                               "files": sh[5], "case": f["desc"], "stderr": f["stderr"]},
                         "%s: the call did not return within the CPU budget or died (%s) [%s]" % (
                             os.path.basename(f["file"]), "alarm/timeout" if timeout else "rc=%s" % f["rc"], f["desc"]))
        for r in rows:
            n += 1
            packed = is_packed(r["file"]) or "bomb" in r["file"] or "liar" in r["file"]
            size = max(r["size"], 1)
            cpu_lim = 10.0 + 2e-6 * size
            peak_lim = (int(2.2 * limit) + (256 << 20)) if packed else ((48 << 20) + 64 * size)
            big_lim = (limit + (64 << 20)) if packed else ((8 << 20) + 64 * size)
            ck.count("%d:%d" % (r["seed"], r["index"]), nontrivial="intact" not in r["desc"])
            for k in ("cpu", "peak", "big"):
                if worst[k] is None or r[k] > worst[k][k]:
                    worst[k] = r
                if not packed and (worst["plain_" + k] is None or r[k] > worst["plain_" + k][k]):
                    worst["plain_" + k] = r
            what = None
            if r["cpu"] > cpu_lim:
                what = "CPU time %.1fs exceeds %.1fs" % (r["cpu"], cpu_lim)
                sig = "cpu@" + os.path.basename(r["file"])
            elif r["peak"] > peak_lim:
                what = "peak heap %d exceeds %d" % (r["peak"], peak_lim)
                sig = "heap@" + os.path.basename(r["file"])
            elif r["big"] > big_lim:
                what = "single allocation request of %d bytes exceeds %d" % (r["big"], big_lim)
                sig = "alloc@" + os.path.basename(r["file"])
            if what:
                ck.violation(sig, {"harness": "c02_res", "args": [str(r["seed"]), str(r["index"]), "1", scratch, "res"],
                                   "files": sh[5], "case": r["desc"], "measured": r},
                             "%s on %s (%d bytes supplied) [%s]" % (what, os.path.basename(r["file"]), r["size"], r["desc"]))
    ck.note("cases_measured", n)
    for k in worst:
        if worst[k]:
            ck.note("worst_" + k, {x: worst[k][x] for x in ("file", "desc", "cpu", "peak", "big", "size", "ret")})
    ck.sample({"bombs": [os.path.basename(b) for b in bombs]})
    ck.sample({"res line": "res <index> cpu=<s> peak=<bytes> big=<bytes> ret=<code> size=<bytes supplied>"})
    ck.cov["rule"] = ("case = (input file incl. generated decompression bombs, mutation kind incl. 16/32-bit field inflation, entry point, "
                      "play history) derived from (seed, index); measured on an uninstrumented build; non-trivial = mutated input")
    ck.assumptions += ["thresholds: cpu <= 10 s + 2 us/byte; peak <= 48 MiB + 64 x bytes, single request <= 8 MiB + 64 x bytes (plain) or 2.2 x LIBXMP_DEPACK_LIMIT + 256 MiB (packed)",
                       "CPU time is process CPU time of one case on this machine"]


def replay(ck, rp):
    r = rp["replay"]
    if r.get("kind") == "iff":
        return c02_iff.replay(ck, r)
    if r.get("kind") == "umx":
        return c02_iff.replay_umx(ck, r)
    if r.get("kind") == "meter":
        mexe = build_meter()
        if r.get("mode") == "fields":
            rc, out, err = vlib.run_exe(mexe, ["fields", "2048", r["file"]], timeout=600)
        else:
            rc, out, err = vlib.run_exe(mexe, ["meter", r["file"]], timeout=120)
        print(out.decode("latin-1")[-800:])
        print(err[-800:])
        return 0 if rc == 0 else 1
    if r.get("kind") in ("play", "trunc"):
        pexe = vlib.build_harness("c02_play", ["c02_play.c"], variant="plain")
        if r["kind"] == "play":
            rc, out, err = vlib.run_exe(pexe, ["play", "120000", r["file"]], timeout=120)
        else:
            L = max(0, r.get("length", 0))
            data = open(r["file"], "rb").read()[:L]
            cut = os.path.join(vlib.OUT, "c02", "replay-cut.bin")
            with open(cut, "wb") as fh:
                fh.write(data)
            rc, out, err = vlib.run_exe(pexe, ["trunc", str(L), str(L), "1", "0", cut], timeout=120)
        print(out.decode("latin-1")[-800:])
        print(err[-800:])
        return 0 if rc == 0 else 1
    if r.get("kind") == "intact":
        wraps = ["-Wl,--wrap=malloc", "-Wl,--wrap=calloc", "-Wl,--wrap=realloc", "-Wl,--wrap=free"]
        exe = vlib.build_harness("c02_res", ["c01_fuzz.c"], variant="plain", defines=["WRAP_ALLOC"], extra=wraps)
        rc, cpu, err, fl, last = run_intact_group((exe, r["size"], os.path.join(vlib.OUT, "c02"), [r["last"]]))
        print("rc=%s cpu=%.2f s last=%s\n%s" % (rc, cpu, last, err))
        return 0 if rc == 0 and cpu <= 10.0 else 1
    wraps = ["-Wl,--wrap=malloc", "-Wl,--wrap=calloc", "-Wl,--wrap=realloc", "-Wl,--wrap=free"]
    exe = vlib.build_harness("c02_res", ["c01_fuzz.c"], variant="plain", defines=["WRAP_ALLOC"], extra=wraps)
    rc, out, err = vlib.run_exe(exe, r["args"] + r["files"], timeout=600)
    print(out.decode("latin-1")[-1500:])
    print(err[-2000:])
    return 0 if rc == 0 else 1
