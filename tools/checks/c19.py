"""C19 — Core-format loaders reproduce what an independent writer encoded.

proof      : XmpProps.C19 over XmpModel.FmtMod/FmtS3m/FmtXm/FmtIt
             (whole file read (write s o) = some s for MOD, S3M, XM and IT incl. IT instrument mode and compressed samples)
oracle     : files written by the Lean `write` (independent encoder) from random abstract songs are loaded
             by the real library through all four entry points (memory, path, callbacks, FILE with adversarial values
             of its ignored `size` argument; harness/c19_roundtrip.c); the canonical dump is compared
             field by field with the abstract song
tie        : the Lean loader model `read` is run on the same bytes, on byte mutants and on the repository's
             corpus files of the four formats and compared with the real loader's dump
corpus     : corpus/C19/*.json: witnesses of repaired loader defects (bytes + abstract song), run first
"""
import os
import subprocess
import vlib

LEVEL = "proof"
FORMATS = ["mod", "s3m", "xm", "it"]
MANIFEST = dict(
    category="proof",
    text="Lean 4 theorems (XmpProps.C19) over an independent MOD/S3M/XM/IT encoder `write` and a loader model `read`: "
         "whole-file round trip read(write s o) = some s for all four formats and songs/files of every size (explicit decidable "
         "WellFormed predicates, non-vacuity examples), built from codec theorems (pattern codecs incl. the IT mask/last-value "
         "compression, sample-header codecs, PCM conversions, IT 2.14/2.15 sample compression against the full itsex.c model, IT key "
         "tables); the encoder's files are loaded by the real library and every listed field is compared with the abstract song "
         "(direct oracle); the loader model is tied to the C by differential correspondence on the written files, byte mutants "
         "and the repository corpus.",
    note="Proved (Lean kernel, axioms propext/Classical.choice/Quot.sound), structurally for all sizes: MOD whole file (all signature "
         "kinds; needs NoAdpcm, shown necessary); S3M whole file (header, orders, parapointer tables, pan table, 80-byte sample headers with "
         "24-bit paragraphs, packed patterns with every what-flag choice stored or parapointer 0, signed/unsigned 8/16-bit mono/stereo PCM); "
         "XM 1.04 whole file (song header sizes 21..276, pattern headers with packed/unpacked cells and every mask or no data, instrument "
         "headers of every accepted size incl. stripped and sample-less, key maps, sample headers, delta-coded 8/16-bit mono/stereo PCM; "
         "the only Ogg condition left is on a sample's own stored bytes 4..7); IT whole file in sample mode and instrument mode (new and old IMPI headers, key tables numbered "
         "in order of first appearance, volume/pan inheritance from the samples), offset tables, IMPS headers with loop/sustain/ping-pong "
         "flags, packed patterns with every mask/last-value writer choice, channel count of the loader's first pass, plain and IT 2.14/2.15 "
         "compressed samples (whole-sample byte-level decompress(compress raw) = raw for every width wish, multi-block, stereo). "
         "WellFormed also states the pointer widths of the formats (S3M 16-bit pattern / 24-bit sample paragraphs, IT 16-bit pattern "
         "length and 32-bit offsets). Not modelled (model silent; the oracle still compares what the real loader returns for written "
         "files): XM <= 1.03 layout, AdLib/ADPCM/OGG samples, truncated files, effect columns (opaque bytes), envelopes, xpo/fin derived "
         "from c2spd by floating point (S3M/IT), XMP_SAMPLE_LOOP_FULL and every field the property does not list. IT edit history and "
         "embedded MIDI configuration are modelled only as presence tests (they are skipped/read but never observed). Observation rule: "
         "loop points compared only when the loop flag is set. Domain restrictions found by the oracle/proofs: the S3M/IT scan from order 0 (entries naming no "
         "stored pattern are skipped) must reach a stored pattern before an end marker, MOD sample bodies must not spell 'ADPCM' at a sample start, an XM "
         "sample that stores >= 8 bytes must not have 'OggS' at its own offset 4 (it would legitimately be an Ogg sample), IT samples of exactly one frame are never loaded (len>1 test), an IT "
         "pattern stored as offset 0 is 64 rows. Entry points: every written file is loaded through all four entry points (memory, path, "
         "callbacks, FILE) and xmp_load_module_from_file gets adversarial values of its ignored `size` argument (0, real size +-1, the "
         "sizes at which the MOD loader's song-file / WOW / FlexTrax heuristics would fire for the song, -1, INT_MAX); each must load "
         "the module the memory entry point loads (which is compared with the abstract song). The file size those heuristics read is "
         "`bs.length` in Mod.read; the generated facts XmpModel/Gen/C19Size.lean (tools/c19_gen_size.py) + C19_size_is_stream_length "
         "state that every entry point stores module_data.size once, as the size of the stream it opened. "
         "Sample data comes in high-entropy and low-entropy shapes (silence, constants, short burst with a silent "
         "tail, rare spikes) for every format; IT size class 4 stores such a sample last in the file through the 2.14/2.15 compressed "
         "path with the narrowest codes (about one bit per sample: the loader's minimum-size test of compressed samples is at its bound), "
         "8/16 bit, mono/stereo, one or two blocks. Generators: every numeric header field is drawn from its boundary set with decent probability (speed/tempo "
         "{1,2,31,32,125,254,255}, volume/pan bytes {0,1,63,64,127,128,255}, sample rates 0..2^32-1 extremes, sample lengths "
         "1/2/odd, order-list lengths at the maxima) and size class 9 writes the formats' maximum counts with tiny contents "
         "(MOD 128 patterns with order value 127, S3M 254 patterns/255 orders/255 instruments, XM 256 patterns/256 orders/255 "
         "instruments/256 rows/16 samples per instrument, IT 200 patterns/256 orders/255 samples and instruments/200 rows); the "
         "WellFormed predicates admit these maxima (decide examples in XmpProps/C19.lean). Genuine defects found by this check and repaired in /repo (witnesses in corpus/C19, run first): "
         "XM is_ogg_sample probed the file behind samples shorter than 8 bytes (f3de111); a scan whose computed duration went negative "
         "(IT tempo slide plus speed change on one row) refused the module (d83ea15). Trusted: the hand-written models (tied by correspondence: 4 x 160 mutants + corpus per "
         "quick run, generated files incl. IT instrument mode and every XM header-size variant), the harness dump, the differ.",
    technique="Lean 4 whole-file codec round-trip proofs + specification-derived encoder as oracle + differential correspondence of the loader model",
    design_ref="DESIGN.md section 4 C19",
)
REQUIRED = ["Xmp.Fmt.C19_roundtrip_mod", "Xmp.Fmt.C19_mod_period_roundtrip", "Xmp.Fmt.C19_mod_adpcm_hypothesis_needed",
            "Xmp.Fmt.C19_s3m_pattern_codec", "Xmp.Fmt.C19_s3m_note_codec", "Xmp.Fmt.C19_xm_cell_codec",
            "Xmp.Fmt.C19_xm_cells_codec", "Xmp.Fmt.C19_it_field_codecs_partial", "Xmp.Fmt.C19_it_compress_block_partial", "Xmp.Fmt.C19_pcm_sign8_involutive", "Xmp.Fmt.C19_pcm_sign16_involutive",
            "Xmp.Fmt.C19_pcm_delta8", "Xmp.Fmt.C19_pcm_delta16",
            # second wave
            "Xmp.Fmt.C19_roundtrip_s3m", "Xmp.Fmt.C19_s3m_pcm_codec", "Xmp.Fmt.C19_pcm_stereo_blocks",
            "Xmp.Fmt.C19_it_pattern_codec", "Xmp.Fmt.C19_it_channel_scan", "Xmp.Fmt.C19_it_sample_compression",
            "Xmp.Fmt.C19_roundtrip_it", "Xmp.Fmt.C19_it_key_table_codec",
            "Xmp.Fmt.C19_roundtrip_xm", "Xmp.Fmt.C19_xm_ogg_window_regression", "Xmp.Fmt.C19_xm_pcm_codec",
            "Xmp.Fmt.C19_roundtrip_all", "Xmp.Fmt.C19_s3m_order_rule", "Xmp.Fmt.C19_size_is_stream_length"]

TYPE_PREFIX = {"mod": None, "s3m": " S3M", "xm": " XM ", "it": " IT "}


def parse_blocks(text):
    """Split `begin id … end` blocks into {id: [lines]} (ordered)."""
    out, cur, cid = [], None, None
    for l in text.split("\n"):
        if l.startswith("begin "):
            cid, cur = l[6:], []
        elif l == "end" and cur is not None:
            out.append((cid, cur))
            cur = None
        elif cur is not None:
            cur.append(l)
    return out


def _big_stack():
    # the Lean model uses plain structural recursion over sample data: megabyte-sized samples need a deep stack
    import resource
    soft, hard = resource.getrlimit(resource.RLIMIT_STACK)
    want = 4 << 30
    if hard != resource.RLIM_INFINITY:
        want = min(want, hard)
    try:
        resource.setrlimit(resource.RLIMIT_STACK, (want, hard))
    except (ValueError, OSError):
        pass


def run_proc(cmd, text, timeout=1800):
    p = subprocess.run(cmd, input=text.encode(), stdout=subprocess.PIPE, stderr=subprocess.PIPE, timeout=timeout,
                       preexec_fn=_big_stack,
                       env=dict(os.environ, ASAN_OPTIONS="detect_leaks=0:allocator_may_return_null=1",
                                UBSAN_OPTIONS="print_stacktrace=1"))
    return p.returncode, p.stdout.decode("latin-1"), p.stderr.decode("utf-8", "replace")


def shard(items, n):
    n = max(1, min(n, len(items)))
    return [items[i::n] for i in range(n)]


def run_many(cmd, lines, nshards=None):
    """Run `cmd` on the request lines, sharded over processes; returns list of (rc, blocks, stderr, lines)."""
    sh = shard(lines, nshards or vlib.NCPU)
    res = vlib.pmap(lambda ls: run_proc(cmd, "\n".join(ls) + "\n"), sh)
    return [(rc, parse_blocks(out), err, ls) for (rc, out, err), ls in zip(res, sh)]


def strip_meta(lines):
    meta = {}
    body = []
    for l in lines:
        k = l.split(" ", 1)[0]
        if k in ("opts", "hex", "rt", "wf", "excluded", "type"):
            meta[k] = l[len(k) + 1:]
        else:
            body.append(l)
    return meta, body


def canon(fmt, lines):
    """Per-format canonicalisation applied to BOTH sides: drop fields whose libxmp value is derived by
    floating point from a header field the abstract song carries in another unit (c2spd → xpo/fin)."""
    out = []
    for l in lines:
        f = l.split(" ")
        if f[0] == "sub" and fmt in ("s3m", "it"):
            f = f[:6]            # sid vol pan ; xpo/fin come from libxmp_c2spd_to_note (floating point)
        out.append(" ".join(f))
    return out


def first_diff(a, b):
    for i, (x, y) in enumerate(zip(a, b)):
        if x != y:
            fx, fy = x.split(" "), y.split(" ")
            k = next((j for j, (p, q) in enumerate(zip(fx, fy)) if p != q), min(len(fx), len(fy)))
            ex, go = (fx[k] if k < len(fx) else "<none>"), (fy[k] if k < len(fy) else "<none>")
            at = next((j for j, (p, q) in enumerate(zip(ex, go)) if p != q), min(len(ex), len(go)))
            lo = max(0, at - 8) if len(ex) > 48 else 0
            return "%s field#%d (first difference at char %d of %d): expected %s got %s" % (
                " ".join(fx[:2]), k, at, len(ex), ex[lo:lo + 48], go[lo:lo + 48]), fx[0]
    if len(a) != len(b):
        return "dump has %d lines, expected %d" % (len(b), len(a)), "lines"
    return None, None


def classify(fmt, d, field, body, meta):
    """Specific signatures for the known end-of-file defects of the XM loader."""
    if fmt == "xm":
        nins = sum(1 for l in body if l.startswith("ins "))
        last = [l for l in body if l.startswith("ins %d " % (nins - 1))]
        if field == "ins" and d.startswith("ins %d field#3" % (nins - 1)) and d.endswith("got -") and \
                "emptyIns=29" in (meta.get("opts") or "") and last and last[0].split(" ")[2] == "0":
            return "last-empty-instrument-29-byte-header:name-lost"
        if field == "smp" and "field#9" in d and d.endswith("got null"):
            return "last-sample-shorter-than-8-bytes-at-eof:pcm-dropped"
    return field


def mutate(rng, data, fmt):
    """One byte-level mutant of a written file (never truncation: short files are outside the model)."""
    b = bytearray(data)
    n = len(b)
    k = rng.choice([1, 1, 2, 3])
    where = []
    for _ in range(k):
        r = rng.random()
        if r < 0.55:
            hdr = {"mod": 1084, "s3m": 96 + 300, "xm": 336 + 200, "it": 192 + 400}[fmt]
            pos = rng.randrange(min(n, hdr))
        else:
            pos = rng.randrange(n)
        mode = rng.randrange(4)
        if mode == 0:
            b[pos] ^= 1 << rng.randrange(8)
        elif mode == 1:
            b[pos] = rng.choice([0, 1, 0x7f, 0x80, 0xff, 0x40, 0x20])
        elif mode == 2:
            b[pos] = (b[pos] + rng.choice([1, 255])) & 0xff
        else:
            b[pos] = rng.randrange(256)
        where.append(pos)
    return bytes(b), where


def corpus_of(fmt):
    exts = {"mod": (".mod",), "s3m": (".s3m",), "xm": (".xm",), "it": (".it",)}[fmt]
    return [f for f in vlib.corpus_files() if f.lower().endswith(exts) and os.path.getsize(f) < 1500000]


def advisory_sizes(data, body):
    """Values for the `size` argument of xmp_load_module_from_file (documented as ignored): 0, the real size and its
    neighbours, the sizes at which the MOD loader's file-size heuristics would fire for this song (Protracker song
    file: 1084 + 1024*patterns; Mod's Grave WOW: 1084 + 2048*patterns + sample bytes, also odd; just past the FlexTrax
    probe offset), -1 and INT_MAX."""
    npat = sum(1 for l in body if l.startswith("pat "))
    chn = 4
    smp = 0
    for l in body:
        f = l.split(" ")
        if f[0] == "counts":
            chn = int(f[1])
        elif f[0] == "smp":
            flg = int(f[5])
            smp += int(f[2]) * (2 if flg & 1 else 1) * (2 if flg & 128 else 1)
    n = len(data)
    out = []
    for v in (0, n, n - 1, n + 1, 1084 + 1024 * npat, 1084 + 2048 * npat + smp, 1084 + 2048 * npat + smp + 1,
              1084 + 256 * chn * npat + smp + 8, -1, 2147483647):
        if v not in out:
            out.append(v)
    return out


def entry_results(lines):
    """`entry <name> same|rc <n>|differs` lines of an `all` request (+ the "| " dump lines of a differing entry)."""
    res, cur = [], None
    for l in lines:
        if l.startswith("entry "):
            f = l.split(" ")
            cur = {"name": f[1], "what": " ".join(f[2:]), "dump": []}
            res.append(cur)
        elif l.startswith("| ") and cur is not None:
            cur["dump"].append(l[2:])
    return res


def corpus_first(ck, exe, drv, bump):
    """corpus/C19/*.json: regression witnesses of repaired loader defects (file bytes + the abstract song's dump),
    run before anything else: direct oracle (real loader vs recorded abstract song) and model correspondence."""
    import glob
    import json
    cases = []
    for f in sorted(glob.glob(os.path.join(vlib.VERIF, "corpus", "C19", "*.json"))):
        try:
            cases.append(json.load(open(f)))
        except (OSError, ValueError) as e:
            raise vlib.InfraError("unreadable corpus case %s: %s" % (f, e))
    if not cases:
        return
    rc, out, err = run_proc([exe], "".join("hex %s %s\n" % (c["id"], c["hex"]) for c in cases))
    real = dict(parse_blocks(out))
    rc2, out2, err2 = run_proc([drv], "".join("read %s %s %s\n" % (c["fmt"], c["id"], c["hex"]) for c in cases))
    model = dict(parse_blocks(out2)) if rc2 == 0 else {}
    for c in cases:
        cid, fmt = c["id"], c["fmt"]
        ck.count(("corpus", cid), nontrivial=True)
        bump("corpus_cases")
        rp = {"fmt": fmt, "hex": c["hex"], "opts": c.get("opts"), "expected_dump": c["expected_dump"]}
        if cid not in real:
            ck.violation("corpus:%s:harness-abort:%s" % (cid, vlib.sanitizer_signature(err)), dict(rp, stderr=err[-2000:]),
                         "corpus case %s (%s): the harness aborted" % (cid, c["why"]))
            continue
        _, rbody = strip_meta(real[cid])
        if rbody and rbody[0].startswith("loadfail"):
            ck.violation("corpus:%s:loadfail" % cid, rp, "corpus case %s is refused again (%s): %s" % (cid, rbody[0], c["why"]))
            continue
        d, _ = first_diff(canon(fmt, c["expected_dump"]), canon(fmt, rbody))
        if d:
            ck.violation("corpus:%s" % cid, dict(rp, diff=d), "corpus case %s: loaded module differs from the recorded song: %s -- %s" % (cid, d, c["why"]))
            continue
        bump("corpus_oracle_agree")
        if cid in model and not (model[cid] and model[cid][0] == "silent"):
            _, mbody = strip_meta(model[cid])
            d, _ = first_diff(canon(fmt, mbody), canon(fmt, rbody))
            if d:
                ck.unproved("correspondence %s.read vs %s loader (corpus %s)" % (fmt, fmt, cid), "model(expected)/real(got) %s" % d)
            else:
                ck.cov["traces_validated_against_impl"] += 1
                bump("corpus_model_agree")
        elif cid in model:
            bump("corpus_model_silent")


def run(ck):
    quick = ck.tier == "quick"
    import time
    t0 = time.time()
    # translator: where module_data.size (read by the MOD loader's file-size heuristics) is stored, from the working tree
    import c19_gen_size
    g = ck.gen(c19_gen_size.generate)
    ck.note("size_stores", ["%s:%s = %s" % (st[0], st[1], st[2]) for st in g["stores"]])
    ck.note("size_readers", ["%s:%s" % r for r in g["readers"]])
    ck.proofs(["XmpProps.C19"], required=REQUIRED, drivers=["drv_c19"])
    ck.note("t_proofs_s", round(time.time() - t0, 1))
    exe = vlib.build_harness("c19_roundtrip", ["c19_roundtrip.c"])
    drv = vlib.lean_driver("drv_c19")
    if not os.path.exists(drv):
        raise vlib.InfraError("driver drv_c19 not built")
    stats = {}

    def bump(k, n=1):
        stats[k] = stats.get(k, 0) + n

    # ---- regression corpus first ------------------------------------------------------------------------
    corpus_first(ck, exe, drv, bump)

    # ---- translator-like tie: libxmp_period_to_note over every 12-bit period -------------------------
    rc, out, err = run_proc([exe], "p2n\n")
    rc2, out2, err2 = run_proc([drv], "p2n\n")
    if rc != 0:
        ck.violation("harness-abort:" + vlib.sanitizer_signature(err), {"cmd": "p2n", "stderr": err[-2000:]}, "harness aborted on p2n")
    elif out.strip() != out2.strip():
        a, b = out.split(), out2.split()
        bad = [i - 1 for i in range(1, min(len(a), len(b))) if a[i] != b[i]][:5]
        ck.unproved("correspondence Mod.periodToNote vs libxmp_period_to_note", "differs at periods %s" % bad)
    else:
        ck.cov["traces_validated_against_impl"] += 1
        bump("period_table_entries_compared", 4096)

    files = {}          # id -> (fmt, bytes, expected body, opts)
    for fmt in FORMATS:
        tf = time.time()
        exe = vlib.build_harness("c19_roundtrip", ["c19_roundtrip.c"])   # the cache may have been rebuilt meanwhile
        n = {"quick": 96, "thorough": 1500}[ck.tier]
        reqs = []
        for i in range(n):
            size = 0 if i % 3 == 0 else (1 if i % 3 == 1 or quick else 2)
            reqs.append("gen %s %s-g%d %d %d" % (fmt, fmt, i, ck.seed * 100003 + i * 7 + vlib.hash_str(fmt) % 1000, size))
        # size classes with sample data placed beyond 64 KiB (5) and beyond 1 MiB (6) of the file, for every format;
        # long IT-compressed samples spanning several blocks (3)
        # the formats' maximum counts with tiny contents (9): MOD 128 patterns / order value 127, S3M 254 patterns / 255
        # orders / 255 instruments, XM 256 patterns / 256 orders / 255 instruments / 256 rows, IT 200 patterns / 256 orders /
        # 255 samples and instruments / 200 rows
        nbig = {"quick": (2, 1, 3, 4), "thorough": (6, 3, 12, 16)}[ck.tier]
        # IT only: multi-block compressed samples (3); highly compressible PCM (silence, constants, silent tails) through the
        # IT 2.14 / 2.15 compressed path with the narrowest codes, stored last in the file (4)
        nquiet = {"quick": 10, "thorough": 40}[ck.tier]
        # MOD only (4): the header conventions of a Protracker module (tracker fingerprint) with every loop-position corner
        nptk = {"quick": 6, "thorough": 24}[ck.tier]
        for cls, cnt in ((5, nbig[0]), (6, nbig[1]), (9, nbig[3])) + (((3, nbig[2]), (4, nquiet)) if fmt == "it" else ()) + \
                (((4, nptk),) if fmt == "mod" else ()):
            for j in range(cnt):
                reqs.append("gen %s %s-s%d-%d %d %d" % (fmt, fmt, cls, j, ck.seed * 100003 + 31 * j + cls, cls))
        if fmt == "xm":
            # regression witnesses of the two repaired end-of-file defects (their signatures must fire again if they return)
            for w in (7, 8):
                for j in range(3):
                    reqs.append("gen xm xm-w%d-%d %d %d" % (w, j, ck.seed * 100003 + 17 * j + w, w))
        gen = run_many([drv], reqs)
        hexreqs = []
        for rc, blocks, err, ls in gen:
            if rc != 0:
                raise vlib.InfraError("drv_c19 gen failed: " + err[-1000:])
            for cid, lines in blocks:
                meta, body = strip_meta(lines)
                if "hex" not in meta:
                    raise vlib.InfraError("drv_c19 gen produced no file for " + cid)
                data = bytes.fromhex(meta["hex"]) if meta["hex"] != "-" else b""
                files[cid] = (fmt, data, body, meta)
                hexreqs.append("all %s %s %s" % (cid, ",".join(str(v) for v in advisory_sizes(data, body)), meta["hex"])
                               if data else "hex %s %s" % (cid, meta["hex"]))
                # the model's own round trip (what the theorems claim, evaluated)
                bump("%s_model_roundtrip_%s" % (fmt, meta.get("rt", "?")))
                bump("%s_generated_wellformed_%s" % (fmt, meta.get("wf", "?")))
                excluded = meta.get("excluded") == "true"   # deliberately inside a region excluded because of a known loader defect
                if excluded:
                    bump("%s_generated_in_excluded_region" % fmt)
                if meta.get("wf") != "true" and not excluded:
                    ck.unproved("generator %s" % fmt, "generated song %s is outside WellFormed (%s)" % (cid, meta.get("opts")))
                if meta.get("rt") != "ok" and not excluded:
                    ck.unproved("model round trip %s" % fmt, "read (write s o) %s on generated case %s (%s); request: %s" % (
                        meta.get("rt"), cid, meta.get("opts"), [r for r in reqs if " %s " % cid in r]))
        # ---- direct oracle: real loader on the writer's files vs the abstract song -----------------
        real = {}
        for rc, blocks, err, ls in run_many([exe], hexreqs):
            for cid, lines in blocks:
                real[cid] = lines
            if rc != 0:
                done = {c for c, _ in blocks}
                culprit = next((l.split(" ")[1] for l in ls if l.split(" ")[1] not in done), "?")
                sig = vlib.sanitizer_signature(err)
                f = files.get(culprit)
                ck.violation("harness-abort:%s:%s" % (fmt, sig), {"fmt": fmt, "hex": f[1].hex() if f else "", "opts": f[3].get("opts") if f else "",
                                                                 "stderr": err[-3000:]},
                             "loading a well-formed %s file written by the independent encoder aborts: %s" % (fmt, sig))
        for cid, (f_fmt, data, body, meta) in files.items():
            if f_fmt != fmt or cid not in real:
                continue
            entries = entry_results(real[cid])
            rmeta, rbody = strip_meta([l for l in real[cid] if not l.startswith(("entry ", "| "))])
            key = vlib.hash_str(meta["hex"][:4000] + str(len(data)))
            nontrivial = any(l.startswith("smp ") and not l.endswith(" -") for l in body) and len(data) > 1084
            ck.count(key, nontrivial=nontrivial)
            bump(fmt + "_oracle_cases")
            sp = (meta.get("opts") or "").split(" ")[0]
            if sp in ("special=3", "special=4", "special=5", "special=6", "special=9"):
                bump(fmt + "_oracle_" + {"special=3": "multiblock_compressed",
                                         "special=4": "compressible_last_sample" if fmt == "it" else "protracker_fingerprint",
                                         "special=5": "samples_beyond_64KiB",
                                         "special=6": "samples_beyond_1MiB", "special=9": "format_maxima"}[sp])
            bump(fmt + "_oracle_bytes", len(data))
            ck.sample({"fmt": fmt, "id": cid, "opts": meta.get("opts"), "size": len(data)}, limit=6)
            if rbody and rbody[0].startswith("loadfail"):
                ck.violation("oracle:%s:loadfail" % fmt, {"fmt": fmt, "hex": data.hex(), "opts": meta.get("opts"), "expected_dump": body},
                             "well-formed %s file from the independent encoder is refused (%s); opts %s" % (fmt, rbody[0], meta.get("opts")))
                continue
            d, field = first_diff(canon(fmt, body), canon(fmt, rbody))
            if d:
                field = classify(fmt, d, field, body, meta)
                ck.violation("oracle:%s:%s" % (fmt, field), {"fmt": fmt, "hex": data.hex(), "opts": meta.get("opts"), "diff": d, "expected_dump": body},
                             "loaded %s module differs from the encoded abstract song: %s ; opts %s" % (fmt, d, meta.get("opts")))
            else:
                bump(fmt + "_oracle_agree")
            # the other entry points (path, callbacks, FILE with every advisory `size`) must load the same module
            for e in entries:
                bump(fmt + "_oracle_entry_loads")
                if e["what"] == "same":
                    bump(fmt + "_oracle_entry_agree")
                    continue
                kind = e["name"].split(":")[0]
                if e["dump"]:
                    dd, fld = first_diff(canon(fmt, body), canon(fmt, strip_meta(e["dump"])[1]))
                    desc = "differs from the abstract song: %s" % dd if dd else "differs from the memory load"
                    fld = fld or "other"
                else:
                    fld, desc = "rc", "returns %s while the memory load returns %s" % (
                        e["what"], rbody[0] if rbody and rbody[0].startswith("loadfail") else "0")
                ck.violation("oracle:%s:entry-%s:%s" % (fmt, kind, fld),
                             {"fmt": fmt, "hex": data.hex(), "opts": meta.get("opts"), "entry": e["name"], "expected_dump": body},
                             "%s file loaded through entry point %s %s ; opts %s" % (fmt, e["name"], desc, meta.get("opts")))

        ck.note("t_oracle_%s_s" % fmt, round(time.time() - tf, 1))
        tf = time.time()
        vlib._repo_hash_cache = None
        exe = vlib.build_harness("c19_roundtrip", ["c19_roundtrip.c"])
        # ---- correspondence of the Lean loader model: mutants and corpus ---------------------------
        cases = {}
        ids = [c for c in files if files[c][0] == fmt]
        nm = {"quick": 160, "thorough": 3000}[ck.tier]
        small = sorted(ids, key=lambda c: len(files[c][1]))[:max(8, len(ids) // 2)]
        for i in range(nm):
            src = ck.rng.choice(small)
            mb, where = mutate(ck.rng, files[src][1], fmt)
            cases["%s-m%d" % (fmt, i)] = (mb, "mutant of %s at %s" % (src, where))
        for c in ids[: (12 if quick else 200)]:
            cases[c + "-same"] = (files[c][1], "unmodified " + c)
        for p in corpus_of(fmt):
            cases["%s-c-%s" % (fmt, os.path.basename(p).replace(" ", "_"))] = (open(p, "rb").read(), "corpus " + p)
        hexl = {c: (v[0].hex() or "-") for c, v in cases.items()}
        realc, modelc = {}, {}
        for rc, blocks, err, ls in run_many([exe], ["hex %s %s" % (c, h) for c, h in hexl.items()]):
            for cid, lines in blocks:
                realc[cid] = lines
            if rc != 0:
                done = {c for c, _ in blocks}
                culprit = next((l.split(" ")[1] for l in ls if l.split(" ")[1] not in done), "?")
                sig = vlib.sanitizer_signature(err)
                # memory safety on arbitrary bytes is C01's property; record, do not judge here
                bump(fmt + "_mutant_harness_abort")
                ck.note("abort_example_" + fmt, {"case": cases.get(culprit, (b"", "?"))[1], "sig": sig})
        for rc, blocks, err, ls in run_many([drv], ["read %s %s %s" % (fmt, c, h) for c, h in hexl.items()]):
            if rc != 0:
                raise vlib.InfraError("drv_c19 read failed: " + err[-1000:])
            for cid, lines in blocks:
                modelc[cid] = lines
        for cid, (data, what) in cases.items():
            if cid not in realc or cid not in modelc:
                continue
            kind = "corpus" if "-c-" in cid else ("same" if cid.endswith("-same") else "mutant")
            bump("%s_corr_%s" % (fmt, kind))
            if modelc[cid] and modelc[cid][0] == "silent":
                bump("%s_corr_%s_model_silent" % (fmt, kind))
                continue
            _, rbody = strip_meta(realc[cid])
            _, mbody = strip_meta(modelc[cid])
            if rbody and rbody[0].startswith("loadfail"):
                ck.unproved("correspondence %s.read vs %s loader" % (fmt, fmt),
                            "model loads but the real loader fails (%s): %s ; hex in out/c19-corr-%s.bin" % (rbody[0], what, cid))
                open(os.path.join(vlib.OUT, "c19-corr-%s.bin" % cid), "wb").write(data)
                continue
            d, field = first_diff(canon(fmt, mbody), canon(fmt, rbody))
            if d:
                open(os.path.join(vlib.OUT, "c19-corr-%s.bin" % cid), "wb").write(data)
                ck.unproved("correspondence %s.read vs %s loader" % (fmt, fmt),
                            "%s: model(expected)/real(got) %s ; bytes in out/c19-corr-%s.bin" % (what, d, cid))
            else:
                ck.cov["traces_validated_against_impl"] += 1
                bump("%s_corr_%s_agree" % (fmt, kind))
        ck.note("t_corr_%s_s" % fmt, round(time.time() - tf, 1))
    for k, v in sorted(stats.items()):
        ck.note(k, v)
    ck.cov["rule"] = ("oracle cases = (format, abstract song, writer options) generated from VERIF_SEED by the Lean driver; distinct by hash of "
                      "the written file; non-trivial = the song has at least one sample with PCM and at least one pattern")
    ck.assumptions += [
        "observation rule: loop points are compared only when the loop flag is set; XMP_SAMPLE_LOOP_FULL (tracker heuristic) is masked",
        "MOD: a PCM body starting with the bytes 'ADPCM' is outside WellFormed (ModPlug ADPCM extension is ambiguous with raw PCM)",
        "xpo/fin derived from c2spd by floating point (S3M, IT) are not compared",
    ]


def replay(ck, rp):
    """Re-run the recorded file on the real loader and compare with the recorded abstract song."""
    exe = vlib.build_harness("c19_roundtrip", ["c19_roundtrip.c"])
    r = rp["replay"]
    if not isinstance(r, dict) or "hex" not in r:
        print("replay file names a broken theorem/correspondence, not an input: %s" % str(r)[:1500])
        return 1
    data = bytes.fromhex(r.get("hex") or "")
    sizes = ",".join(str(v) for v in advisory_sizes(data, r.get("expected_dump") or []))
    rc, out, err = run_proc([exe], ("all replay %s %s\n" % (sizes, r["hex"])) if data else "hex replay -\n")
    print("recorded: fmt=%s opts=%s diff=%s" % (r.get("fmt"), r.get("opts"), r.get("diff")))
    verdict = None
    if rc != 0:
        verdict = "harness aborted: " + vlib.sanitizer_signature(err)
        print(err[-2000:])
    else:
        blocks = parse_blocks(out)
        lines = blocks[0][1] if blocks else ["loadfail ?"]
        bad = [e for e in entry_results(lines) if e["what"] != "same"]
        _, rbody = strip_meta([l for l in lines if not l.startswith(("entry ", "| "))])
        if bad:
            verdict = "entry point(s) %s do not load what the memory entry point loads" % ", ".join(
                "%s (%s)" % (e["name"], e["what"]) for e in bad)
        if verdict:
            pass
        elif rbody and rbody[0].startswith("loadfail"):
            verdict = "the real loader refuses the file: " + rbody[0]
        elif r.get("expected_dump"):
            d, _ = first_diff(canon(r["fmt"], r["expected_dump"]), canon(r["fmt"], rbody))
            if d:
                verdict = "loaded module differs from the abstract song: " + d
    if verdict:
        print("replay: property FAILS on this input: " + verdict)
        print("VIOLATION property=C19 replay=(this file)")
        return 1
    print("replay: the real loader now reproduces the recorded abstract song")
    return 0
