"""C20 — Sample decoding applies exactly the declared conversions.

translator : tools/gen_sample.py regenerates XmpModel/Gen/SampleConsts.lean (SAMPLE_FLAG_*, XMP_SAMPLE_*,
             MAX_SAMPLE_SIZE, vdic_table, order of the flag-conditioned steps) from /repo on every run
proof      : XmpProps.C20 over XmpModel.Sample (loop-style model `Sample.load` = closed-form `Sample.Spec.load`)
tie        : correspondence — harness/c20_sample.c calls the real libxmp_load_sample (memory HIO handle or
             SAMPLE_FLAG_NOLOAD buffer, or a callback HIO handle whose read function comes back short) under ASan+UBSan; the native driver drv_c20 evaluates, on the same case
             lines, the loop-style model (M) and the closed-form specification (S); return code, len/lps/lpe/flg,
             hio_tell and the whole allocation data[-4 .. bytelen+extralen) are compared
oracle     : the closed-form specification S *is* the reference decoder of the property: real != S is a
             VIOLATION (replay = the case); real == S but real != M is a broken correspondence only.
             A C-side shape oracle (loop range, guard replication) and the sanitizers run on every case too.
"""
import os
import resource
import subprocess
import sys

sys.path.insert(0, os.path.dirname(os.path.dirname(os.path.abspath(__file__))))
import vlib        # noqa: E402
import gen_sample  # noqa: E402

LEVEL = "proof"
MANIFEST = dict(
    category="proof",
    text="Lean 4 theorems (XmpProps.C20) prove, for ALL flag sets, widths, layouts, lengths, loop points, streams and available-byte "
         "counts, that the pass-by-pass model of libxmp_load_sample (truncation block with its bit operations, loop sanity, read / "
         "in-place ADPCM4 decoder, 7-bit shift, endian swap, 8/16-bit delta per plane, sign flip, VIDC table, stereo interleave, "
         "full-repeat flag, both guard-fill loops in their index order) equals the closed-form element-wise reference decoder: "
         "C20_main (whole function, incl. return code, header, consumed bytes, whole allocation), C20_pipeline / C20_pipeline_load / "
         "C20_stage_* (loops = index formulas, in the defined order; C20_stage_order ties the order to the regenerated call order; "
         "OrderSensitive examples pin it), C20_truncation / C20_truncation_prefix, C20_short_read_main / C20_short_read / "
         "C20_short_read_dest / _enough / _adpcm / _header / _none (a read that comes back short although hio_size() promised the bytes: the "
         "delivered bytes survive and the tail is zero before any conversion, every width and every cut, frame-aligned or not; ADPCM "
         "fails as a whole), C20_loop, C20_final_loop / C20_final_loop_id (the loop clause on the sample as finally exposed: loop points "
         "a loader stores after the PCM load are put in range by the epilogue's loop block, C03's LoadPost.epilogueLoop), C20_guards, C20_no_error, C20_vidc_table, "
         "Sample.alloc_le, Sample.writes_in_bounds. The model is tied to src/loaders/sample.c on every run by regenerated "
         "constants/tables (translator) and a differential correspondence against the real function under ASan+UBSan on the whole "
         "allocation data[-4 .. bytelen+extralen), incl. every call the corpus modules' real loaders make (link-time spy); the "
         "closed form (with its own copy of the published VIDC law) doubles as the direct oracle that yields replayable failing inputs. "
         "Beyond load time the check also evaluates the property on the sample as exposed later: the final headers of every corpus / "
         "synthetic module (DBM in both chunk orders) against LoadPost.epilogueLoop and the loop-range clause, and the PCM + guard "
         "frames after playback (one-instrument module around each tested sample and the corpus modules themselves, nearest/linear/"
         "spline, loop end == len, Protracker sample swaps between two looped samples) against their load-time content, which the "
         "load correspondence ties to the Lean reference; and the truncation clause at loader level: every corpus / synthetic module "
         "cut around the start and the end of EVERY sample, through memory, FILE and callbacks, each sample read from the offset it "
         "is stored at and exposing exactly the whole frames present as a prefix of what the whole file exposes.",
    note="Trusted: Lean kernel (propext/Classical.choice/Quot.sound only), the hand-written definitions in XmpModel/Sample.lean "
         "(loop-style model and closed-form specification), tools/gen_sample.py, the harness and differ. Modelled-not-verified: the HIO "
         "layer (hio_tell/hio_size/hio_read/hio_seek are assumed: a read delivers min(requested, what is left of `limit`) bytes and "
         "returns that count for item size 1 - `limit` >= avail for memory/regular files, smaller for a failing callback, one cut "
         "point, later reads return 0; memory seeks clamp), malloc failure paths, big-endian hosts (WORDS_BIGENDIAN), the callers' obligations that a NOLOAD "
         "buffer holds len*framelen bytes (hypothesis BufferOk) and that the handle is non-NULL on the skip path; xmp_sample.flg is "
         "a 32-bit vector, len/lps/lpe unbounded integers (len*framelen <= 2^30 cannot overflow int since len <= MAX_SAMPLE_SIZE). "
         "The single byte adpcm4_decoder writes at dest[bytelen] for odd bytelen is not represented in the model's buffer (it is "
         "covered by writes_in_bounds and overwritten by the guard fill). Sample.accesses (the access ranges writes_in_bounds "
         "talks about) is a hand transcription checked against the C only by ASan in the harness. Correspondence is differential "
         "(quick: sampled; thorough: exhaustive small space + sampled large + whole corpus), not a proof about the C text. "
         "Post-playback integrity is only evaluated (direct oracle, no Lean model of the mixer's loop wrap-around: that is C15's); "
         "LoadPost.epilogueLoop is C03's model, used read-only. The loader-level cut oracle is skipped for a cut file that is read "
         "as a different layout (type/pat/trk/chn/ins/smp/len or a declared sample length differ: several loaders size tables from "
         "the file length). A sample cut short by the end of the stream consumes the rest of it (cd1ebb4); the stream position after a "
         "truncated load is modelled as the end of the stream.",
    technique="Lean 4 proofs by induction over each pass (loop = closed form) + regenerated constants + differential "
              "correspondence and closed-form oracle against the sanitized C",
    design_ref="DESIGN.md section 4 C20",
)

WRAP = ["-Wl,--wrap=libxmp_load_sample", "-Wl,--wrap=libxmp_load_epilogue"]

REQUIRED = ["Xmp.Sample." + n for n in (
    "C20_stage_order", "C20_vidc_table", "C20_main", "C20_no_error", "C20_loaded", "C20_pipeline", "C20_pipeline_load", "C20_stage_shl1", "C20_stage_bswap",
    "C20_stage_delta8", "C20_stage_delta16", "C20_stage_unsign", "C20_stage_vidc", "C20_stage_interleave", "C20_stage_adpcm",
    "C20_truncation", "C20_truncation_prefix", "C20_short_read_main", "C20_short_read_none", "C20_short_read_dest",
    "C20_short_read", "C20_short_read_enough", "C20_short_read_adpcm", "C20_short_read_header", "C20_loop",
    "C20_final_loop", "C20_final_loop_id", "C20_guards", "alloc_le", "writes_in_bounds")]

FIELDS = ["ret", "len", "lps", "lpe", "flg", "tell", "data"]
FBITS = {"DIFF": 1, "UNS": 2, "8BDIFF": 4, "7BIT": 8, "NOLOAD": 0x10, "BIGEND": 0x40, "VIDC": 0x80, "INTERLEAVED": 0x100,
         "FULLREP": 0x200, "ADLIB": 0x1000, "HSC": 0x2000, "ADPCM": 0x4000}


def _unlimit_stack():
    try:
        soft, hard = resource.getrlimit(resource.RLIMIT_STACK)
        resource.setrlimit(resource.RLIMIT_STACK, (hard, hard))
    except (ValueError, OSError):
        pass


def run_driver_bytes(data, timeout=1800):
    exe = vlib.lean_driver("drv_c20")
    if not os.path.exists(exe):
        raise vlib.InfraError("driver drv_c20 not built")
    p = subprocess.run([exe], input=data, stdout=subprocess.PIPE, stderr=subprocess.PIPE, timeout=timeout,
                       preexec_fn=_unlimit_stack)
    if p.returncode != 0:
        raise vlib.InfraError("driver drv_c20 failed (%d): %s" % (p.returncode, p.stderr.decode()[-2000:]))
    return p.stdout.decode("latin-1").splitlines()


def same_result(r, x):
    """real result line `r` vs model/spec line `x` (both with their one-letter tag): equal up to the fields the
    reference leaves open (`?`: header and stream position after a failed load)"""
    if x[1:] == r[1:]:
        return True
    if "?" not in x:
        return False
    a, b = r.split(" ")[2:], x.split(" ")[2:]
    return len(a) == len(b) and all(p == q or q == "?" for p, q in zip(a, b))


def which_field(a, b):
    """first differing observable between two result lines (already split after the id)"""
    if a is None or b is None:
        return "missing"
    for n, x, y in zip(FIELDS, a, b):
        if x != y and y != "?":
            if n != "data":
                return n
            if x == "NULL" or y == "NULL":
                return "data-null"
            if len(x) != len(y):
                return "alloc-size"
            i = next(k for k in range(0, len(x), 2) if x[k:k + 2] != y[k:k + 2]) // 2
            try:
                flg = int(a[4])
                bytelen = int(a[1]) * (2 if flg & 1 else 1) * (2 if flg & 0x80 else 1)
            except ValueError:
                bytelen = 0
            return "guard-start" if i < 4 else ("pcm" if i < 4 + bytelen else "guard-end")
    return "same"


def job(args):
    """one harness run + one driver run; returns a summary dict (no big data)"""
    exe, hargs, have_driver = args
    rc, out, err = vlib.run_exe(exe, hargs, timeout=3000)
    res = {"args": hargs, "n": 0, "bad": [], "abort": None, "stats": {}, "keys": [], "samples": [], "validated": 0}
    text = out.decode("latin-1")
    if rc != 0 and hargs[0] in ("corpus", "cuts") and "libxmp_load_sample" not in err:
        # a crash of some loader outside the sample routine is not C20's business: redo file by file, drop the crashing ones
        if len(hargs) > 3:
            merged = dict(res)
            merged["foreign_abort"] = []
            parts = [job((exe, hargs[:2] + [fn], have_driver)) for fn in hargs[2:]]
            for pr in parts:
                if pr.get("foreign_abort"):
                    merged["foreign_abort"] += pr["foreign_abort"]
                    continue
                if pr["abort"]:
                    merged["abort"] = pr["abort"]
                    continue
                merged["n"] += pr["n"]
                merged["validated"] += pr["validated"]
                merged["bad"] += pr["bad"]
                merged["keys"] += pr["keys"]
                merged["samples"] += pr["samples"][:1]
                merged.setdefault("corpus_flags", set()).update(pr.get("corpus_flags", set()))
                for k, v in pr["stats"].items():
                    merged["stats"][k] = merged["stats"].get(k, 0) + v
            return merged
        res["foreign_abort"] = [{"file": hargs[-1], "sig": vlib.sanitizer_signature(err)}]
        return res
    if rc != 0:
        # name the case: re-run flushing every case line, the last one printed is the culprit
        rc2, out2, err2 = vlib.run_exe(exe, hargs, timeout=3000, env={"C20_FLUSH": "1"})
        last = [l for l in out2.decode("latin-1").splitlines() if l.startswith("case ")]
        res["abort"] = {"rc": rc, "sig": vlib.sanitizer_signature(err2 or err), "case": last[-1] if last else "",
                        "stderr": (err2 or err)[-3000:]}
        return res
    hl = text.splitlines()
    cases, rl, ol, er, epi = [], [], {}, {}, {}
    for l in hl:
        c = l[0] if l else ""
        if c == "c" and l.startswith("case "):
            cases.append(l)
        elif c == "E" and l.startswith("ER "):
            f = l.split(" ", 2)
            er[f[1]] = f[2]
        elif c == "e" and l.startswith("epi "):
            f = l.split(" ", 2)
            epi[f[1]] = f[2]
        elif c == "p" and l.startswith("plays "):
            res["stats"]["played_after_load"] = res["stats"].get("played_after_load", 0) + int(l.split(" ")[1])
        elif c == "R":
            rl.append(l)
        elif c == "O":
            f = l.split(" ", 2)
            ol[f[1]] = f[2]
        elif l.startswith("spy "):
            for kv in l.split(" ")[1:]:
                k, v = kv.split("=")
                res["stats"]["corpus_calls_" + k] = res["stats"].get("corpus_calls_" + k, 0) + int(v)
        elif l.startswith("cutstat "):
            for kv in l.split(" ")[1:]:
                k, v = kv.split("=")
                res["stats"]["cuts_" + k] = res["stats"].get("cuts_" + k, 0) + int(v)
                if k == "compared":
                    res["extra_evals"] = res.get("extra_evals", 0) + int(v)
        elif l.startswith("file "):
            res["stats"]["corpus_files"] = res["stats"].get("corpus_files", 0) + 1
            if " ret=0 " in l:
                res["stats"]["corpus_files_loaded"] = res["stats"].get("corpus_files_loaded", 0) + 1
    if len(cases) != len(rl):
        raise vlib.InfraError("harness output malformed: %d cases, %d results (%s)" % (len(cases), len(rl), hargs))
    dl = run_driver_bytes(out) if have_driver else None
    em = {}
    if dl is not None and epi:
        rest = []
        for l in dl:
            if l.startswith("EM "):
                f = l.split(" ", 2)
                em[f[1]] = f[2]
            else:
                rest.append(l)
        dl = rest
    if dl is not None and len(dl) != 2 * len(cases):
        raise vlib.InfraError("driver output malformed: %d lines for %d cases" % (len(dl), len(cases)))
    st = res["stats"]

    def bump(k, n=1):
        st[k] = st.get(k, 0) + n

    keys = res["keys"]
    for i, (cl, r) in enumerate(zip(cases, rl)):
        cf = cl.split(" ", 10)
        cid, flags, ln, lps, lpe, flg, skip, pos = cf[1], int(cf[2]), int(cf[3]), int(cf[4]), int(cf[5]), int(cf[6]), int(cf[7]), int(cf[8])
        rf = r.split(" ")
        alloc = rf[8] != "NULL"
        lim = None
        if hargs[0] in ("short", "exhs", "replay"):
            tail = cf[10].split(" ")
            if len(tail) == 2:
                lim = int(tail[1])
        if lim is not None:
            bump("callback_handle_cases")
            if rf[2] == "-1":
                bump("callback_failed_load_ret_-1")
            elif alloc and not flags & 0x10:
                fl_ = (2 if flg & 1 else 1) * (2 if flg & 0x80 else 1)
                bl = int(rf[3]) * fl_
                if not flags & 0x4000 and lim < bl:
                    bump("short_read_survived_%d%s" % (16 if flg & 1 else 8, "s" if flg & 0x80 else "m"))
                    if lim == 0:
                        bump("short_read_nothing_delivered")
                    if lim % fl_:
                        bump("short_read_not_frame_aligned")
        rlen = int(rf[3])
        nontrivial = False
        if alloc:
            bump("allocated")
            conv = flags & (0x1 | 0x2 | 0x4 | 0x8 | 0x40 | 0x80 | 0x4000) or ((flg & 0x80) and not flags & 0x100)
            trunc = rlen != ln
            loopchg = (int(rf[4]) != lps or int(rf[5]) != lpe or int(rf[6]) != flg)
            if trunc:
                bump("truncated")
                if rlen == 0:
                    bump("truncated_to_empty")
            if loopchg:
                bump("loop_or_flags_changed")
            if int(rf[6]) & 2:
                bump("loop_kept")
            if int(rf[6]) & 16 and not flg & 16:
                bump("fullrep_set")
            for nme, bit in FBITS.items():
                if flags & bit:
                    bump("flag_" + nme)
            bump("width_%s%s" % ("16" if flg & 1 else "8", "s" if flg & 0x80 else "m"))
            nontrivial = bool(rlen > 0 and (conv or trunc or loopchg))
        else:
            bump("skipped")
            if flags & 0x1000:
                bump("skipped_adlib")
            elif ln <= 0:
                bump("skipped_nonpositive_len")
            elif ln > 0x10000000 or skip & 2:
                bump("skipped_huge_or_smpctl")
            elif pos < 0:
                bump("skipped_null_handle")
            else:
                bump("skipped_at_eof_or_short_adpcm")
        if hargs[0] == "corpus":
            res.setdefault("corpus_flags", set()).add(flags)
        if lim is not None and rf[2] == "-1":
            nontrivial = True
        if nontrivial:
            keys.append(hash((flags, ln, lps, lpe, flg, skip, len(cf[9]), cf[9][:64], cf[10][:64])))
        if len(res["samples"]) < 2 and nontrivial:
            res["samples"].append({"case": cl[:200], "real": r[:200]})
        o = ol.get(cid)
        m = s = None
        if dl is not None:
            m, s = dl[2 * i], dl[2 * i + 1]
        ok_s = s is None or s.endswith(" toolarge") or same_result(r, s)
        ok_m = m is None or same_result(r, m)
        if s is not None and s.endswith(" toolarge"):
            bump("spec_not_evaluated_large")
        if ok_s and ok_m and o is None:
            if dl is not None:
                res["validated"] += 1
            continue
        if len(res["bad"]) < 40:
            res["bad"].append({"case": cl, "R": r, "M": m, "S": s, "O": o, "ok_s": ok_s, "ok_m": ok_m})
    # sample headers through libxmp_load_epilogue (corpus mode): real vs LoadPost.epilogueLoop/epilogueSmp
    for k, pre in epi.items():
        bump("epilogue_headers")
        pf = pre.split(" ")
        real = er.get(k)
        if real is not None and pf[0] == "1":
            rfl = real.split(" ")
            if (pf[2], pf[3], pf[4]) != (rfl[0], rfl[1], rfl[2]):
                bump("epilogue_changed_loop_or_flags")
            if int(pf[2]) < 0 or int(pf[3]) > int(pf[1]) or int(pf[2]) > int(pf[3]):
                bump("epilogue_saw_loop_outside_data")
        if have_driver and real is not None and em.get(k) is not None and em[k] != real and len(res["bad"]) < 60:
            res["bad"].append({"kind": "epilogue", "id": k, "pre": pre, "real": real, "model": em[k], "file": hargs[2:]})
        elif have_driver and real is not None and em.get(k) == real:
            res["validated"] += 1
    # oracle lines that do not belong to a case line (final headers / playback of a whole corpus module)
    cids = None
    for k, what in ol.items():
        if k.startswith("c") and "_e" in k:
            res["bad"].append({"kind": "module-oracle", "id": k, "O": what, "file": hargs[2:], "mode": hargs[0]})
    res["n"] = len(cases) + res.get("extra_evals", 0)
    res["mode"] = hargs[0]
    return res


def synth_modules(ck, nrandom):
    """Modules whose loaders store loop points AFTER the PCM was loaded (DBM with SMPL before INST) and the usual order,
    with loops inside, at and beyond the data; plus random modules of the coordinator's generators (tools/synthmods.py,
    used read-only).  Written under out/ (git-ignored)."""
    import random
    import shutil
    try:
        import synthmods
    except Exception as e:      # the generators are not ours: their absence must not break the check
        ck.note("synthmods_unavailable", str(e)[:200])
        return []
    d = os.path.join(vlib.OUT, "c20-synth")
    shutil.rmtree(d, ignore_errors=True)
    os.makedirs(d, exist_ok=True)
    rng = random.Random(ck.seed * 977 + 5)
    out = []
    loops = [(4, 100), (0, 16), (4, 8), (16, 4), (0, 0), (15, 1), (0x7fffffff, 1), (0, 0xffffffff), (8, 8), (1, 39), (0, 41), (20, 20)]
    orders = [("INFO", "SONG", "INST", "PATT", "SMPL"), ("INFO", "SONG", "SMPL", "PATT", "INST"), ("INFO", "SMPL", "INST", "SONG", "PATT")]
    k = 0
    try:
        for oi, order in enumerate(orders):
            for g in range(0, len(loops), 4):
                samples = [(1, 16, bytes(rng.randrange(256) for _ in range(16))),
                           (2, 40, bytes(rng.randrange(256) for _ in range(80)))]
                insts = []
                for j, (lps, lpl) in enumerate(loops[g:g + 4]):
                    insts.append((1 + (j + g // 4) % 2, 64, 8363, lps, lpl, 0, rng.choice([1, 2, 1, 3])))
                cells = [(r, 1 + r % 2, 0x30 + r, 1 + r % len(insts), None, 0, None, 0) for r in range(8)]
                data = synthmods.dbm_module(2, [0], [(16, cells)], insts, samples, (), (), order, version=0x0205)
                fn = os.path.join(d, "dbm-order%d-loops%d.dbm" % (oi, g))
                open(fn, "wb").write(data)
                out.append(fn)
        # Protracker modules with several short samples (the MOD loader probes 5 bytes ahead of every sample)
        for mi, lens in enumerate([(8, 12, 20), (2, 6, 4, 10), (30, 2, 2, 16)]):
            smps = [(bytes(rng.randrange(256) for _ in range(n)), 64, 0, 1) for n in lens]
            rows = {0: [(0, 428, 1, 0, 0)], 4: [(1, 428, 2, 0, 0)], 8: [(0, 0, 2, 0, 0)]}
            data = synthmods.mod_module(smps, rows)
            fn = os.path.join(d, "mod-short-samples%d.mod" % mi)
            open(fn, "wb").write(data)
            out.append(fn)
        gens = [getattr(synthmods, n) for n in ("gen_dbm", "gen_mmd", "gen_xm", "gen_it", "gen_s3m", "gen_mod", "gen_dbm", "gen_mmd")
                if hasattr(synthmods, n)]
        for i in range(nrandom):
            g = gens[i % len(gens)]
            data, ext = g(rng)
            if len(data) > 300000:
                continue
            fn = os.path.join(d, "rnd%04d.%s" % (i, ext))
            open(fn, "wb").write(data)
            out.append(fn)
            k += 1
    except Exception as e:
        ck.note("synthmods_error", repr(e)[:200])
    ck.note("synthetic_modules", len(out))
    return out


def fnv32(s):
    h = 0xcbf29ce484222325
    for ch in s.encode():
        h ^= ch
        h = (h * 0x100000001b3) & 0xffffffffffffffff
    return h & 0xffffffff


def file_of_id(cid, files):
    """the corpus-mode ids are `c<fnv of the path>_...`"""
    for fn in files:
        if cid.startswith("c%08x_" % fnv32(fn)):
            return fn
    return None


def shrink_note(b):
    return b["case"] if len(b["case"]) < 4000 else b["case"][:4000] + "…"


def run(ck):
    g = gen_sample.generate()
    ck.note("translator", {"SampleConsts_changed": g["changed"], "flag_order": g["flag_order"], "stage_order": g["stage_order"]})
    ck.proofs(["XmpProps.C20"], required=REQUIRED, drivers=["drv_c20"])
    proofs_ok = bool(getattr(ck, "lean_ok", False)) and not ck.unproved_items
    exe = vlib.build_harness("c20_sample", ["c20_sample.c"], extra=WRAP)
    quick = ck.tier == "quick"
    have_driver = os.path.exists(vlib.lean_driver("drv_c20")) and getattr(ck, "lean_ok", False)
    if not have_driver and os.path.exists(vlib.lean_driver("drv_c20")):
        # proofs broken but the driver of an earlier build may exist: still try to use it if it can be rebuilt alone
        ok, _ = vlib.lean_build(["drv_c20"])
        have_driver = ok
    jobs = []
    base = ck.seed * 7919
    # minimised past failures / boundary cases first
    cdir = os.path.join(vlib.VERIF, "corpus", "C20")
    if os.path.isdir(cdir):
        for fn in sorted(os.listdir(cdir)):
            jobs.append((exe, ["replay", os.path.join(cdir, fn)], have_driver))
    # reads that come back short although hio_size() promised the bytes (callback handle)
    for i in range(4 if quick else 8):
        jobs.append((exe, ["exhs", str(i), str(4 if quick else 8)], have_driver))
    for i in range(8 if quick else 32):
        jobs.append((exe, ["short", str(base + 500 + i), "400" if quick else "5000"], have_driver))
    if quick:
        for i in range(16):
            jobs.append((exe, ["random", str(base + i), "400"], have_driver))
        for i in range(8):
            jobs.append((exe, ["big", str(base + 100 + i), "3"], have_driver))
        # a slice of the exhaustive space, chosen by the seed
        nsh = 4096
        for i in range(16):
            jobs.append((exe, ["exh", str((base + 257 * i) % nsh), str(nsh)], have_driver))
    else:
        for i in range(32):
            jobs.append((exe, ["random", str(base + i), "6000"], have_driver))
        for i in range(32):
            jobs.append((exe, ["big", str(base + 100 + i), "8"], have_driver))
        nsh = 512
        for i in range(nsh):
            jobs.append((exe, ["exh", str(i), str(nsh), "12"], have_driver))
    # real loaders: every call the corpus modules' loaders make to libxmp_load_sample (spy via -Wl,--wrap)
    files = [f for f in vlib.corpus_files() if os.path.getsize(f) < (400000 if quick else 4000000)]
    ck.rng.shuffle(files)
    if quick:
        files = files[:96]
    files = synth_modules(ck, 40 if quick else 400) + files     # synthetic ones first: they are always in the quick slice
    per = 6 if quick else 16
    for i in range(0, len(files), per):
        jobs.append((exe, ["corpus", "60000" if quick else "400000"] + files[i:i + per], have_driver))
    # loader-level truncation: every module cut around the start and the end of every sample, three entry points
    cfiles = [f for f in files if os.path.getsize(f) < 600000]
    if quick:
        cfiles = cfiles[:140]
    per = 9 if quick else 16
    for i in range(0, len(cfiles), per):
        jobs.append((exe, ["cuts", "120" if quick else "400"] + cfiles[i:i + per], have_driver))
    results = vlib.pmap(job, jobs, workers=16)
    stats = {}
    modes = {}
    corpus_flags = set()
    for r in results:
        mode = r["args"][0]
        for fa in r.get("foreign_abort") or []:
            ck.bump("corpus_files_crashing_outside_sample_loader")
            ck.note("corpus_crash_" + os.path.basename(fa["file"])[:40], fa["sig"])
        if r["abort"]:
            a = r["abort"]
            ck.violation("harness-abort:" + a["sig"],
                         {"case": a["case"], "cmd": ["c20_sample"] + r["args"], "stderr": a["stderr"]},
                         "libxmp_load_sample aborted under the sanitizers (rc=%d): %s on %s" % (a["rc"], a["sig"], a["case"][:200]))
            continue
        modes[mode] = modes.get(mode, 0) + r["n"]
        corpus_flags |= r.get("corpus_flags", set())
        ck.cov["evaluations"] += r["n"]
        ck.cov["traces_validated_against_impl"] += r["validated"]
        for k in r["keys"]:
            ck._distinct.add(k)
        for k, v in r["stats"].items():
            stats[k] = stats.get(k, 0) + v
        for s in r["samples"]:
            ck.sample(s, limit=5)
        for b in r["bad"]:
            if b.get("kind") == "module-oracle":
                fn = file_of_id(b["id"], b["file"])
                blob = None
                if fn and os.path.getsize(fn) < (1 << 20):
                    blob = open(fn, "rb").read().hex()
                ck.violation("sample:oracle:" + b["O"].split(" ")[0],
                             {"files": [fn] if fn else b["file"], "module_name": os.path.basename(fn) if fn else None, "module_hex": blob,
                              "sample": b["id"], "oracle": b["O"], "mode": b.get("mode", "corpus"),
                              "how": "c20_sample %s 400 <file> ; look for `O` lines" % b.get("mode", "corpus")},
                             "a sample of a successfully loaded module violates the property: %s (%s) ; files %s"
                             % (b["O"], b["id"], " ".join(os.path.basename(x) for x in b["file"])[:300]))
                continue
            if b.get("kind") == "epilogue":
                ck.unproved("correspondence LoadPost.epilogueLoop vs libxmp_load_epilogue",
                            "sample %s entered the epilogue as (hasdata len lps lpe flg sus sue)=(%s), left it as (lps lpe flg)=(%s), "
                            "the model says (%s) ; files %s" % (b["id"], b["pre"], b["real"], b["model"],
                                                             " ".join(os.path.basename(x) for x in b["file"])[:300]))
                continue
            rf = b["R"].split(" ")[2:]
            if b["O"] is not None:
                ck.violation("sample:oracle:" + b["O"].split(" ")[0], {"case": b["case"], "real": b["R"], "oracle": b["O"]},
                             "C-side oracle (shape right after the load / sample memory after playback) failed on the real code: %s ; case %s" % (b["O"], b["case"][:300]))
            elif not b["ok_s"]:
                fld = which_field(rf, b["S"].split(" ")[2:])
                ck.violation("sample:" + fld, {"case": b["case"], "real": b["R"], "spec": b["S"], "model": b["M"]},
                             "libxmp_load_sample differs from the closed-form reference decoder in `%s`: real=%s spec=%s ; case %s"
                             % (fld, b["R"][:160], b["S"][:160], b["case"][:300]))
            elif not b["ok_m"]:
                fld = which_field(rf, b["M"].split(" ")[2:])
                large = bool(b["S"]) and b["S"].endswith("toolarge")
                if large and proofs_ok:
                    # the closed form was not evaluated (quadratic); C20_main (kernel-checked in this run) proves the
                    # loop-style model equal to it, so the model's output is the reference output
                    ck.violation("sample:" + fld, {"case": b["case"], "real": b["R"][:4000], "model": (b["M"] or "")[:4000]},
                                 "libxmp_load_sample differs from the reference decoder (loop-style model, proved equal to the closed "
                                 "form by C20_main) in `%s` on a large case: real=%s model=%s ; case %s"
                                 % (fld, b["R"][:160], (b["M"] or "")[:160], b["case"][:300]))
                else:
                    ck.unproved("correspondence Sample.load vs libxmp_load_sample",
                                "loop-style model differs from the real code in `%s` while the closed-form reference %s: real=%s model=%s ; case %s"
                                % (fld, "was not evaluated (large case)" if large else "agrees",
                                   b["R"][:200], (b["M"] or "")[:200], shrink_note(b)))
    for k, v in sorted(stats.items()):
        ck.note(k, v)
    ck.note("cases_by_generator", modes)
    ck.note("corpus_distinct_loader_flag_sets", sorted("0x%x" % x for x in corpus_flags))
    ck.cov["rule"] = ("cases = (loader flags, len, lps, lpe, flg, smpctl/module, handle position, file bytes, NOLOAD buffer); generators: "
                      "random (all 12 flag bits, 8/16 bit, mono/stereo, len -3..64 and > MAX_SAMPLE_SIZE, loop points incl. inverted/"
                      "out-of-range/INT_MIN/INT_MAX, avail 0..need+9, NULL handle), big (len 65..70000), exh (every combination of the 10 "
                      "effective flag bits x width x layout x len 0..9 x every avail 0..need+3 x rotating loop grid (3 points per combination in quick, 12 in thorough, of 252), plus the full loop grid "
                      "on 4 flag sets; quick runs a seed-chosen 16/4096 slice), short / exhs (callback HIO handle whose read function delivers only `limit` bytes although hio_size() promised more: random cases with limit 0, need-1, 0..need+1, >= avail; and every width x len 1..6 x {complete, longer, truncated} stream x every limit 0..need+1 on 8 flag sets incl. ADPCM), corpus (every call real loaders make to libxmp_load_sample while the repository's test modules and synthetic DBM/MED/XM/IT/S3M/MOD modules - DBM in both chunk orders with loops inside, at and beyond the data - are loaded from memory, recorded by a --wrap spy with the stream cut to need+8 bytes; every sample header entering and leaving libxmp_load_epilogue; the final headers; 12 frames of playback per interpolator, and the `cuts` generator: each of these modules is loaded whole, recording where every sample's stored bytes start and end, then cut at sample_start + {-1..6} and sample_end - {0,1,2} of every sample and loaded through xmp_load_module_from_memory / _from_file / _from_callbacks: each sample must be read from the offset it is stored at, expose exactly the whole frames present, as a prefix of what the whole file exposes, and nothing when it lies after the cut). After every Nth load-time case (all in random/short/exhs/replay, 1/8 in exh) a one-instrument module is built around the loaded sample and played with nearest/linear/spline, as loaded and with a loop ending at len and a bidirectional inner loop, and the allocation is compared with its load-time content. distinct = hash of the case without its id; non-trivial = "
                      "the real code allocated PCM with len' > 0 and a conversion applied, the sample was truncated, or loop/flags changed, or a short read made the load fail")
    ck.assumptions += [
        "memory HIO handle semantics (hio_tell/hio_size/hio_read/hio_seek) as modelled: reads are complete up to the end, seeks clamp",
        "malloc succeeds; little-endian host; a NOLOAD buffer holds at least len*framelen bytes; handle non-NULL on the skip path",
    ]
    return 0


def replay(ck, rp):
    exe = vlib.build_harness("c20_sample", ["c20_sample.c"], extra=WRAP)
    case = rp["replay"].get("case") if isinstance(rp.get("replay"), dict) else None
    if not case and isinstance(rp.get("replay"), dict) and (rp["replay"].get("module_hex") or rp["replay"].get("files")):
        r = rp["replay"]
        files = list(r.get("files") or [])
        if r.get("module_hex"):
            fn = os.path.join(vlib.OUT, "c20-replay-" + (r.get("module_name") or "module.bin"))
            open(fn, "wb").write(bytes.fromhex(r["module_hex"]))
            files = [fn]
        mode = r.get("mode", "corpus")
        rc, out, err = vlib.run_exe(exe, [mode, "400000" if mode == "corpus" else "400"] + files)
        olines = [l for l in out.decode("latin-1").splitlines() if l.startswith("O ") or l.startswith("file ")]
        print("\n".join(l[:300] for l in olines))
        if rc != 0:
            print(err[-3000:])
            print("VIOLATION property=C20 replay=%s (sanitizer abort: %s)" % (files[0], vlib.sanitizer_signature(err)))
            return 1
        if any(l.startswith("O ") for l in olines):
            print("VIOLATION property=C20 replay=%s" % files[0])
            return 1
        print("module passes on the current tree")
        return 0
    if not case:
        print("replay file holds no case (proof-only failure): %s" % rp.get("what"))
        print(rp.get("replay"))
        return 1
    path = os.path.join(vlib.OUT, "c20-replay-case.txt")
    open(path, "w").write(case + "\n")
    rc, out, err = vlib.run_exe(exe, ["replay", path])
    text = out.decode("latin-1")
    print(text[-3000:])
    if rc != 0:
        print(err[-3000:])
        print("VIOLATION property=C20 replay=%s (sanitizer abort: %s)" % (path, vlib.sanitizer_signature(err)))
        return 1
    bad = False
    if os.path.exists(vlib.lean_driver("drv_c20")):
        dl = run_driver_bytes(out)
        print("\n".join(l[:3000] for l in dl))
        r = [l for l in text.splitlines() if l.startswith("R ")]
        for rr, s in zip(r, dl[1::2]):
            if not s.endswith("toolarge") and not same_result(rr, s):
                print("real code differs from the closed-form reference in `%s`" % which_field(rr.split(" ")[2:], s.split(" ")[2:]))
                bad = True
    if any(l.startswith("O ") for l in text.splitlines()):
        bad = True
    if bad:
        print("VIOLATION property=C20 replay=%s" % path)
    else:
        print("case passes on the current tree")
    return 1 if bad else 0
