"""C14 — The mixer is linear: mute means silence, channels superpose, separation mirrors.

proof      : XmpProps.C14 over XmpModel.MixLinear (+ generated constants XmpModel.Gen.MixLinearConsts)
tie        : harness/c14_mixlinear.c includes src/mixer.c privately and interposes
             libxmp_mixer_softmixer: per tick the full 32-bit accumulator is compared bit-for-bit with
             the wrapping sum of per-voice solo mixes replayed from a snapshot (and every voice's final
             state with its state after the full mix); sampled windows, kernel calls (spy wrappers on
             all 44 kernels), volume-stage values, downmix words and whole voice ticks are replayed on
             the native Lean driver drv_c14; a twin-context run ties the player's volume / pan tails.
search     : direct oracles on whole renders of corpus modules and of synthetic modules written from the
             seed (tools/gen_c14_synth.py: 1..4-frame loops, sub-tick one-shots, retriggers, pans 0/240/255):
             master volume 0 / all channels muted => digital silence; full mix vs sum of soloed channel
             groups; separation 0 => L == R and m vs -m => L/R exchanged (exact +-100 included).
regression : it_note_delay_nna.it with master volume 0 (F6, fixed 24b5355, signature silence:master_vol:nna);
             NP2.Multica at 4000 Hz with XMP_FLAGS_A500 (Paula kernel read past the sample end, fixed
             15834b2, signature harness-abort:heap-buffer-overflow@libxmp_mix_stereoout_mono_a500);
             Mexx-BitBlaster-1.TrackerPacker2 from order 7 in A500 mode (Paula state surviving voice-slot reuse
             breaks superposition, signature superposition:solo_sum:a500).
"""
import os
import re
import vlib
import gen_mixlinear
import gen_c14_synth

LEVEL = "proof"
MANIFEST = dict(
    category="proof",
    text="Lean 4 theorems (XmpProps.C14) over a model of the software mixer's accumulate structure, volume/pan stage, kernel shape "
         "(sample x level with the anticlick ramp), do_anticlick, one voice's whole tick, the mute rule and the player's master/channel "
         "volume and separation tails: C14_superposition(+_perm,_append,_pointwise,_mix) and C14_solo_independent prove that the 32-bit "
         "accumulator is exactly the wrapping sum of the solo mixes for every voice list; C14_quantisation bounds full-vs-sum-of-solos "
         "after the downmix by n-1 steps when nothing clamps; C14_silence_voice/_run/_contrib/_buffer/_output prove that volume 0 from the "
         "first tick gives an all-zero buffer and the mid-scale constant, C14_silence_mute that a muted root forces volume 0, "
         "C14_silence_master_full that master volume 0 silences every voice of the module (module channels and their background/NNA "
         "voices) for the repaired rule of process_volume, C14_silence_master_counterexample refutes it for the pinned rule (finding F6) and "
         "C14_silence_master_status decides which one applies from the flag the translator regenerates from src/player.c on every run; C14_separation_zero/_mirror_pan/_mirror_vol/"
         "_mirror/_mirror_tick/_zero_tick prove separation 0 => L=R and mix -> -mix swaps left/right for a whole voice tick. "
         "The model is tied to the C on every run (accumulator-exact solo decomposition of the real libxmp_mixer_softmixer, kernel spies, "
         "twin contexts) and a direct oracle searches whole renders for failing inputs.",
    note="Finding F6 (background/NNA voices scaled by smix_vol instead of master_vol) was repaired in /repo (24b5355); the model follows "
         "whichever rule the working tree has (generated flag nnaRootRule) and the oracle keeps it_note_delay_nna.it with master volume 0 as "
         "a regression case (signature silence:master_vol:nna). This check also found the Paula-kernel read past the sample end (fixed "
         "15834b2) and that the Paula state of a voice slot survived its reuse by another channel, which made one channel's audio depend on "
         "another channel being muted in A500 mode (signature superposition:solo_sum:a500); both witnesses stay in every run. "
         "Modelled-not-verified: that each kernel's sample sequence (interpolation, filter, Paula BLEP) is a function of the voice alone is "
         "established by the exact per-tick solo decomposition on the cases run, not by a theorem about mix_all.c; voice allocation / "
         "eviction (virtual.c alloc_voice/free_voice), effect processing and envelopes before the volume tail, the sample position "
         "arithmetic in double, Paula kernels in the kernel/voice-tick cases (their state is not extractable; they are covered by the "
         "accumulator tie only), effects-mixer (smix) channels. C int arithmetic is modelled as unbounded Int (values observed stay far "
         "below 2^31). Correspondence is sampled (differential), not exhaustive.",
    technique="Lean 4 proofs (commutative-monoid fold over BitVec 32, floor-division sum bounds, symmetry of the voice tick under L/R "
              "exchange) + accumulator-exact differential correspondence with TU inclusion / interposition + whole-render oracles",
    design_ref="DESIGN.md section 4 C14",
)
REQUIRED = ["Xmp.MixLinear." + n for n in (
    "C14_superposition", "C14_superposition_mix", "C14_superposition_perm", "C14_superposition_append",
    "C14_solo_independent", "C14_superposition_pointwise", "C14_quantisation_int", "C14_quantisation",
    "C14_silence_buffer", "C14_silence_output", "C14_silence_voice", "C14_silence_run", "C14_silence_contrib",
    "C14_silence_mute", "C14_silence_master_partial", "C14_silence_master_full", "C14_silence_master_counterexample",
    "C14_silence_master_status",
    "C14_separation_zero", "C14_separation_mirror_pan", "C14_separation_mirror_vol", "C14_separation_mirror",
    "C14_separation_mirror_tick", "C14_separation_zero_tick")]

HARNESS = ("c14_mixlinear", ["c14_mixlinear.c"])
NNA_WITNESSES = ["it_note_delay_nna.it"]      # F6 witness of DESIGN.md section 5, always in the silence set
A500_SOLOSUM_WITNESSES = ["Mexx-BitBlaster-1.TrackerPacker2"]   # Paula state survives voice-slot reuse (found by this check)
PAULA_WITNESSES = ["NP2.Multica"]             # Paula kernel read past the sample end at 4000 Hz (found by this check)


def modules(ck, n, maxsize):
    files = [f for f in vlib.corpus_files() if os.path.getsize(f) <= maxsize]
    fixed = [f for f in files if "/test/test." in f or os.path.basename(f) in NNA_WITNESSES]
    rest = [f for f in files if f not in fixed]
    ck.rng.shuffle(rest)
    return fixed + rest[:n]


def run_shard(args):
    exe, mode, seed, nframes, mods = args[:5]
    env = args[5] if len(args) > 5 else None
    rc, out, err = vlib.run_exe(exe, [mode, str(seed), str(nframes)] + mods, timeout=1500, env=env)
    return rc, out.decode("latin-1"), err


def shards(exe, mode, seed, nframes, mods, n=None, env=None):
    n = n or vlib.NCPU
    buckets = [mods[i::n] for i in range(n)]
    return [(exe, mode, seed, nframes, b, env) for b in buckets if b]


def kv(line):
    return dict(x.split("=", 1) for x in line.split()[2:] if "=" in x)


def abort_violation(ck, exe, sh, rc, err):
    sig = vlib.sanitizer_signature(err)
    ck.violation("harness-abort:" + sig,
                 {"mode": sh[1], "seed": sh[2], "nframes": sh[3], "modules": sh[4], "stderr": err[-3000:]},
                 "c14 harness (%s) aborted rc=%d: %s" % (sh[1], rc, sig))


def replay_obj(mode, seed, nframes, module, line, env=None):
    return {"mode": mode, "seed": seed, "nframes": nframes, "module": module, "harness_line": line, "env": env or {},
            "how": "python3 tools/check.py C14 --replay <this file>  (runs: c14_mixlinear %s %d %d %s)" % (mode, seed, nframes, module)}


def module_of(line):
    m = re.search(r"module=(\S+)", line)
    return m.group(1) if m else "?"


def model_compare(ck, what, out, stats):
    """Feed the `C` lines to the Lean driver and compare with the `E` lines."""
    lines = out.splitlines()
    C = [l[2:] for l in lines if l.startswith("C ")]
    E = [l[2:] if len(l) > 1 else "" for l in lines if l.startswith("E ") or l == "E"]
    if len(C) != len(E):
        ck.unproved("correspondence protocol", "%s: %d case lines vs %d expectation lines" % (what, len(C), len(E)))
        return
    if not C or not getattr(ck, "lean_ok", False):
        return
    got = vlib.run_driver("drv_c14", "\n".join(C) + "\n", timeout=1200)
    if len(got) != len(C):
        ck.unproved("correspondence protocol", "%s: driver answered %d lines for %d cases" % (what, len(got), len(C)))
        return
    for c, e, g in zip(C, E, got):
        kind = c.split(" ", 1)[0]
        ef, gf = e.split(), g.split()
        ok = len(ef) == len(gf) and all(a == "*" or a == b for a, b in zip(ef, gf))
        stats["model_" + kind] = stats.get("model_" + kind, 0) + 1
        key = vlib.hash_str(c)
        nontrivial = True
        if kind == "sum":
            nontrivial = any(x != "0" for x in ef)
        elif kind == "kern":
            nontrivial = any(x != "0" for x in ef)
        elif kind == "vt":
            nontrivial = any(x != "0" for x in ef[6:])
        ck.count(key, nontrivial=nontrivial)
        if ok:
            ck.cov["traces_validated_against_impl"] += 1
        else:
            stats["model_mismatch_" + kind] = stats.get("model_mismatch_" + kind, 0) + 1
            if stats["model_mismatch_" + kind] > 3:      # the first three per kind are reported, the rest counted
                continue
            first = next((i for i, (a, b) in enumerate(zip(ef, gf)) if a != "*" and a != b), -1)
            ck.unproved("correspondence MixLinear.%s vs the C (%s)" % (
                {"sum": "tick", "vol": "volLR/level/rampDelta", "kern": "kernel", "dmx": "outSample", "vt": "voiceTick",
                 "mst": "voiceVol", "pan": "voicePan"}.get(kind, kind), what),
                "case: %s\nreal : %s\nmodel: %s\nfirst differing field: %d" % (c[:600], e[:400], g[:400], first))


def run(ck):
    ck.gen(gen_mixlinear.generate)
    ck.proofs(["XmpProps.C14"], required=REQUIRED, drivers=["drv_c14"])
    exe = vlib.build_harness(*HARNESS)
    quick = ck.tier == "quick"
    seed = ck.seed
    stats = {}

    def bump(k, n=1):
        stats[k] = stats.get(k, 0) + n

    def tie_like(mode, nfr, mods, prefix, env=None):
        shs = shards(exe, mode, seed, nfr, mods, env=env)
        for sh, (rc, out, err) in zip(shs, vlib.pmap(run_shard, shs)):
            if rc != 0:
                abort_violation(ck, exe, sh, rc, err)
                continue
            for line in out.splitlines():
                if line.startswith("tiestat "):
                    d = kv(line)
                    for k in ("ticks", "solos", "multi", "kernel_calls", "ac_calls", "filter_calls", "paula_calls",
                              "one_frame_calls", "fails"):
                        bump(prefix + "_" + k, int(d[k]))
                    bump(prefix + "_modules")
                    # each tick is one exact accumulator comparison (full mix vs wrapping sum of the solo mixes)
                    ck.count((mode, line.split()[1], seed, repr(env)), nontrivial=int(d["multi"]) > 0, n=int(d["ticks"]))
                    ck.cov["traces_validated_against_impl"] += int(d["ticks"]) - min(int(d["fails"]), int(d["ticks"]))
                elif line.startswith("skip "):
                    bump("unloadable_modules")
                elif line.startswith("tie_fail "):
                    sig = line.split()[1]
                    mod = module_of(line)
                    path = next((m for m in sh[4] if os.path.basename(m) == mod), mod)
                    bump("tie_fail_" + sig)
                    if stats["tie_fail_" + sig] > 3:
                        continue
                    # the accumulator identity *is* the property at the level of one tick
                    ck.violation(sig + ":" + mod, replay_obj(mode, seed, nfr, path, line, env),
                                 "the mix of a tick is not the sum of its voices' solo mixes: " + line[:300])
            model_compare(ck, mode, out, stats)

    # synthetic modules (tiny loops, retriggers, hard pans): written from the seed
    synth = gen_c14_synth.generate(os.path.join(vlib.OUT, "c14-synth"), seed, 3 if quick else 8)
    ck.note("synthetic_modules", len(synth))

    # ---------------- accumulator-level tie + model cases ----------------
    nfr = 70 if quick else 260
    mods = modules(ck, 110 if quick else 100000, 700000 if quick else 8000000)
    tie_like("tie", nfr, mods, "tie")
    for interp in (0, 1, 2):
        tie_like("tie", 120 if quick else 400, synth, "synth_tie", env={"C14_INTERP": str(interp)})

    # ---------------- regression configuration: lowest rate + Paula kernels ----------------
    allfiles = vlib.corpus_files()
    lmods = [f for f in allfiles if os.path.basename(f) in PAULA_WITNESSES]
    amiga = [f for f in allfiles if f not in lmods and os.path.getsize(f) < 400000 and
             re.search(r"\.mod$|/(NP|np|mod|MOD|P[0-9A-Za-z]+|pha|kris|unic|ksm|di|fc-m|ac1d|zen|tp[123]|xann|wn)[^/]*$", f)]
    ck.rng.shuffle(amiga)
    lmods += amiga[:12 if quick else 200] + [f for f in synth if f.endswith(".mod")]
    tie_like("lowrate", 300 if quick else 600, lmods, "lowrate")

    # ---------------- twin contexts: player volume / pan tails ----------------
    nfr = 60 if quick else 200
    tmods = modules(ck, 60 if quick else 100000, 500000 if quick else 8000000) + synth
    for sh, (rc, out, err) in zip(*(lambda s: (s, vlib.pmap(run_shard, s)))(shards(exe, "twin", seed, nfr, tmods))):
        if rc != 0:
            abort_violation(ck, exe, sh, rc, err)
            continue
        for line in out.splitlines():
            if line.startswith("twinstat "):
                d = kv(line)
                bump("twin_voice_frames", int(d["compared"]))
                bump("twin_voice_frames_unmatched", int(d["skipped"]))
                bump("twin_background_voice_frames", int(d["nna"]))
                bump("twin_muted_voice_frames", int(d["muted"]))
        model_compare(ck, "twin", out, stats)

    # ---------------- direct oracles on whole renders ----------------
    def oracle(mode, nfr, mods, statname, on_stat, env=None):
        for sh, (rc, out, err) in zip(*(lambda s: (s, vlib.pmap(run_shard, s)))(shards(exe, mode, seed, nfr, mods, env=env))):
            if rc != 0:
                abort_violation(ck, exe, sh, rc, err)
                continue
            for line in out.splitlines():
                if line.startswith("oracle_fail "):
                    sig = line.split()[1]
                    path = module_of(line)
                    bump("oracle_fail_" + sig)
                    # at most 3 replay files per kind of failure; the rest is counted
                    if stats["oracle_fail_" + sig] <= 3:
                        ck.violation(sig if sig.endswith((":nna", ":a500")) else sig + ":" + os.path.basename(path),
                                     replay_obj(mode, seed, nfr, path, line, env),
                                     "C14 oracle (%s) failed on the real code: %s" % (mode, line[:400]))
                elif line.startswith(statname + " "):
                    on_stat(line)

    def silence_stat(line):
        d = kv(line)
        bump("silence_renders")
        bump("silence_frames", int(d["frames"]))
        bump("silence_background_voice_frames", int(d["background_voice_frames"]))
        ck.count(("silence", line.split()[1], d["variant"], seed), nontrivial=int(d["channel_frames_with_volume"]) > 0)

    def solosum_stat(line):
        d = kv(line)
        bump("solosum_modules")
        bump("solosum_samples_compared", int(d["compared"]))
        bump("solosum_samples_clipped", int(d["clipped"]))
        bump("solosum_voice_limit_reached", int(d["voice_limit_reached"]))
        for k in ("d0", "d1", "d2", "d3"):
            bump("solosum_diff_" + k, int(d[k]))
        stats["solosum_worst_diff"] = max(stats.get("solosum_worst_diff", 0), int(d["worst"]) if d["voice_limit_reached"] == "0" else 0)
        ck.count(("solosum", line.split()[1], seed, d.get("rate"), d.get("interp")), nontrivial=int(d["compared"]) > 0 and d["voice_limit_reached"] == "0")

    def sep_stat(line):
        d = kv(line)
        bump("sep_modules")
        bump("sep_applicable", int(d["applicable"]))
        bump("sep_frames", int(d["frames"]) if d["applicable"] == "1" else 0)
        bump("sep_frames_L_ne_R", int(d["L_ne_R_frames"]) if d["applicable"] == "1" else 0)
        ck.count(("sep", line.split()[1], seed, d.get("rate"), d.get("interp")), nontrivial=d["applicable"] == "1" and int(d["L_ne_R_frames"]) > 0)

    omods = modules(ck, 120 if quick else 100000, 600000 if quick else 8000000)
    oracle("silence", 120 if quick else 600, synth + omods, "silencestat", silence_stat)
    oracle("solosum", 90 if quick else 400, synth + (omods[:70] if quick else omods), "solosumstat", solosum_stat)
    oracle("sep", 100 if quick else 500, synth + (omods[:90] if quick else omods), "sepstat", sep_stat)
    # A500 mode (Paula kernels, per-voice BLEP state) on Amiga modules: regression for the Paula state that
    # survived voice-slot reuse (signature superposition:solo_sum:a500)
    amods = [f for f in allfiles if os.path.basename(f) in A500_SOLOSUM_WITNESSES] + [f for f in synth if f.endswith(".mod")]
    amods += amiga[:6 if quick else 120]
    oracle("solosum", 200 if quick else 400, amods, "solosumstat", solosum_stat, {"C14_A500": "1"})
    # the exact configuration in which the finding was first seen (order 7 onwards, 400 frames)
    oracle("solosum", 400, amods[:1], "solosumstat", solosum_stat, {"C14_A500": "1", "C14_POS": "7", "C14_RATE": "8000"})
    oracle("sep", 120 if quick else 400, amods, "sepstat", sep_stat, {"C14_A500": "1"})
    # the same synthetic modules under each interpolator at a low and a high rate
    for interp, rate in ((1, 8000), (2, 44100), (0, 4000)):
        env = {"C14_INTERP": str(interp), "C14_RATE": str(rate)}
        oracle("solosum", 150 if quick else 400, synth, "solosumstat", solosum_stat, env)
        oracle("sep", 150 if quick else 400, synth, "sepstat", sep_stat, env)

    for k, v in sorted(stats.items()):
        ck.note(k, v)
    ck.note("generated_consts", os.path.relpath(gen_mixlinear.OUTFILE, vlib.VERIF))
    gen = open(gen_mixlinear.OUTFILE).read()
    m = re.search(r"/-- master-volume rule of process_volume: (.*?) -/\ndef nnaRootRule : Bool := (\w+)", gen)
    ck.note("master_volume_rule", "%s (nnaRootRule = %s)" % (m.group(1), m.group(2)) if m else "?")
    ck.note("unrecognised_code_shapes", re.findall(r"def (\w+) : Option Nat := none", gen))
    ck.cov["rule"] = ("evaluations = ticks whose accumulator was compared exactly with the sum of per-voice solo mixes + model cases "
                      "replayed on the Lean driver + oracle renders; distinct by (module, seed) resp. hash of the case line; "
                      "non-trivial = tick sets with >= 2 simultaneously active voices, model cases with a non-zero expected result, "
                      "silence renders in which some channel had non-zero nominal volume, solo-sum renders with compared samples and no "
                      "voice-limit hit, separation renders that apply (no stereo sample / surround) and have L != R somewhere")
    ck.assumptions += [
        "C int arithmetic of the volume stage and kernels does not overflow (model uses unbounded Int; accumulator words are compared mod 2^32)",
        "every context's RNG is seeded identically by the harness (IT random volume/pan variation), so twin/solo renders share one timeline",
        "solo-sum oracle skips modules whose render reached the voice limit (virt_used == maxvoc) and samples at the 16-bit limits",
    ]


def replay(ck, rp):
    r = rp["replay"]
    exe = vlib.build_harness(*HARNESS)
    if isinstance(r, list):       # unproved items: nothing to run on the real code
        for u in r:
            print("UNPROVED %s: %s" % (u.get("name"), u.get("detail", "")[:1500]))
        return 1
    if "c14-synth" in r["module"] and not os.path.exists(r["module"]):
        gen_c14_synth.generate(os.path.dirname(r["module"]), int(r["seed"]), 8)      # synthetic modules are a function of the seed
    rc, out, err = vlib.run_exe(exe, [r["mode"], str(r["seed"]), str(r["nframes"]), r["module"]], timeout=1500,
                                env=r.get("env") or None)
    text = out.decode("latin-1")
    bad = [l for l in text.splitlines() if l.startswith("oracle_fail") or l.startswith("tie_fail")]
    for l in text.splitlines():
        if not (l.startswith("C ") or l.startswith("E")):
            print(l[:600])
    print(err[-2000:])
    if rc != 0 or bad:
        print("VIOLATION property=C14 replay=%s" % r["module"])
        return 1
    print("no failure on replay")
    return 0
