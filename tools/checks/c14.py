"""C14 — The mixer is linear: mute means silence, channels superpose, separation mirrors.

proof      : XmpProps.C14 over XmpModel.MixLinear (+ generated constants XmpModel.Gen.MixLinearConsts) and over
             XmpModel.MixKernel / MixKernelPaula, bit-exact models of all 40 kernels of src/mix_all.c and the 4 Paula
             kernels of src/mix_paula.c (+ Gen.MixKernelConsts / Gen.MixKernelPaulaConsts: shifts, BLEP table,
             filter clamp, kernel-table flags and the four cubic spline tables of precomp_lut.h, regenerated every run)
kernel tie : harness/c14_kernel.c calls every real kernel through the tables of mixer.c (3 interpolators x 16 table
             entries) on random voices / sample windows / accumulator buffers (modes rand, edge = limits of the
             ranges the bound theorems assume, wrap = full-range accumulator words); buffer and filter memory after
             the call are compared bit for bit with Xmp.MixKernel.run on drv_c14 (command k2), and nothing else of
             *vi may be written; the same comparison runs on kernel calls sampled from real renders (spy wrappers).
             Mode paula does the same for the four Paula kernels (a500_mixers[] / a500led_mixers[]) with the whole
             Paula state (BLEP list, double remainder) going in and out (Xmp.MixKernel.Paula.prun, command pk).
tie        : harness/c14_mixlinear.c includes src/mixer.c privately and interposes
             libxmp_mixer_softmixer: per tick the full 32-bit accumulator is compared bit-for-bit with
             the wrapping sum of per-voice solo mixes replayed from a snapshot (and every voice's final
             state with its state after the full mix); sampled windows, kernel calls (spy wrappers on
             all 44 kernels), volume-stage values, downmix words and whole voice ticks are replayed on
             the native Lean driver drv_c14; a twin-context run ties the player's volume / pan tails.
pan tie    : harness/c14_pan.c includes src/player.c privately with the single call site of libxmp_virt_setpan (the end of
             process_pan) redirected to a spy: pan sources read from the channel (pan.val, panbrello via macro.notepan, pan
             envelope via the real get_envelope, rpv, player mode, format, surround, s->mix) -> pan handed to the mixer and
             info_finalpan, compared with Xmp.MixLinear.processPan (command pp); the run must have exercised every source.
virt tie   : libxmp_virt_setpatch is reached through -Wl,--wrap: when a call moves a voice to a background (NNA) channel the
             channel chosen is compared with Xmp.MixKernel.bgSearch over the map before the call (command bg); in every tick
             every voice in use must be the one its virtual channel maps to (no orphans, signature virt:orphan_voice).
             Runs use small XMP_PLAYER_VOICES (random per module; 7 / 8 on gen_c14_synth.nna_modules: many background
             voices on few busy channels, more than maxvoc - num_tracks while the voice table is not full).
reset tie  : the member list of struct mixer_voice is generated from the preprocessed src/mixer.h (Lean list +
             harness/c14_voice_members.h X-macro); in every tick of the tie runs every free voice is compared member by
             member with the other free voices and, sampled (not-plainly-zero images first), with Xmp.MixKernel.resetValue
             (command vr) - libxmp_virt_resetvoice / _resetchannel / virt_reset are the only writers of a free slot.
search     : IT modules with embedded MIDI macros setting the filter from every macro variable (gen_c14_synth.macro_modules) under
             the separation oracle (found: variable y read the pan after the separation scaling, fixed 60fae71, signature
             separation:mirror:c14macro_<seed>_y.it); hard-panned synthetic modules at exactly +-100 (anticlick tails);
             the twin correspondence (voiceVol) runs the 3 smallest corpus modules of every format class with master /
             effects-mixer volumes 0..200, volume-table formats always at a master volume that really scales.
             generated Oktalyzer modules with 0..4 split channel pairs and one corpus module of every format class (by name) are
             in every silence / twin run; solo-sum on the many-NNA modules at XMP_PLAYER_VOICES 7, 8, 10.
             IT modules (gen_c14_synth.reuse_modules) in which a background voice is freed (sample end, fade to silence,
             duplicate check, cut) and its slot is taken by a filtered note of another channel (resonant IFC/IFR, ramp /
             anticlick residue, ping-pong/reverse flags), under the solo-sum oracle at several rates / interpolators and
             with a mid-render xmp_set_position (libxmp_virt_reset: slots re-taken in a new order); reuse is measured.
             synthetic IT (instrument mode) / XM modules with each pan source of process_pan isolated and combined
             (gen_c14_synth.pan_modules: channel pan, sample and instrument default pan, pan envelope, pitch-pan
             separation, random pan swing, panbrello Yxy in all waveforms, Pxy/Xxx/S8x, surround) under the separation
             oracle at the drawn separation, 100 and 37;
             direct oracles on whole renders of corpus modules and of synthetic modules written from the
             seed (tools/gen_c14_synth.py: 1..4-frame loops, sub-tick one-shots, retriggers, pans 0/240/255):
             master volume 0 / all channels muted => digital silence; full mix vs sum of soloed channel
             groups; separation 0 => L == R and m vs -m => L/R exchanged (exact +-100 included).
regression : it_note_delay_nna.it with master volume 0 (F6, fixed 24b5355, signature silence:master_vol:nna);
             NP2.Multica at 4000 Hz with XMP_FLAGS_A500 (Paula kernel read past the sample end, fixed
             15834b2, signature harness-abort:heap-buffer-overflow@libxmp_mix_stereoout_mono_a500);
             Mexx-BitBlaster-1.TrackerPacker2 from order 7 in A500 mode (Paula state surviving voice-slot reuse
             breaks superposition, signature superposition:solo_sum:a500);
             overdrive*.it (tools/gen_c14_synth.py): 16..64 coherent full-scale voices, the excluded point of
             C14_kernel_no_wrap - `*(buffer++) += ...` overflowed a signed int (found by this check, fixed 582c114,
             signature harness-abort:ub:signed integer overflow...@libxmp_mix_*); now the accumulator wraps and the
             tick must be the sum of the solo mixes modulo 2^32.
"""
import os
import re
import vlib
import gen_mixlinear
import gen_c14_synth

LEVEL = "proof"
MANIFEST = dict(
    category="proof",
    text="Lean 4 theorems (XmpProps.C14) over a model of the software mixer's accumulate structure, volume/pan stage, kernel shape "
         "(sample x level with the anticlick ramp), do_anticlick, one voice's whole tick, the mute rule and the player's master/channel "
         "volume and separation tails: C14_superposition(+_perm,_append,_pointwise,_mix) and C14_solo_independent prove that the 32-bit "
         "accumulator is exactly the wrapping sum of the solo mixes for every voice list; C14_quantisation bounds full-vs-sum-of-solos "
         "after the downmix by n-1 steps when nothing clamps; C14_silence_voice/_run/_contrib/_buffer/_output prove that volume 0 from the "
         "first tick gives an all-zero buffer and the mid-scale constant, C14_silence_mute that a muted root forces volume 0, "
         "C14_silence_master_full that master volume 0 silences every voice of the module (module channels and their background/NNA "
         "voices) for the repaired rule of process_volume, C14_silence_master_counterexample refutes it for the pinned rule (finding F6) and "
         "C14_silence_master_status decides which one applies from the flag the translator regenerates from src/player.c on every run; C14_separation_zero/_mirror_pan/_mirror_vol/"
         "_mirror/_mirror_tick/_zero_tick prove separation 0 => L=R and mix -> -mix swaps left/right for a whole voice tick; "
         "C14_pan_separation_zero/_mirror/_range prove it for process_pan's whole pan computation (channel / default / slid pan + panbrello + "
         "pan envelope + random pan swing -> clamp -> * mix / 100 -> vol_l/vol_r), for every value of every pan source. "
         "For the concrete kernels of src/mix_all.c (XmpModel/MixKernel.lean: nearest/linear/spline x 8/16-bit x mono/stereo sample x "
         "mono/stereo output x IT filter, volume ramp, position walk, filter write-back, the kernel tables of mixer.c, the generated cubic "
         "spline table) C14_kernel_adds proves buffer_after = buffer_before + contribution(voice, arguments) with a filter memory that does "
         "not depend on the buffer; C14_kernel_superposition/_order_independent/_solo_independent give exact superposition (mod 2^32) of "
         "ticks made of real kernel calls; C14_kernel_refines proves that the abstract kernel of the tick model is what every real kernel "
         "computes on frames derived from the voice alone; C14_kernel_silence: zero levels leave the buffer untouched; C14_kernel_bound: "
         "|word| <= sampleBound x level with sampleBound 32768 (nearest, linear) / 40960 (spline, from the table) / 65536 (filter clamp); "
         "C14_kernel_fits: no intermediate C value overflows for 16-bit levels; C14_kernel_levels + C14_anticlick_bound bound the levels and "
         "the anticlick ramp by the voice volume; C14_kernel_no_wrap(_voices): the accumulator holds the true integer sum while voices x "
         "sampleBound x level < 2^31 (instances: 128 voices up to level 255 with filter, 63 voices at nominal full scale 1024, 31 at master "
         "200 %), C14_kernel_wrap_possible: beyond that it wraps and only the mod-2^32 statement holds; C14_kernel_mirror/_center: exchanging "
         "C14_bg_channel_free: the background channel libxmp_virt_setpatch picks for a displaced voice is free whenever fewer background "
         "channels are occupied than exist (always: their number is the number of voices), so no sounding voice is orphaned; "
         "C14_silence_master_split / C14_split_pair_volume: the partner of an Amiga split channel pair (Oktalyzer) gets the volume after "
         "the master-volume scaling. "
         "C14_vol_table_index / C14_vol_table_then_master: the volume-translation-table lookup of process_volume (PTM, Archimedes "
         "Tracker, Coconizer) stands before the master / effects-mixer scaling (statement order, shifts and table lengths are translator "
         "facts), its index stays inside the table for volumes up to 0x400, and the master volume scales the table value linearly. "
         "C14_voice_reset_clears: a freed voice (model of libxmp_virt_resetvoice/_resetchannel/virt_reset over the member list generated "
         "from mixer.h) is zero in every member the kernels and the voice loop read; C14_voice_reuse_independent/_same: the contributions "
         "after a reset are those of a fresh slot, whatever the previous owner did - a voice's contribution depends only on its own "
         "channel's history. "
         "left/right levels and ramps exchanges the words of every frame (mono samples; C14_kernel_mirror_stereo: stereo samples with the "
         "sample channels and filter memory exchanged too). C14_paula_adds/_silence/_bound/_mirror state the same "
         "for the four Paula (A500) kernels of src/mix_paula.c over their own bit-exact model, and C14_adders_superpose/C14_paula_is_adder "
         "give exact superposition for any mixture of kernel and Paula calls. "
         "The model is tied to the C on every run (accumulator-exact solo decomposition of the real libxmp_mixer_softmixer, kernel spies, "
         "twin contexts) and a direct oracle searches whole renders for failing inputs.",
    note="Finding F6 (background/NNA voices scaled by smix_vol instead of master_vol) was repaired in /repo (24b5355); the model follows "
         "whichever rule the working tree has (generated flag nnaRootRule) and the oracle keeps it_note_delay_nna.it with master volume 0 as "
         "a regression case (signature silence:master_vol:nna). This check also found the Paula-kernel read past the sample end (fixed "
         "15834b2) and that the Paula state of a voice slot survived its reuse by another channel, which made one channel's audio depend on "
         "another channel being muted in A500 mode (signature superposition:solo_sum:a500); both witnesses stay in every run. "
         "Proving the no-wrap bound exposed its excluded point as a defect: with the player's default settings 13 coherent full-scale voices "
         "of an IT file with mixing volume 255 (24 at the legal maximum 128) overflow the signed accumulation of MIX_OUT (UB; fixed 582c114, "
         "unsigned add); the witnesses run in every tier on the sanitized build and must superpose modulo 2^32. "
         "The Paula kernels of mix_paula.c are modelled bit-exactly too (XmpModel/MixKernelPaula.lean: BLEP list, generated winsinc table, "
         "the double-precision clock as exact m*2^e arithmetic with IEEE round-to-nearest-even addition); their contribution bound uses only "
         "the 16-bit clamp of output_sample (32768 x 256 x level), a sharper bound from the BLEP table is not proved. "
         "Modelled-not-verified: the span loop of libxmp_mixer_softmixer in double arithmetic (which spans a voice gets per tick) is a parameter of voiceTick; "
         "vi->pos enters the kernel model as the exact rational value of the double; voice allocation / eviction (virtual.c), effect "
         "processing and envelopes before the volume tail, effects-mixer (smix) channels. In the kernel model C int/int64 expressions are "
         "unbounded Int and the range theorems (C14_kernel_fits, lerp_product_fits, spline_acc_fits, preamp_fits, filter_sum_fits) show that "
         "nothing but the accumulation can leave its C type, for sample memory of the element type, 16-bit levels and filter coefficients "
         "below 2^27; the volume stage of XmpModel/MixLinear.lean still uses unbounded Int (observed |vi->vol| and levels are recorded). "
         "Correspondence is sampled "
         "(differential), not exhaustive.",
    technique="Lean 4 proofs (commutative-monoid fold over BitVec 32, floor-division sum bounds, symmetry of the voice tick under L/R "
              "exchange, loop invariants over a bit-exact kernel model, decide over the generated spline table) + bit-exact differential "
              "correspondence of every kernel (table-driven, random + real calls) + accumulator-exact solo decomposition with TU inclusion / "
              "interposition + whole-render oracles",
    design_ref="DESIGN.md section 4 C14",
)
REQUIRED = ["Xmp.MixLinear." + n for n in (
    "C14_superposition", "C14_superposition_mix", "C14_superposition_perm", "C14_superposition_append",
    "C14_solo_independent", "C14_superposition_pointwise", "C14_quantisation_int", "C14_quantisation",
    "C14_silence_buffer", "C14_silence_output", "C14_silence_voice", "C14_silence_run", "C14_silence_contrib",
    "C14_silence_mute", "C14_silence_master_partial", "C14_silence_master_split", "C14_split_pair_volume", "C14_vol_table_index", "C14_vol_table_then_master", "C14_silence_master_full", "C14_silence_master_counterexample",
    "C14_silence_master_status",
    "C14_separation_zero", "C14_separation_mirror_pan", "C14_separation_mirror_vol", "C14_separation_mirror",
    "C14_separation_mirror_tick", "C14_separation_zero_tick",
    "C14_pan_separation_zero", "C14_pan_separation_mirror", "C14_pan_range", "clampPan_range")] + ["Xmp.MixKernel." + n for n in (
    "C14_kernel_adds", "C14_kernel_length", "C14_kernel_superposition", "C14_kernel_order_independent",
    "C14_kernel_solo_independent", "C14_kernel_silence", "C14_kernel_silence_noramp", "C14_kernel_bound",
    "C14_kernel_frac_range", "C14_kernel_fits", "C14_kernel_no_wrap", "C14_kernel_no_wrap_voices", "C14_kernel_levels",
    "C14_anticlick_bound", "C14_kernel_no_wrap_instances",
    "C14_kernel_wrap_possible", "C14_kernel_mirror", "C14_kernel_mirror_stereo", "C14_kernel_center",
    "C14_voice_reset_clears", "C14_voice_reuse_independent", "C14_voice_reuse_same", "C14_bg_channel_free", "bgLoop_spec", "C14_kernel_refines", "contrib_eq_kernel",
    # helper facts the property-level statements cite (XmpProofs/MixKernel.lean)
    "shapes_recognised", "splineRow_abs", "splineRows_unit_gain", "lerp_product_fits", "spline_acc_fits", "preamp_fits",
    "filter_sum_fits", "filt_bound", "fetch_bound", "loopBuf_eq", "mixCalls_eq_tick",
    "C14_adders_superpose", "C14_paula_is_adder")] + ["Xmp.MixKernel.Paula." + n for n in (
    "C14_paula_adds", "C14_paula_silence", "C14_paula_bound", "C14_paula_mirror", "ploopBuf_eq")]

HARNESS = ("c14_mixlinear", ["c14_mixlinear.c"])


def build_main_harness(variant="asan"):
    """c14_mixlinear.c includes the generated member list of struct mixer_voice: its content is part of the build key"""
    try:
        hh = vlib.hash_str(open(gen_mixlinear.VHEADER).read())
    except OSError:
        hh = "none"
    return vlib.build_harness(*HARNESS, variant=variant, defines=["C14_VOICE_MEMBERS_HASH=%s" % hh],
                              extra=["-Wl,--wrap=libxmp_virt_setpatch"])
KHARNESS = ("c14_kernel", ["c14_kernel.c"])
PHARNESS = ("c14_pan", ["c14_pan.c"])
NNA_WITNESSES = ["it_note_delay_nna.it"]      # F6 witness of DESIGN.md section 5, always in the silence set
A500_SOLOSUM_WITNESSES = ["Mexx-BitBlaster-1.TrackerPacker2"]   # Paula state survives voice-slot reuse (found by this check)
PAULA_WITNESSES = ["NP2.Multica"]             # Paula kernel read past the sample end at 4000 Hz (found by this check)


def format_tag(path):
    """coarse format class of a corpus file from its name: extension (`x.okt`) or Amiga-style prefix (`OKT.x`)"""
    parts = os.path.basename(path).lower().split(".")
    if len(parts) < 2:
        return "?"
    ext, pre = parts[-1], parts[0]
    if len(ext) <= 4 and ext.isalnum() and not ext.isdigit():
        return ext
    return pre if len(pre) <= 6 and pre.isalnum() else "?"


def stratified(ck, maxsize, per=1):
    """the `per` smallest corpus modules of every format class (regular test modules before fuzzing regressions): formats
    with special channel structure (split pairs, volume translation tables, effects-mixer quirks) are in every run,
    whatever the random draw"""
    classes = {}
    for f in vlib.corpus_files():
        sz = os.path.getsize(f)
        t = format_tag(f)
        if sz > maxsize or sz < 1500 or t == "?":
            continue
        classes.setdefault(t, []).append((("/f/" in f), sz, f))
    out = []
    for t in sorted(classes):
        out += [f for (_, _, f) in sorted(classes[t])[:per]]
    return sorted(set(out))


def modules(ck, n, maxsize):
    files = [f for f in vlib.corpus_files() if os.path.getsize(f) <= maxsize]
    fixed = [f for f in files if "/test/test." in f or os.path.basename(f) in NNA_WITNESSES]
    rest = [f for f in files if f not in fixed]
    ck.rng.shuffle(rest)
    return fixed + rest[:n]


def run_shard(args):
    exe, mode, seed, nframes, mods = args[:5]
    env = args[5] if len(args) > 5 else None
    rc, out, err = vlib.run_exe(exe, [mode, str(seed), str(nframes)] + mods, timeout=1500, env=env)
    return rc, out.decode("latin-1"), err


def shards(exe, mode, seed, nframes, mods, n=None, env=None):
    n = n or vlib.NCPU
    buckets = [mods[i::n] for i in range(n)]
    return [(exe, mode, seed, nframes, b, env) for b in buckets if b]


def kv(line):
    return dict(x.split("=", 1) for x in line.split()[2:] if "=" in x)


def abort_violation(ck, exe, sh, rc, err):
    sig = vlib.sanitizer_signature(err)
    ck.violation("harness-abort:" + sig,
                 {"mode": sh[1], "seed": sh[2], "nframes": sh[3], "modules": sh[4], "stderr": err[-3000:]},
                 "c14 harness (%s) aborted rc=%d: %s" % (sh[1], rc, sig))


def replay_obj(mode, seed, nframes, module, line, env=None):
    return {"mode": mode, "seed": seed, "nframes": nframes, "module": module, "harness_line": line, "env": env or {},
            "how": "python3 tools/check.py C14 --replay <this file>  (runs: c14_mixlinear %s %d %d %s)" % (mode, seed, nframes, module)}


def module_of(line):
    m = re.search(r"module=(\S+)", line)
    return m.group(1) if m else "?"


def model_compare(ck, what, out, stats):
    """Feed the `C` lines to the Lean driver and compare with the `E` lines."""
    lines = out.splitlines()
    C = [l[2:] for l in lines if l.startswith("C ")]
    E = [l[2:] if len(l) > 1 else "" for l in lines if l.startswith("E ") or l == "E"]
    if len(C) != len(E):
        ck.unproved("correspondence protocol", "%s: %d case lines vs %d expectation lines" % (what, len(C), len(E)))
        return
    if not C or not getattr(ck, "lean_ok", False):
        return
    got = vlib.run_driver("drv_c14", "\n".join(C) + "\n", timeout=1200)
    if len(got) != len(C):
        ck.unproved("correspondence protocol", "%s: driver answered %d lines for %d cases" % (what, len(got), len(C)))
        return
    for c, e, g in zip(C, E, got):
        kind = c.split(" ", 1)[0]
        ef, gf = e.split(), g.split()
        ok = len(ef) == len(gf) and all(a == "*" or a == b for a, b in zip(ef, gf))
        stats["model_" + kind] = stats.get("model_" + kind, 0) + 1
        key = vlib.hash_str(c)
        nontrivial = True
        if kind == "sum":
            nontrivial = any(x != "0" for x in ef)
        elif kind == "kern":
            nontrivial = any(x != "0" for x in ef)
        elif kind == "vt":
            nontrivial = any(x != "0" for x in ef[6:])
        elif kind == "pp":
            nontrivial = ef[:1] != ["0"]
        elif kind == "vr":
            nontrivial = True
        elif kind in ("k2", "pk"):      # the buffer after the call differs from the buffer before it
            nb = int(ef.index("|")) if "|" in ef else 0
            nontrivial = ef[nb + 1:] != c.split()[-(len(ef) - nb - 1):]
        ck.count(key, nontrivial=nontrivial)
        if ok:
            ck.cov["traces_validated_against_impl"] += 1
        else:
            stats["model_mismatch_" + kind] = stats.get("model_mismatch_" + kind, 0) + 1
            if stats["model_mismatch_" + kind] > 3:      # the first three per kind are reported, the rest counted
                continue
            first = next((i for i, (a, b) in enumerate(zip(ef, gf)) if a != "*" and a != b), -1)
            ck.unproved("correspondence %s%s vs the C (%s)" % ("Xmp." if kind in ("k2", "pk", "vr", "bg") else "Xmp.MixLinear.", 
                {"sum": "tick", "vol": "volLR/level/rampDelta", "kern": "kernel", "dmx": "outSample", "vt": "voiceTick",
                 "mst": "voiceVol", "pan": "voicePan", "pp": "processPan/infoFinalPan (process_pan)",
                 "bg": "MixKernel.bgSearch (background channel chosen by libxmp_virt_setpatch)",
                 "vr": "MixKernel.resetValue (members of a free voice after libxmp_virt_resetvoice/_resetchannel/virt_reset)", "k2": "MixKernel.run (bit-exact kernel)", "pk": "MixKernel.Paula.prun (bit-exact Paula kernel)"}.get(kind, kind), what),
                "case: %s\nreal : %s\nmodel: %s\nfirst differing field: %d" % (c[:600], e[:400], g[:400], first))


def run_kshard(args):
    exe, mode, seed, first, n = args
    rc, out, err = vlib.run_exe(exe, [mode, str(seed), str(first), str(n)], timeout=900)
    return rc, out.decode("latin-1"), err


def kernel_tie(ck, stats, quick):
    """Bit-exact tie of Xmp.MixKernel.run with every real kernel of mix_all.c (through the tables of mixer.c)."""
    seed = ck.seed
    # `wrap`: full-range accumulator words, the accumulation wraps (defined since 582c114: unsigned add)
    plan = [("rand", "asan", 4800 if quick else 96000), ("edge", "asan", 1920 if quick else 24000),
            ("wrap", "asan", 1920 if quick else 24000),
            # the four Paula kernels through a500_mixers[] / a500led_mixers[] (Xmp.MixKernel.Paula.prun, command pk)
            ("paula", "asan", 1200 if quick else 24000)]
    per = 240 if quick else 1500
    seen = set()
    for mode, variant, total in plan:
        exe = vlib.build_harness(*KHARNESS, variant=variant)
        shs = [(exe, mode, seed, first, min(per, total - first)) for first in range(0, total, per)]
        for sh, (rc, out, err) in zip(shs, vlib.pmap(run_kshard, shs)):
            if rc != 0:
                sig = vlib.sanitizer_signature(err)
                ck.violation("harness-abort:" + sig, {"kernel_mode": mode, "seed": seed, "first": sh[3], "n": sh[4], "variant": variant,
                                                     "stderr": err[-3000:]},
                             "c14 kernel harness (%s) aborted rc=%d: %s" % (mode, rc, sig))
                continue
            lines = out.splitlines()
            for l in lines:
                if l.startswith("kstat "):
                    d = dict(x.split("=", 1) for x in l.split()[1:])
                    seen.add((mode, d["interp"], d["id"]))
                    for k in ("ac", "filter", "rev"):
                        stats["kernel_" + k + "_calls"] = stats.get("kernel_" + k + "_calls", 0) + int(d[k])
                elif l.startswith("tie_fail "):
                    stats["kernel_voice_write"] = stats.get("kernel_voice_write", 0) + 1
                    if stats["kernel_voice_write"] <= 3:
                        ck.unproved("correspondence MixKernel.run vs the C (a kernel wrote *vi outside filter.l1/l2/r1/r2)", l[:400])
            model_compare(ck, "kernel:" + mode, out, stats)
    stats["kernel_table_entries_hit"] = len({(i, d) for (_, i, d) in seen if i != "9"})
    stats["kernel_paula_entries_hit"] = len({d for (_, i, d) in seen if i == "9"})
    if stats["kernel_paula_entries_hit"] != 4:
        ck.unproved("correspondence MixKernel.Paula coverage", "only %d of the 4 Paula kernels were exercised" % stats["kernel_paula_entries_hit"])
    if stats["kernel_table_entries_hit"] != 48:
        ck.unproved("correspondence MixKernel coverage", "only %d of the 48 kernel table entries (3 interpolators x 16 ids) were exercised"
                    % stats["kernel_table_entries_hit"])


def run(ck):
    ck.gen(gen_mixlinear.generate_all)
    ck.proofs(["XmpProps.C14"], required=REQUIRED, drivers=["drv_c14"])
    exe = build_main_harness()
    quick = ck.tier == "quick"
    seed = ck.seed
    stats = {}

    def bump(k, n=1):
        stats[k] = stats.get(k, 0) + n

    def tie_like(mode, nfr, mods, prefix, env=None):
        shs = shards(exe, mode, seed, nfr, mods, env=env)
        for sh, (rc, out, err) in zip(shs, vlib.pmap(run_shard, shs)):
            if rc != 0:
                abort_violation(ck, exe, sh, rc, err)
                continue
            for line in out.splitlines():
                if line.startswith("tiestat "):
                    d = kv(line)
                    for k in ("ticks", "solos", "multi", "kernel_calls", "ac_calls", "filter_calls", "paula_calls",
                              "one_frame_calls", "fails"):
                        bump(prefix + "_" + k, int(d[k]))
                    bump(prefix + "_modules")
                    bump(prefix + "_k2_cases", int(d.get("k2", 0)))
                    bump(prefix + "_pk_cases", int(d.get("pk", 0)))
                    for k in ("vr", "freed", "free_checked", "reuse", "reuse_filter", "reuse_ramp", "reuse_queued", "reuse_rev",
                              "reuse_paula"):
                        bump("voice_" + k, int(d.get(k, 0)))
                        if prefix == "reuse_tie":
                            bump("reuse_modules_" + k, int(d.get(k, 0)))
                    for k in ("mapped_checked", "bg_voices", "bg_beyond", "bg"):
                        bump("virt_" + k, int(d.get(k, 0)))
                        if prefix == "nna_tie":
                            bump("nna_modules_" + k, int(d.get(k, 0)))
                    for k in ("maxvol", "maxlevel", "maxactive"):
                        stats["observed_" + k] = max(stats.get("observed_" + k, 0), int(d.get(k, 0)))
                    bump("observed_accumulator_wraps", int(d.get("wraps", 0)))
                    stats["observed_max_exact_sum"] = max(stats.get("observed_max_exact_sum", 0), int(d.get("maxacc", 0)))
                    # C14_kernel_bound on the render: every voice adds at most sampleBound(65536) x level per word, plus at
                    # most as much again as anticlick residue of an earlier span
                    lim = 2 * int(d.get("maxactive", 0)) * 65536 * max(int(d.get("maxlevel", 0)), 1)
                    if int(d.get("maxacc", 0)) > lim:
                        ck.unproved("correspondence C14_kernel_bound vs the C (%s)" % mode,
                                    "%s: exact accumulator sum %s exceeds 2 x %s voices x 65536 x level %s" % (
                                        line.split()[1], d.get("maxacc"), d.get("maxactive"), d.get("maxlevel")))
                    # each tick is one exact accumulator comparison (full mix vs wrapping sum of the solo mixes)
                    ck.count((mode, line.split()[1], seed, repr(env)), nontrivial=int(d["multi"]) > 0, n=int(d["ticks"]))
                    ck.cov["traces_validated_against_impl"] += int(d["ticks"]) - min(int(d["fails"]), int(d["ticks"]))
                elif line.startswith("skip "):
                    bump("unloadable_modules")
                elif line.startswith("tie_fail "):
                    sig = line.split()[1]
                    mod = module_of(line)
                    path = next((m for m in sh[4] if os.path.basename(m) == mod), mod)
                    bump("tie_fail_" + sig)
                    if stats["tie_fail_" + sig] > 3:
                        continue
                    # the accumulator identity *is* the property at the level of one tick
                    ck.violation(sig + ":" + mod, replay_obj(mode, seed, nfr, path, line, env),
                                 ("the mix of a tick is not the sum of its voices' solo mixes: " if sig.startswith("superposition")
                                  else "the voice tables the mixer relies on are inconsistent: ") + line[:300])
            model_compare(ck, mode, out, stats)

    # ---------------- bit-exact kernel tie (random voices, every kernel table entry) ----------------
    kernel_tie(ck, stats, quick)

    # synthetic modules (tiny loops, retriggers, hard pans): written from the seed
    synth = gen_c14_synth.generate(os.path.join(vlib.OUT, "c14-synth"), seed, 3 if quick else 8)
    ck.note("synthetic_modules", len(synth))

    # ---------------- accumulator-level tie + model cases ----------------
    nfr = 70 if quick else 260
    mods = modules(ck, 110 if quick else 100000, 700000 if quick else 8000000)
    tie_like("tie", nfr, mods, "tie")
    for interp in (0, 1, 2):
        tie_like("tie", 120 if quick else 400, synth, "synth_tie", env={"C14_INTERP": str(interp)})

    # ---------------- the excluded point of C14_kernel_no_wrap: voices x sampleBound x level >= 2^31 ----------------
    # Coherent full-scale voices with the player's default settings (found by this check: `*(buffer++) += ...` of
    # MIX_OUT overflowed a signed int, fixed 582c114: the accumulation is done in unsigned arithmetic).  The
    # accumulator wraps and the tick must still be the sum of the solo mixes modulo 2^32 (C14_kernel_superposition);
    # any sanitizer report is a violation like everywhere else.
    over = gen_c14_synth.overdrive_modules(os.path.join(vlib.OUT, "c14-synth"))
    for path in over:
        rc, out, err = vlib.run_exe(exe, ["overdrive", str(seed), "8", path], timeout=600)
        text = out.decode("latin-1")
        st = next((kv(l) for l in text.splitlines() if l.startswith("overdrivestat ")), None)
        name = os.path.basename(path)
        if rc != 0:
            sig = vlib.sanitizer_signature(err)
            ck.violation("harness-abort:" + sig, dict(replay_obj("overdrive", seed, 8, path, ""), stderr=err[-3000:]),
                         "c14 harness (overdrive, %s) aborted rc=%d: %s" % (name, rc, sig))
            continue
        if st is None:
            ck.unproved("overdrive witness did not run", "%s: %s" % (name, text[-300:]))
            continue
        ck.count(("overdrive", name), nontrivial=int(st["wraps"]) > 0, n=int(st["ticks"]))
        ck.cov["traces_validated_against_impl"] += int(st["ticks"]) - min(int(st["fails"]), int(st["ticks"]))
        bump("overdrive_wrapped_words", int(st["wraps"]))
        stats["overdrive_max_exact_sum"] = max(stats.get("overdrive_max_exact_sum", 0), int(st["maxacc"]))
        for line in text.splitlines():
            if line.startswith("tie_fail "):
                ck.violation(line.split()[1] + ":" + name, replay_obj("overdrive", seed, 8, path, line),
                             "wrapped accumulator is not the sum of the solo mixes modulo 2^32: " + line[:300])
        # the model's verdict for this witness: N voices, level L, unfiltered linear kernels (sampleBound 32768)
        n_, l_ = int(st["maxactive"]), int(st["maxlevel"])
        if n_ * 32768 * l_ < 2 ** 31 and int(st["wraps"]) > 0:
            ck.unproved("correspondence C14_kernel_no_wrap vs the C", "%s: %d voices x 32768 x level %d < 2^31 but %s words wrapped"
                        % (name, n_, l_, st["wraps"]))
    # ---------------- voice-slot reuse across channels (filter memory, ramp / anticlick, reverse flags) ----------------
    # IT modules in which a background voice of channel 1 is freed (sample end, fade to silence, duplicate check, cut)
    # and the slot is then taken by a filtered note of another channel; every free voice of every tick is compared
    # member by member (list generated from mixer.h) with the other free voices and, sampled, with Xmp.MixKernel.resetValue
    reuse = gen_c14_synth.reuse_modules(os.path.join(vlib.OUT, "c14-synth"), seed)
    ck.note("voice_reuse_modules", [os.path.basename(f) for f in reuse])
    for interp in (1, 2):
        tie_like("tie", 200 if quick else 500, reuse, "reuse_tie", env={"C14_INTERP": str(interp)})
    for k in ("reuse_filter", "reuse_ramp", "reuse_rev", "freed"):
        if stats.get("reuse_modules_" + k, 0) == 0:
            ck.unproved("correspondence voice reuse coverage", "no voice slot changed owner with state of kind %r in the reuse modules" % k)

    # ---------------- small voice tables: more background (NNA) voices than maxvoc - num_tracks, table not full ----------------
    nna = gen_c14_synth.nna_modules(os.path.join(vlib.OUT, "c14-synth"), seed)
    okt = gen_c14_synth.okt_modules(os.path.join(vlib.OUT, "c14-synth"), seed)
    ck.note("nna_modules", [os.path.basename(f) for f in nna])
    ck.note("okt_split_modules", [os.path.basename(f) for f in okt])
    for voices in (7, 8):
        tie_like("tie", 200 if quick else 500, nna + reuse[:2], "nna_tie", env={"C14_VOICES": str(voices), "C14_INTERP": "1"})
    tie_like("tie", 120 if quick else 400, okt, "okt_tie")
    for k in ("bg_beyond", "bg"):
        if stats.get("nna_modules_" + k, 0) == 0:
            ck.unproved("correspondence background-channel coverage",
                        "the small-voice-table runs never had %s" % {"bg_beyond": "more background voices than maxvoc - num_tracks below the voice limit",
                                                                      "bg": "a libxmp_virt_setpatch call that moved a voice to a background channel"}[k])

    # ---------------- regression configuration: lowest rate + Paula kernels ----------------
    allfiles = vlib.corpus_files()
    lmods = [f for f in allfiles if os.path.basename(f) in PAULA_WITNESSES]
    amiga = [f for f in allfiles if f not in lmods and os.path.getsize(f) < 400000 and
             re.search(r"\.mod$|/(NP|np|mod|MOD|P[0-9A-Za-z]+|pha|kris|unic|ksm|di|fc-m|ac1d|zen|tp[123]|xann|wn)[^/]*$", f)]
    ck.rng.shuffle(amiga)
    lmods += amiga[:12 if quick else 200] + [f for f in synth if f.endswith(".mod")]
    tie_like("lowrate", 300 if quick else 600, lmods, "lowrate")

    # ---------------- twin contexts: player volume / pan tails ----------------
    nfr = 60 if quick else 200
    tmods = modules(ck, 60 if quick else 100000, 500000 if quick else 8000000) + synth + okt
    # one corpus module of every format class: formats that install a volume translation table (PTM, Archimedes Tracker,
    # Coconizer) or pair channels are in every run, under master / effects-mixer volumes drawn from 0..200
    tmods += [f for f in stratified(ck, 500000 if quick else 8000000, per=3) if f not in tmods]
    for sh, (rc, out, err) in zip(*(lambda s: (s, vlib.pmap(run_shard, s)))(shards(exe, "twin", seed, nfr, tmods))):
        if rc != 0:
            abort_violation(ck, exe, sh, rc, err)
            continue
        for line in out.splitlines():
            if line.startswith("twinstat "):
                d = kv(line)
                bump("twin_voice_frames", int(d["compared"]))
                bump("twin_voice_frames_unmatched", int(d["skipped"]))
                bump("twin_background_voice_frames", int(d["nna"]))
                bump("twin_muted_voice_frames", int(d["muted"]))
                if d.get("voltable") == "1" and int(d["compared"]) > 0:
                    bump("twin_volume_table_modules")
                    if d.get("master") not in ("100", None) and d.get("master") != "0":
                        bump("twin_volume_table_modules_scaled")
        model_compare(ck, "twin", out, stats)

    # ---------------- process_pan: every pan source, real calls vs Xmp.MixLinear.processPan ----------------
    panmods = gen_c14_synth.pan_modules(os.path.join(vlib.OUT, "c14-synth"), seed)
    ck.note("pan_source_modules", [os.path.basename(f) for f in panmods])
    pexe = vlib.build_harness(*PHARNESS)
    pmods = panmods + synth + modules(ck, 40 if quick else 100000, 500000 if quick else 8000000)
    pan_cov = {"panbrello": 0, "envelope": 0, "rpv": 0, "surround": 0, "moved": 0, "nonzero_pan": 0}
    shs = [(pexe, "pp", seed, 150 if quick else 600, b, None) for b in [pmods[i::vlib.NCPU] for i in range(vlib.NCPU)] if b]
    for sh, (rc, out, err) in zip(shs, vlib.pmap(run_shard, shs)):
        if rc != 0:
            abort_violation(ck, pexe, sh, rc, err)
            continue
        for line in out.splitlines():
            if line.startswith("ppstat "):
                d = kv(line)
                bump("pan_calls", int(d["calls"]))
                bump("pan_modules")
                for k in pan_cov:
                    pan_cov[k] += int(d[k])
        model_compare(ck, "process_pan", out, stats)
    ck.note("pan_source_calls", pan_cov)
    missing = [k for k, v in pan_cov.items() if v == 0]
    if missing:
        ck.unproved("correspondence process_pan coverage", "no real process_pan call exercised the pan source(s) %s" % missing)

    if stats.get("twin_volume_table_modules_scaled", 0) == 0:
        ck.unproved("correspondence voiceVol coverage", "no twin case ran a volume-translation-table format at a master volume other than 0 / 100")

    # ---------------- direct oracles on whole renders ----------------
    def oracle(mode, nfr, mods, statname, on_stat, env=None):
        for sh, (rc, out, err) in zip(*(lambda s: (s, vlib.pmap(run_shard, s)))(shards(exe, mode, seed, nfr, mods, env=env))):
            if rc != 0:
                abort_violation(ck, exe, sh, rc, err)
                continue
            for line in out.splitlines():
                if line.startswith("oracle_fail "):
                    sig = line.split()[1]
                    path = module_of(line)
                    bump("oracle_fail_" + sig)
                    # at most 3 replay files per kind of failure; the rest is counted
                    if stats["oracle_fail_" + sig] <= 3:
                        ck.violation(sig if sig.endswith((":nna", ":a500")) else sig + ":" + os.path.basename(path),
                                     replay_obj(mode, seed, nfr, path, line, env),
                                     "C14 oracle (%s) failed on the real code: %s" % (mode, line[:400]))
                elif line.startswith(statname + " "):
                    on_stat(line)

    def silence_stat(line):
        d = kv(line)
        bump("silence_renders")
        bump("silence_frames", int(d["frames"]))
        bump("silence_background_voice_frames", int(d["background_voice_frames"]))
        ck.count(("silence", line.split()[1], d["variant"], seed), nontrivial=int(d["channel_frames_with_volume"]) > 0)

    def solosum_stat(line):
        d = kv(line)
        bump("solosum_modules")
        bump("solosum_samples_compared", int(d["compared"]))
        bump("solosum_samples_clipped", int(d["clipped"]))
        bump("solosum_voice_limit_reached", int(d["voice_limit_reached"]))
        for k in ("d0", "d1", "d2", "d3"):
            bump("solosum_diff_" + k, int(d[k]))
        stats["solosum_worst_diff"] = max(stats.get("solosum_worst_diff", 0), int(d["worst"]) if d["voice_limit_reached"] == "0" else 0)
        ck.count(("solosum", line.split()[1], seed, d.get("rate"), d.get("interp")), nontrivial=int(d["compared"]) > 0 and d["voice_limit_reached"] == "0")

    def sep_stat(line):
        d = kv(line)
        bump("sep_modules")
        bump("sep_applicable", int(d["applicable"]))
        bump("sep_frames", int(d["frames"]) if d["applicable"] == "1" else 0)
        bump("sep_frames_L_ne_R", int(d["L_ne_R_frames"]) if d["applicable"] == "1" else 0)
        ck.count(("sep", line.split()[1], seed, d.get("rate"), d.get("interp")), nontrivial=d["applicable"] == "1" and int(d["L_ne_R_frames"]) > 0)

    omods = modules(ck, 120 if quick else 100000, 600000 if quick else 8000000)
    strat = [f for f in stratified(ck, 600000 if quick else 8000000) if f not in omods]
    ck.note("silence_format_classes", len(strat))
    oracle("silence", 120 if quick else 600, synth + okt + nna + omods + strat, "silencestat", silence_stat)
    oracle("solosum", 90 if quick else 400, synth + (omods[:70] if quick else omods), "solosumstat", solosum_stat)
    oracle("sep", 100 if quick else 500, synth + (omods[:90] if quick else omods), "sepstat", sep_stat)
    # every pan source of process_pan (channel / sample / instrument pan, pan envelope, pitch-pan separation, random pan
    # swing, panbrello in all waveforms, pan slides, set pan; surround modules are reported as not applicable) at the drawn
    # separation and at fixed ones: separation 0 => L == R, s vs -s => L/R exchanged
    oracle("sep", 140 if quick else 500, panmods, "sepstat", sep_stat)
    for mixv in (100, 37):
        oracle("sep", 140 if quick else 500, panmods, "sepstat", sep_stat, {"C14_MIX": str(mixv), "C14_POS": "0"})
    # IT modules with embedded MIDI macros that set the filter cutoff / resonance from each macro variable (c n v u x y z o h
    # m p a b) on off-centre channels, Zxx run again ticks after the pan was set: nothing the macros can read may depend on
    # the separation
    macro = gen_c14_synth.macro_modules(os.path.join(vlib.OUT, "c14-synth"), seed)
    ck.note("midi_macro_modules", [os.path.basename(f) for f in macro])
    oracle("sep", 120 if quick else 400, macro, "sepstat", sep_stat, {"C14_POS": "0"})
    oracle("sep", 120 if quick else 400, macro, "sepstat", sep_stat, {"C14_MIX": "100", "C14_POS": "0", "C14_VOICES": "0"})
    # exact +-100 on the hard-panned synthetic modules (one side's gain exactly 0) with their retriggers, cuts, volume-0 and
    # sub-tick one-shots: the anticlick tails must mirror too
    oracle("sep", 150 if quick else 400, synth + okt, "sepstat", sep_stat, {"C14_MIX": "100"})
    # small voice tables (XMP_PLAYER_VOICES): many background voices on few busy channels, voice table never full
    for voices in (7, 8, 10):
        oracle("solosum", 260 if quick else 600, nna, "solosumstat", solosum_stat, {"C14_INTERP": "1", "C14_VOICES": str(voices)})
    oracle("solosum", 120 if quick else 400, okt, "solosumstat", solosum_stat)
    oracle("solosum", 120 if quick else 400, gen_c14_synth.macro_modules(os.path.join(vlib.OUT, "c14-synth"), seed)[::3], "solosumstat",
           solosum_stat, {"C14_INTERP": "1"})
    # voice-slot reuse across channels: the new owner's audio must not depend on the previous owner being audible
    for interp, rate in ((1, 44100), (2, 22050), (1, 8000)):
        oracle("solosum", 220 if quick else 500, reuse, "solosumstat", solosum_stat, {"C14_INTERP": str(interp), "C14_RATE": str(rate)})
    oracle("solosum", 220 if quick else 500, reuse, "solosumstat", solosum_stat, {"C14_INTERP": "1", "C14_JUMP": "1"})
    # A500 mode (Paula kernels, per-voice BLEP state) on Amiga modules: regression for the Paula state that
    # survived voice-slot reuse (signature superposition:solo_sum:a500)
    amods = [f for f in allfiles if os.path.basename(f) in A500_SOLOSUM_WITNESSES] + [f for f in synth if f.endswith(".mod")]
    amods += amiga[:6 if quick else 120]
    oracle("solosum", 200 if quick else 400, amods, "solosumstat", solosum_stat, {"C14_A500": "1"})
    # the exact configuration in which the finding was first seen (order 7 onwards, 400 frames)
    oracle("solosum", 400, amods[:1], "solosumstat", solosum_stat, {"C14_A500": "1", "C14_POS": "7", "C14_RATE": "8000"})
    oracle("sep", 120 if quick else 400, amods, "sepstat", sep_stat, {"C14_A500": "1"})
    # the same synthetic modules under each interpolator at a low and a high rate
    for interp, rate in ((1, 8000), (2, 44100), (0, 4000)):
        env = {"C14_INTERP": str(interp), "C14_RATE": str(rate)}
        oracle("solosum", 150 if quick else 400, synth, "solosumstat", solosum_stat, env)
        oracle("sep", 150 if quick else 400, synth, "sepstat", sep_stat, env)

    # C14_kernel_bound against the renders: no accumulator word may exceed voices x 65536 x level
    for k, v in sorted(stats.items()):
        ck.note(k, v)
    ck.note("generated_consts", os.path.relpath(gen_mixlinear.OUTFILE, vlib.VERIF))
    gen = open(gen_mixlinear.OUTFILE).read()
    m = re.search(r"/-- master-volume rule of process_volume: (.*?) -/\ndef nnaRootRule : Bool := (\w+)", gen)
    ck.note("master_volume_rule", "%s (nnaRootRule = %s)" % (m.group(1), m.group(2)) if m else "?")
    ck.note("unrecognised_code_shapes", re.findall(r"def (\w+) : Option Nat := none", gen))
    ck.cov["rule"] = ("evaluations = ticks whose accumulator was compared exactly with the sum of per-voice solo mixes + model cases "
                      "replayed on the Lean driver + oracle renders; distinct by (module, seed) resp. hash of the case line; "
                      "non-trivial = tick sets with >= 2 simultaneously active voices, model cases with a non-zero expected result, "
                      "silence renders in which some channel had non-zero nominal volume, solo-sum renders with compared samples and no "
                      "voice-limit hit, separation renders that apply (no stereo sample / surround) and have L != R somewhere")
    ck.assumptions += [
        "C int arithmetic of the volume stage does not overflow (model uses unbounded Int; for the kernels this is a theorem under the stated "
        "ranges, C14_kernel_fits; accumulator words are compared mod 2^32)",
        "every context's RNG is seeded identically by the harness (IT random volume/pan variation), so twin/solo renders share one timeline",
        "solo-sum oracle skips modules whose render reached the voice limit (virt_used == maxvoc) and samples at the 16-bit limits",
    ]


def replay(ck, rp):
    r = rp["replay"]
    gen_mixlinear.generate_all()
    exe = build_main_harness()
    if isinstance(r, list):       # unproved items: nothing to run on the real code
        for u in r:
            print("UNPROVED %s: %s" % (u.get("name"), u.get("detail", "")[:1500]))
        return 1
    if "kernel_mode" in r:      # a shard of the kernel harness aborted (sanitizer report inside a real kernel)
        kexe = vlib.build_harness(*KHARNESS, variant=r.get("variant", "asan"))
        rc, out, err = vlib.run_exe(kexe, [r["kernel_mode"], str(r["seed"]), str(r["first"]), str(r["n"])], timeout=900)
        print(err[-2500:])
        if rc != 0:
            print("VIOLATION property=C14 replay=c14_kernel %s %s %s %s (rc=%d)" % (r["kernel_mode"], r["seed"], r["first"], r["n"], rc))
            return 1
        print("no failure on replay")
        return 0
    if "c14-synth" in r["module"] and not os.path.exists(r["module"]):
        gen_c14_synth.overdrive_modules(os.path.dirname(r["module"]))
        gen_c14_synth.generate(os.path.dirname(r["module"]), int(r["seed"]), 8)      # synthetic modules are a function of the seed
    rc, out, err = vlib.run_exe(exe, [r["mode"], str(r["seed"]), str(r["nframes"]), r["module"]], timeout=1500,
                                env=r.get("env") or None)
    text = out.decode("latin-1")
    bad = [l for l in text.splitlines() if l.startswith("oracle_fail") or l.startswith("tie_fail")]
    for l in text.splitlines():
        if not (l.startswith("C ") or l.startswith("E")):
            print(l[:600])
    print(err[-2000:])
    if rc != 0 or bad:
        print("VIOLATION property=C14 replay=%s" % r["module"])
        return 1
    print("no failure on replay")
    return 0
