"""C09 — Corrupted archives are rejected, never silently mis-decoded.

proof   : XmpProps.C09 over XmpModel.Crc (three check codes, table-driven as in the C, tables
          generated from the working tree on every run) and XmpModel.Gates (accept/reject logic of
          every depacker, entropy decoder as a parameter)
tie     : (T) tools/gen_crc_tables.py  -> XmpModel/Gen/CrcTables.lean (static tables by regex,
              bzip2's run-time table by compiling the cut-out generator) + kernel re-check of
              "every entry = 8 bitwise LFSR steps";
          (C) harness/c09_crc.c   real libxmp_crc32_A / _no_inv / libxmp_crc16_IBM on random
              buffers, start values, alignments and chunkings  vs  drv_c09 (table model AND bitwise
              definition);
              harness/c09_gates.c real decrunch of gzip / ARC / ArcFS / LZX archives (intact and
              faulted) with the entropy decoders and the exclusion matcher intercepted at link
              level, vs the Lean gate models run with exactly those functions as parameters;
              the same two-sided way: the real xz depacker (spies on xz_dec_lzma2_reset/_run) vs the
              byte-level container model xzDepack, the real zip reader (spy on tinfl_decompress) vs
              the whole-reader model zipDepack; bzip2 gate model vs the real library on faults in every
              block-header CRC and the stream CRC (single- and multi-block); model CRCs vs the check
              fields written by zlib, libbz2, liblzma
corpus  : corpus/C09/*.json (tools/c09_corpus.py): minimised single-fault regression cases, run first
search  : the direct oracle (harness/c09_corrupt.c): archives of synthetic and corpus payloads
          written by independent encoders, loaded BY PATH; every single-bit flip / byte substitution /
          truncation must fail to load or yield the original payload's MD5.
"""
import hashlib
import os
import re
import shutil
import struct
import tempfile
import zlib

import vlib
import gen_crc_tables
import c09_archives as A

LEVEL = "proof"
MANIFEST = dict(
    category="proof",
    text="Lean 4 theorems (XmpProps.C09) prove, for the three check codes libxmp implements (reflected CRC-32 0xEDB88320 of "
         "gzip/zip/xz/LZX, CRC-16 0xA001 of ARC/ArcFS, bzip2's MSB-first CRC-32), that the table-driven C routines (tables "
         "regenerated from the working tree, every entry kernel-checked) equal the bitwise definition for all messages "
         "(C09_crc_table_eq_bitwise), are linear (C09_crc_linear) and detect every error burst confined to <= 32 (16) consecutive "
         "bits, in particular every single-bit flip and byte substitution (C09_crc_detects_burst, C09_crc32_detects, "
         "C09_crc16_detects, C09_bzcrc_detects); and, for every format's accept/reject logic modelled with the entropy decoder as "
         "an arbitrary parameter, that acceptance implies stored check = check(output) and stored length = length "
         "(C09_gate_gzip/zip/bzip2/xz/arc/arcfs/lzx) and hence that an output within one burst of the packed payload, or an intact "
         "output under a damaged check/length field, is always refused (C09_reject_*). Second wave: bzip2's stream CRC is live "
         "(generated fact Gen.bzStreamCrcDead = false, C09_bzip2_stream_crc_live) and compared: C09_gate_bzip2_stream (accept => stored "
         "stream CRC = combination rotl(total,1)^blockCRC of all block CRCs), the combination rule is injective in both arguments so "
         "one changed block changes the stream CRC (C09_bzip2_combine_injective), C09_reject_bzip2_stream, "
         "C09_reject_bzip2_crc_field_flip (one flipped bit in the stream CRC or in any block header CRC is refused); the xz "
         "CONTAINER is modelled byte-level as xz_dec_stream.c walks it (stream header magic/flags/CRC-32, block headers with size "
         "byte, CRC-32, flags, VLI size fields, filter flags, header padding, dec_block's size comparisons, block padding, Check "
         "field, multi-block loop, Index count/records/padding/size hash/CRC-32, stream footer CRC-32/backward size/flags = header "
         "flags) for ANY LZMA2 decoder: C09_gate_xz_stream (accept => every stored CRC-32 equals the computed one and every block's "
         "Check = crc32 of that block's output), C09_gate_xz_stream_payload, C09_reject_xz_stream_burst / _field / _flags; the zip "
         "model now is the WHOLE miniz reader (EOCD search from the end, zip64 locator/record, central-directory walk with its "
         "sanity tests, member selection, file stat incl. zip64 extra field, local file header, extract): C09_gate_zip_archive, "
         "C09_reject_zip_archive, C09_reject_zip_archive_field. Models are tied to /repo on every run by generated tables + "
         "differential correspondence (real CRC routines; real gzip/ARC/ArcFS/LZX/xz/zip depackers run on intact and faulted "
         "archives with link-level spies on the entropy decoders (tinfl, arc_unpack, lzx_unpack, xz_dec_lzma2_reset/run) and the "
         "exclusion matcher, two-sided comparison of verdict and output with the Lean models run on the same decoder tables; "
         "bzip2 gate on faults in every block-header CRC and the stream CRC of single- and multi-block streams) and a direct oracle "
         "that loads every faulted archive by path and compares xmp_module_info.md5 with the packed payload's MD5. A regression "
         "corpus of minimised single-fault cases (corpus/C09, tools/c09_corpus.py) runs first. Third wave: no loophole at "
         "boundary check values -- C09_gates_exact (every gate test holds IFF stored = check(output), for every stored value incl. "
         "0 and all-ones; ArcFS's format rule `stored CRC 0 = not recorded` is the single, explicit exception), "
         "C09_bzip2_single_block_exact, C09_arc_zero_crc_is_checked; payloads engineered (last 2/4 sample bytes solved over GF(2)) "
         "so that their CRC-16 / CRC-32 / bzip2 CRC is 0x0000/0xFFFF resp. 0x00000000/0xFFFFFFFF go through the gate "
         "correspondence and the oracle sweep in every format comparing that code; member selection -- "
         "C09_zip_member_selection / C09_zip_selected_member_failure (the first supported non-excluded central-directory record "
         "decides: its stat/extraction verdict is zipDepack's verdict whatever members follow), C09_member_selection_final (ARC, "
         "ArcFS, LZX: once the entry loop reaches an entry it extracts, the loop's result is that entry's verdict); archives with "
         "2-3 loadable modules plus non-module members (zip, zip with data descriptors, ARC, ArcFS, LZX) are in the gate "
         "correspondence and in the oracle with the rule `fails or loads the payload of the intact archive`. Nesting: "
         "C09_gate_arc_every_depth / C09_reject_arc_every_depth (arc_read's CRC-16 comparison holds at every directory depth "
         "`level`; directory records' own CRC is never consulted); the module as a member at depth 0/1/2 of ARC 6 (type 30/31) and "
         "Spark directories (tools/c08_writers.arc_tree, stored and packed), ArcFS directory entries, zip / LZX paths is in the "
         "gate correspondence and the oracle sweep (all bits of the nested member's header and of the head/tail of its data + "
         "random faults); LHA -lhd-/path archives are swept too but counted `unverifiable` (no implemented data check).",
    note="Partial by nature: the entropy decoders (inflate, bzip2 BWT/Huffman, LZMA2, ARC LZW/Huffman, LZX) are parameters, not "
         "verified. RESIDUAL CLASS OUTSIDE THE THEOREMS: damage that a decoder spreads over more than one <=32/16-bit burst and whose "
         "check collides (2^-32 / 2^-16 per case) cannot be excluded by any proof; the oracle classifies an accepted different "
         "payload whose CRC-16 genuinely equals the stored field as `residual-crc16-collision` (counted, not a violation). ArcFS "
         "members with stored CRC 0 are unchecked by design (hypothesis of C09_reject_arcfs; generators only emit non-zero CRCs). "
         "zip: miniz never reads the local header's CRC/size fields nor a data descriptor (the central directory is the only "
         "authority; modelled and tied as such); a member with compressed size 0 is returned without CRC compare "
         "(zipExtract) -- mz_zip_reader_init refuses `decomp_size && !comp_size` records, so C09_gate_zip_archive's CRC conclusion "
         "holds for every record whose 32-bit size fields are not the zip64 escape 0xFFFFFFFF and whose declared size is non-zero; "
         "zip64-escaped sizes (taken from the extra field) are modelled and tied (repo ponylips.64.zip) but get only the "
         "compSize != 0 form of the theorem; allocation failures and the 512 MiB output ceilings are not modelled (they only add "
         "ways to fail). bzip2: the model takes the decoded blocks (header CRC, data) and the stored stream CRC; the bit-level "
         "framing/Huffman/BWT is the decoder parameter; multi-block tie splits the payload by matching an independent CRC "
         "against libbz2's block header CRCs. xz: rejection theorems are stated over the parse of the damaged file (no accepted "
         "parse contains a CRC-protected region within one burst of what its stored CRC vouches for; no stored field differs "
         "from its computed value); a flipped Block Header Size byte changes the region the header CRC covers and is outside the "
         "burst theorem (covered by the oracle and the two-sided correspondence). Check types none/CRC64/SHA-256 carry no "
         "implemented check: modelled (Check field skipped) and tied, outside the property and the oracle. The old field-level "
         "xzAccept and ZipStat-level zipExtract models and their theorems are kept. Multi-member archives: damage to a member's "
         "SELECTION metadata (method / flags / name / LZX entry header CRC / ArcFS offsets) legitimately makes the depacker skip it "
         "and load the next, intact and checked, member; the oracle accepts another member's payload only when the gate model "
         "(code as it is) run on the same case with the recorded decoder tables yields exactly that output "
         "(`reselected-member`, counted), anything else is a violation (the repo's lzxmerge stays correspondence-only). LHA is "
         "outside the property: decrunch_lha/lhasa accumulate the data CRC-16 (lha_decoder.c) but nothing compares it (no "
         "lha_reader_check), only header checksums are verified -- there is no implemented data check to state a gate for. "
         "Correspondence is sampled, not exhaustive.",
    technique="Lean 4: decide+kernel over generated tables, induction, BitVec LFSR invariant for burst detection, gate lemmas for "
              "arbitrary decoder (byte-level container parsers with fuelled loops); differential correspondence with link-level "
              "spies; exhaustive/sampled fault injection oracle; regression corpus",
    design_ref="DESIGN.md section 4 C08/C09, Appendix A.2",
)

NS = "Xmp.C09."
REQUIRED = [NS + n for n in (
    "C09_crc_table_eq_bitwise", "C09_crc_linear", "C09_crc_detects_burst", "C09_bzcrc_detects_burst",
    "C09_crc32_detects", "C09_crc16_detects", "C09_bzcrc_detects", "C09_crc32_detects_bytes", "C09_crc16_detects_bytes",
    "C09_gate_gzip", "C09_gate_zip", "C09_gate_zip_member", "C09_gate_bzip2", "C09_bzip2_stream_crc_unchecked", "C09_gate_xz", "C09_gate_arc", "C09_gate_arcfs", "C09_gate_lzx",
    "C09_reject_gzip", "C09_reject_gzip_field", "C09_reject_zip", "C09_reject_zip_field", "C09_reject_bzip2",
    "C09_reject_xz", "C09_reject_xz_field", "C09_reject_arc", "C09_reject_arcfs", "C09_reject_lzx", "C09_reject",
    # second wave: bzip2 stream CRC + combination rule, xz container byte level
    "C09_bzip2_stream_crc_live", "C09_gate_bzip2_stream", "C09_bzip2_combine_injective", "C09_reject_bzip2_stream",
    "C09_reject_bzip2_crc_field_flip",
    "C09_gate_xz_stream", "C09_gate_xz_stream_payload", "C09_reject_xz_stream_burst", "C09_reject_xz_stream_field",
    "C09_reject_xz_stream_flags",
    # zip: the whole miniz reader
    "C09_gate_zip_archive", "C09_reject_zip_archive", "C09_reject_zip_archive_field", "C09_gate_zip_eocd",
    "C09_xz_index_matches_blocks",
    # third wave: no loophole at boundary check values; member selection
    "C09_gates_exact", "C09_bzip2_single_block_exact", "C09_arc_zero_crc_is_checked", "C09_zip_member_selection",
    "C09_zip_selected_member_failure", "C09_member_selection_final",
    # members at every nesting depth
    "C09_gate_arc_every_depth", "C09_reject_arc_every_depth")]

WRAPS = ["-Wl,--wrap=libxmp_tinfl_decompress_mem_to_heap", "-Wl,--wrap=libxmp_arc_unpack", "-Wl,--wrap=lzx_unpack",
         "-Wl,--wrap=libxmp_exclude_match", "-Wl,--wrap=xz_dec_lzma2_run", "-Wl,--wrap=xz_dec_lzma2_reset",
         "-Wl,--wrap=libxmp_tinfl_decompress"]
GATE_FMTS = ("gzip", "arc", "arcfs", "lzx", "xz", "zip")
HARNESS_FMT = {"zip": "zipf"}       # name of the case in harness/c09_gates.c and Drv/C09.lean
ALLBITS = ("crc32", "isize", "crc16", "csize", "usize", "entry", "hdr", "streamhdr", "blockhdr", "blockpad", "check", "index",
           "footer", "blockdata", "eocd", "cdh", "lh", "datadesc", "dirhdr", "direntry")


# --------------------------------------------------------------------------
# small helpers
# --------------------------------------------------------------------------

def region_of(arch, f):
    if f[0] in ("none",):
        return "none"
    if f[0] == "trunc":
        return "trunc"
    for name, (off, ln) in sorted(arch["fields"].items()):
        if off <= f[1] < off + ln:
            return name
    return "data"


def mkwork():
    base = "/dev/shm" if os.path.isdir("/dev/shm") and os.access("/dev/shm", os.W_OK) else None
    return tempfile.mkdtemp(prefix="xmpverif-c09-", dir=base)


class Oracle:
    """Runs faulted archives through the real library (harness c09_corrupt)."""

    def __init__(self, exe, work):
        self.exe = exe
        self.work = work
        self.n = 0

    def _dir(self):
        self.n += 1
        d = os.path.join(self.work, "w%d" % self.n)
        os.makedirs(d, exist_ok=True)
        return d

    def run_faults(self, arch, faults):
        """-> (results {index: (rc, md5|None)}, crashes [(index, signature, stderr tail)])"""
        d = self._dir()
        src = os.path.join(d, "src")
        os.makedirs(src, exist_ok=True)
        apath = os.path.join(src, arch["name"])
        open(apath, "wb").write(arch["data"])
        fpath = os.path.join(d, "faults.txt")
        open(fpath, "w").write("".join(A.fault_line(f) + "\n" for f in faults))
        run = os.path.join(d, "run")
        os.makedirs(run, exist_ok=True)
        res, crashes, first = {}, [], 0
        while first < len(faults):
            rc, out, err = vlib.run_exe(self.exe, ["run", run, apath, fpath, str(first)], timeout=2400)
            for line in out.decode("latin-1").splitlines():
                p = line.split()
                if len(p) == 3:
                    res[int(p[0])] = (int(p[1]), None if p[2] == "-" else p[2])
            if rc == 0:
                break
            ats = re.findall(r"^at (\d+)$", err, re.M)
            at = int(ats[-1]) if ats else first
            if rc == 3 and not ats:
                raise vlib.InfraError("c09_corrupt infrastructure failure: " + err[-500:])
            sig = "timeout" if rc == -999 else vlib.sanitizer_signature(err)
            crashes.append((at, sig, err[-1500:]))
            res.pop(at, None)
            first = at + 1
        shutil.rmtree(d, ignore_errors=True)
        return res, crashes

    def unpack(self, name, data):
        d = self._dir()
        p = os.path.join(d, name)
        open(p, "wb").write(data)
        rc, out, err = vlib.run_exe(self.exe, ["unpack", p], timeout=600)
        shutil.rmtree(d, ignore_errors=True)
        if rc != 0:
            return None, None
        f = out.decode("latin-1").split()
        if len(f) != 2:
            return None, None
        return int(f[0]), (b"" if f[1] == "-" else bytes.fromhex(f[1]))


def classify(orc, arch, fault, ref_stream):
    """An accepted, different payload: is it the inherent residual class or a violation?"""
    bad = A.apply_fault(arch["data"], fault)
    rc, stream = orc.unpack(arch["name"], bad)
    if stream is None:
        return "violation", "unpack probe failed"
    if stream == bad:
        return "raw-accept", "the damaged container itself was accepted as a module (not depacked)"
    if arch["crc16"] and ref_stream is not None:
        want = A.crc16_arc(ref_stream)
        cands = [i for i in range(0, min(len(arch["data"]), 65536) - 1)
                 if arch["data"][i] | (arch["data"][i + 1] << 8) == want] if "crc_at" not in arch else [arch["crc_at"]]
        got = A.crc16_arc(stream)
        for i in cands:
            if i + 1 < len(bad):
                stored = bad[i] | (bad[i + 1] << 8)
                if stored == got:
                    return "residual-crc16-collision", "CRC-16 of the accepted stream equals the stored field at %d" % i
                if stored == 0 and arch["fmt"] == "arcfs":
                    return "unchecked-by-design", "ArcFS stored CRC 0"
    return "violation", "accepted stream of %d bytes, md5 %s" % (len(stream), hashlib.md5(stream).hexdigest())


# --------------------------------------------------------------------------
# the check
# --------------------------------------------------------------------------

def crc_correspondence(ck, quick):
    exe = vlib.build_harness("c09_crc", ["c09_crc.c"])
    nsh = 8
    per = 150 if quick else 1500
    maxlen = 1500 if quick else 6000

    def shard(i):
        return vlib.run_exe(exe, [str(ck.seed * 1009 + i), str(per), str(maxlen)], timeout=900)
    kinds = {}
    for i, (rc, out, err) in enumerate(vlib.pmap(shard, range(nsh))):
        if rc != 0:
            ck.violation("harness-abort:c09_crc:" + vlib.sanitizer_signature(err), {"cmd": ["c09_crc", ck.seed * 1009 + i, per, maxlen],
                         "stderr": err[-2000:]}, "CRC harness aborted")
            continue
        lines = out.decode("latin-1").splitlines()
        cases, reals = lines[0::2], [l.split()[1] for l in lines[1::2]]
        if not ck.lean_ok:
            continue
        model = vlib.run_driver("drv_c09", "\n".join(cases) + "\n")
        for c, r, m in zip(cases, reals, model):
            kind = c.split(" ", 1)[0]
            kinds[kind] = kinds.get(kind, 0) + 1
            mm = m.split()
            n = (len(c.split()[-1]) // 2) if not c.endswith(" -") else 0
            ck.count(("crc", hashlib.md5(c.encode()).hexdigest()), nontrivial=n >= 4)
            if mm[0] != r or mm[1] != r:
                ck.unproved("correspondence Crc model vs crc32.c (%s)" % kind,
                            "real=%s table-model=%s bitwise=%s case: %s" % (r, mm[0], mm[1], c[:300]))
                return
            ck.cov["traces_validated_against_impl"] += 1
    ck.note("crc_cases_by_kind", kinds)


def encoder_field_ties(ck, archives):
    """Model check codes vs the fields written by zlib / libbz2 / liblzma / zipfile."""
    if not ck.lean_ok:
        return
    lines, expect = [], []
    for a in archives:
        p = a["payload"]
        if p is None:
            continue
        d = a["data"]
        if a["fmt"] == "gzip":
            lines.append("crc32 00000000 " + (p.hex() or "-"))
            expect.append(("gzip trailer", "%08x" % struct.unpack("<I", d[-8:-4])[0]))
        elif a["fmt"] == "bzip2" and len(p) < 90000 and d[4:10] == b"\x31\x41\x59\x26\x53\x59":
            lines.append("bz " + (p.hex() or "-"))
            expect.append(("bzip2 block header", d[10:14].hex()))
        elif a["fmt"] == "xz" and "check" in a["fields"]:
            off = a["fields"]["check"][0]
            lines.append("crc32 00000000 " + (p.hex() or "-"))
            expect.append(("xz block check", "%08x" % struct.unpack("<I", d[off:off + 4])[0]))
            so, sl = a["fields"]["streamhdr"]
            lines.append("crc32 00000000 " + d[6:8].hex())
            expect.append(("xz stream header crc", "%08x" % struct.unpack("<I", d[8:12])[0]))
        elif a["fmt"] == "zip" and a.get("zip"):
            c = a["zip"]["cdh"]
            lines.append("crc32 00000000 " + (p.hex() or "-"))
            expect.append(("zip central directory crc", "%08x" % struct.unpack("<I", d[c + 16:c + 20])[0]))
    if not lines:
        return
    out = vlib.run_driver("drv_c09", "\n".join(lines) + "\n")
    for (what, want), got, line in zip(expect, out, lines):
        g = got.split()
        if g[0] != want or g[1] != want:
            ck.unproved("model check code vs independent encoder (%s)" % what,
                        "encoder wrote %s, table model %s, bitwise %s" % (want, g[0], g[1]))
            return
        ck.cov["traces_validated_against_impl"] += 1
    ck.note("encoder_field_ties", len(lines))


def gate_cases(ck, arch, quick):
    """archive variants for the gate correspondence: intact, all bits of the check fields, samples"""
    rng = ck.rng
    data = arch["data"]
    n = len(data)
    faults = [("none",)]
    for name, (off, ln) in sorted(arch["fields"].items()):
        for o in range(off, min(off + ln, n)):
            bits = range(8) if (name in ALLBITS or re.sub(r"(N|\d+)(_head|_tail)?$", "", name) in ALLBITS) else [rng.randrange(8)]
            for b in bits:
                faults.append(("flip", o, b))
    k = 40 if quick else 300
    for _ in range(k):
        faults.append(("flip", rng.randrange(n), rng.randrange(8)))
    for _ in range(k // 3):
        faults.append(("sub", rng.randrange(n), rng.randrange(256)))
    for _ in range(k // 4):
        faults.append(("trunc", rng.randrange(100, n) if n > 100 else n))
    for t in range(1, 10):
        faults.append(("trunc", n - t))
    cap = 140 if quick else 500
    if arch["fmt"] in ("xz", "zip") or arch.get("members") or arch.get("nested") is not None:
        cap = 420 if quick else 2500
    if len(faults) > cap:
        head, tail = faults[:1], faults[1:]
        rng.shuffle(tail)
        faults = head + tail[:cap - 1]
    # always kept (after the cap): edits that reach the checks behind the first line of defence
    if arch["fmt"] == "xz":
        faults += A.xz_consistent_edits(arch, rng, per_region=4 if quick else 40)
    if arch["fmt"] == "zip" and arch.get("zip"):
        c = arch["zip"]["cdh"]
        for o in list(range(c + 8, c + 12)) + list(range(c + 20, c + 28)) + list(range(c + 42, c + 46)):
            for v in (0x00, 0xFF):
                if data[o] != v:
                    faults.append(("sub", o, v))
    return faults


def gate_correspondence(ck, orc, archives, quick, jobs=None, label="gate_correspondence"):
    exe = vlib.build_harness("c09_gates", ["c09_gates.c"], extra=WRAPS)
    stats = {"cases": 0, "real_accept": 0, "real_reject": 0, "accept_changed_payload": 0}
    if jobs is None:
        todo = [a for a in archives if a["fmt"] in GATE_FMTS and len(a["data"]) <= 20000]
        jobs = []
        for a in todo:
            fl = gate_cases(ck, a, quick)
            jobs.append((a, fl))

    lean_ok = ck.lean_ok

    def run(job):
        a, fl = job
        d = tempfile.mkdtemp(prefix="g", dir=orc.work)
        cf = os.path.join(d, "cases.txt")
        with open(cf, "w") as f:
            for x in fl:
                b = A.apply_fault(a["data"], x)
                f.write("%s %s\n" % (HARNESS_FMT.get(a["fmt"], a["fmt"]), b.hex() or "-"))
        rc, out, err = vlib.run_exe(exe, [d, cf], timeout=1800)
        shutil.rmtree(d, ignore_errors=True)
        out = out.decode("latin-1")
        model = None
        if rc == 0 and lean_ok:
            # the model on the same cases, with the decoder tables the spies recorded (in the worker: drivers run in parallel)
            drv_in = [l for l in out.splitlines() if not l.startswith("real ")]
            model = vlib.run_driver("drv_c09", "\n".join(drv_in) + "\n", timeout=1800)
        return rc, out, err, model
    for (a, fl), (rc, out, err, model) in zip(jobs, vlib.pmap(run, jobs)):
        if rc != 0:
            ck.violation("harness-abort:c09_gates:" + vlib.sanitizer_signature(err),
                         {"fmt": a["fmt"], "archive_hex": a["data"].hex(), "stderr": err[-2000:]},
                         "depacker aborted under the gate harness (%s)" % a["fmt"])
            continue
        lines = out.splitlines()
        reals = [l[5:] for l in lines if l.startswith("real ")]
        if len(reals) != len(fl):
            raise vlib.InfraError("c09_gates: %d answers for %d cases" % (len(reals), len(fl)))
        if model is None:
            continue
        if len(model) != len(reals):
            raise vlib.InfraError("drv_c09: %d answers for %d cases" % (len(model), len(reals)))
        for x, r, m in zip(fl, reals, model):
            stats["cases"] += 1
            acc = r != "none"
            stats["real_accept" if acc else "real_reject"] += 1
            ck.count(("gate", a["fmt"], a["variant"], hashlib.md5(a["data"]).hexdigest()[:8], x), nontrivial=x[0] != "none")
            if r == m:
                ck.cov["traces_validated_against_impl"] += 1
                continue
            if x[0] == "msub":
                # a CRC-consistent edit (outside the property's fault class): model tie only
                ck.unproved("correspondence Gates.%sDepack vs %s depacker (CRC-consistent edit)" % (a["fmt"], a["fmt"]),
                            "edit %s on %s/%s: real=%s model=%s ; archive=%s" % (x, a["fmt"], a["variant"], r[:80], m[:80],
                                                                             a["data"].hex()[:4000]))
                return stats
            # disagreement: ask the direct oracle whether the property itself fails on this case
            res, _ = orc.run_faults(a, [("none",), x])
            ref = A.md5hex(a["payload"]) if a["payload"] is not None else (res.get(0) or (1, None))[1]
            got = res.get(1)
            if got and got[0] == 0 and got[1] != ref:
                kind, why = classify(orc, a, x, a["payload"])
                if kind == "violation" or kind == "raw-accept":
                    ck.violation("silent:%s:%s" % (a["fmt"], region_of(a, x)), replay_obj(a, x, ref, got),
                                 "%s archive with fault %s loads with a different payload (%s)" % (a["fmt"], x, why))
                    continue
            ck.unproved("correspondence Gates.%sDepack vs %s depacker" % (a["fmt"], a["fmt"]),
                        "fault %s on %s/%s: real=%s model=%s ; archive=%s" % (x, a["fmt"], a["variant"], r[:80], m[:80],
                                                                         a["data"].hex()[:4000]))
            return stats
    ck.note(label, stats)
    return stats


def gate_eval(ck, orc, a, faults):
    """[(real, model)] for the given faults of one archive: the real depacker under the spies and the Lean gate
    model run with the recorded decoder tables (model None when the Lean side is not available)"""
    exe = vlib.build_harness("c09_gates", ["c09_gates.c"], extra=WRAPS)
    d = tempfile.mkdtemp(prefix="e", dir=orc.work)
    cf = os.path.join(d, "cases.txt")
    with open(cf, "w") as f:
        for x in faults:
            f.write("%s %s\n" % (HARNESS_FMT.get(a["fmt"], a["fmt"]), A.apply_fault(a["data"], x).hex() or "-"))
    rc, out, err = vlib.run_exe(exe, [d, cf], timeout=1800)
    shutil.rmtree(d, ignore_errors=True)
    if rc != 0:
        return [(None, None)] * len(faults)
    lines = out.decode("latin-1").splitlines()
    reals = [l[5:] for l in lines if l.startswith("real ")]
    model = [None] * len(reals)
    if ck.lean_ok:
        model = vlib.run_driver("drv_c09", "\n".join(l for l in lines if not l.startswith("real ")) + "\n", timeout=1800)
    if len(reals) != len(faults) or len(model) != len(faults):
        return [(None, None)] * len(faults)
    return list(zip(reals, model))


def parse_zip_member(b):
    """Independent (python) parse of a possibly damaged zip: central-directory record of song.mod"""
    try:
        e = b.rindex(b"PK\x05\x06")
        cd = struct.unpack("<I", b[e + 16:e + 20])[0]
        p = cd
        while b[p:p + 4] == b"PK\x01\x02":
            nl, el, cl = struct.unpack("<HHH", b[p + 28:p + 34])
            if b[p + 46:p + 46 + nl] == b"song.mod":
                bf, meth = struct.unpack("<HH", b[p + 8:p + 12])
                crc, cs, us = struct.unpack("<III", b[p + 16:p + 28])
                lho = struct.unpack("<I", b[p + 42:p + 46])[0]
                if b[lho:lho + 4] != b"PK\x03\x04":
                    return None
                lnl, lel = struct.unpack("<HH", b[lho + 26:lho + 30])
                return dict(bf=bf, meth=meth, crc=crc, cs=cs, us=us, data=lho + 30 + lnl + lel)
            p += 46 + nl + el + cl
    except (ValueError, struct.error):
        pass
    return None


def field_gate_ties(ck, orc, archives, quick):
    """zip and bzip2 gate models vs the real library on faults inside the check fields / data."""
    if not ck.lean_ok:
        return
    n = 0
    for a in archives:
        if a["payload"] is None or (len(a["data"]) > 20000 and a["fmt"] != "bzip2"):
            continue
        if a["fmt"] == "zip" and a.get("zip"):
            c = a["zip"]["cdh"]
            offs = list(range(c + 16, c + 28)) + [c + 10, c + 11]
            faults = [("none",)] + [("flip", o, b) for o in offs for b in (range(8) if not quick else [ck.rng.randrange(8), ck.rng.randrange(8)])]
            faults += [("sub", c + 20 + k, 0) for k in range(4)]
            dstart = a["zip"]["data"]
            for _ in range(10 if quick else 60):
                csz = struct.unpack("<I", a["data"][c + 20:c + 24])[0]
                faults.append(("flip", dstart + ck.rng.randrange(max(1, csz)), ck.rng.randrange(8)))
            res, crashes = orc.run_faults(a, faults)
            lines, idx = [], []
            for i, x in enumerate(faults):
                b = A.apply_fault(a["data"], x)
                st = parse_zip_member(b)
                if st is None or i not in res:
                    continue
                tail = b[st["data"]:] if st["data"] + st["cs"] <= len(b) else None
                inf = "none"
                if tail is not None and st["meth"] == 8:
                    try:
                        o = zlib.decompressobj(-15)
                        inf = o.decompress(tail[:st["cs"]])
                        inf = (inf.hex() or "-") if o.eof else "none"
                    except zlib.error:
                        inf = "none"
                lines.append("zip %d %d %d %d %d %s %s" % (st["meth"], st["bf"], st["cs"], st["us"], st["crc"],
                                                          "none" if tail is None else (tail.hex() or "-"), inf))
                idx.append(i)
            out = vlib.run_driver("drv_c09", "\n".join(lines) + "\n") if lines else []
            for i, m in zip(idx, out):
                real_ok = res[i][0] == 0
                model_ok = m.startswith("some")
                n += 1
                # the model covers mz_zip_reader_extract_to_mem_no_alloc1 only; mz_zip_reader_init applies further
                # sanity checks to the central directory, so the real reader may refuse more: the direction the
                # gate theorem needs is  real accepts => model accepts  (and the payload then is the model's)
                if real_ok and not model_ok:
                    ck.unproved("correspondence Gates.zipExtract vs miniz_zip.c",
                                "fault %s: real load rc=%s, model=%s; archive=%s" % (faults[i], res[i][0], m[:60], a["data"].hex()[:3000]))
                    return
                ck.cov["traces_validated_against_impl"] += 1
        if a["fmt"] == "xz" and "blockhdr" in a["fields"]:
            d = a["data"]
            F = a["fields"]
            faults = [("none",)]
            for name in ("streamhdr", "blockhdr", "check", "index", "footer"):
                off, ln = F[name]
                for o in range(off, off + ln):
                    for b in (range(8) if not quick else [ck.rng.randrange(8)]):
                        faults.append(("flip", o, b))
            res, crashes = orc.run_faults(a, faults)
            lines, idx = [], []
            for i, x in enumerate(faults):
                if i not in res:
                    continue
                b = A.apply_fault(d, x)
                sl = lambda nm: b[F[nm][0]:F[nm][0] + F[nm][1]]
                ix = sl("index")
                lines.append("xzg %s %s %08x %s %08x %s %s" % (sl("streamhdr").hex(), sl("blockhdr").hex(),
                             struct.unpack("<I", sl("check"))[0], ix[:-4].hex(), struct.unpack("<I", ix[-4:])[0],
                             sl("footer").hex(), a["payload"].hex() or "-"))
                idx.append(i)
            out = vlib.run_driver("drv_c09", "\n".join(lines) + "\n") if lines else []
            for i, m in zip(idx, out):
                n += 1
                # the model has the framing of the intact stream (field positions fixed): real accepts => model accepts
                if res[i][0] == 0 and not m.startswith("some"):
                    ck.unproved("correspondence Gates.xzAccept vs xz_dec_stream.c",
                                "fault %s: real load rc=%s, model=%s; archive=%s" % (faults[i], res[i][0], m[:60], d.hex()[:3000]))
                    return
                if res[i][0] != 0 and m.startswith("some") and faults[i][0] != "none":
                    ck.bump("xz_real_stricter_than_field_model")
                ck.cov["traces_validated_against_impl"] += 1
        if a["fmt"] == "bzip2":
            d = a["data"]
            lay = a.get("bz") or A.bz_layout(d, a["payload"])
            if lay is None:
                ck.bump("bzip2_layout_not_established")
                continue
            # header CRC of every block and the stream CRC: 32 bits each, bit aligned (MSB first)
            crc_bits = [o + 48 for o in lay["block_bits"]] + [lay["eos_bit"] + 48]
            multi = len(lay["parts"]) > 1
            faults = [("none",)]
            for fb in crc_bits:
                ks = range(32) if not (multi and quick) else sorted(ck.rng.sample(range(32), 3))
                faults += [("flip", (fb + k) // 8, 7 - ((fb + k) % 8)) for k in ks]
            res, crashes = orc.run_faults(a, faults)
            lines, idx = [], []
            for i, x in enumerate(faults):
                if i not in res:
                    continue
                lines.append(bz_model_line(A.apply_fault(d, x), lay))
                idx.append(i)
            out = vlib.run_driver("drv_c09", "\n".join(lines) + "\n", timeout=1800) if lines else []
            for i, m in zip(idx, out):
                n += 1
                if multi:
                    ck.bump("bzip2_multiblock_tie_cases")
                if (res[i][0] == 0) != m.startswith("some"):
                    ck.unproved("correspondence Gates.bzDepack vs bunzip2.c",
                                "fault %s (%d blocks): real load rc=%s, model=%s; archive=%s" % (
                                    faults[i], len(lay["parts"]), res[i][0], m[:60], d.hex()[:3000]))
                    return
                ck.cov["traces_validated_against_impl"] += 1
    ck.note("field_gate_ties", n)


def bz_model_line(b, lay):
    """`bzg` driver line for the (possibly damaged) file bytes `b`: CRC fields re-read at the known bit offsets"""
    crc_bits = [o + 48 for o in lay["block_bits"]] + [lay["eos_bit"] + 48]
    v = int.from_bytes(b, "big")
    nb = len(b) * 8
    get = lambda off: (v >> (nb - off - 32)) & 0xFFFFFFFF
    toks = ["bzg", "%08x" % get(crc_bits[-1])]
    for fb, p in zip(crc_bits[:-1], lay["parts"]):
        toks += ["%08x" % get(fb), p.hex() or "-"]
    return " ".join(toks)


def corpus_first(ck, orc):
    """corpus/C09: minimised regression cases (past defects, mutations), run before anything else:
    direct oracle on every case, model correspondence where a gate model covers the format."""
    import c09_corpus
    cases = c09_corpus.load_cases()
    st = {"cases": len(cases), "oracle_ok": 0, "model_ok": 0, "drift": 0}
    gate_jobs = []
    for c in cases:
        a = {"name": c["name"], "data": c["data"], "fmt": c["fmt"], "fields": {}, "variant": "corpus:" + c["id"],
             "payload": None, "crc16": c["fmt"] in ("arc", "arcfs")}
        want = c.get("payload_md5")
        fl = [("none",)] + ([c["fault"]] if c["fault"] != ("none",) else [])
        res, crashes = orc.run_faults(a, fl)
        ck.count(("corpus", c["id"]), nontrivial=True)
        for at, sig, err in crashes:
            ck.violation("corpus:%s:crash:%s" % (c["id"], sig), dict(replay_obj(a, fl[min(at, len(fl) - 1)], want, None), stderr=err),
                         "corpus case %s (%s) aborts: %s" % (c["id"], c["why"], sig))
        if crashes:
            continue
        if want is None:
            # a file of /repo that must not load (libxmp's own corrupted sample)
            if res.get(0, (1, None))[0] == 0:
                ck.violation("corpus:%s" % c["id"], replay_obj(a, ("none",), None, res.get(0)),
                             "corpus case %s loads although it must be refused (%s)" % (c["id"], c["why"]))
            else:
                st["oracle_ok"] += 1
            continue
        if res.get(0) != (0, want):
            ck.violation("corpus-baseline:%s" % c["id"], replay_obj(a, ("none",), want, res.get(0)),
                         "intact archive of corpus case %s does not load to its payload: %s" % (c["id"], res.get(0)))
            continue
        got = res.get(1)
        if got is None:
            continue
        if got[0] == 0 and got[1] != want:
            ck.violation("corpus:%s" % c["id"], replay_obj(a, c["fault"], want, got),
                         "corpus case %s: %s archive with fault %s loads with a DIFFERENT payload (md5 %s, packed %s) -- %s" % (
                             c["id"], c["fmt"], c["fault"], got[1], want, c["why"]))
            continue
        st["oracle_ok"] += 1
        if (c["expect"] == "reject") != (got[0] != 0):
            st["drift"] += 1          # allowed by the property (identical payload / refusal), but not what was recorded
        if c["fmt"] in GATE_FMTS:
            gate_jobs.append((a, fl))
        elif c["fmt"] == "bzip2" and ck.lean_ok:
            rc, stream = orc.unpack(c["name"], c["data"])
            lay = A.bz_layout(c["data"], stream) if stream else None
            if lay is None:
                continue
            out = vlib.run_driver("drv_c09", "\n".join(bz_model_line(A.apply_fault(c["data"], x), lay) for x in fl) + "\n")
            for x, m in zip(fl, out):
                real_ok = res[fl.index(x)][0] == 0
                if real_ok != m.startswith("some"):
                    ck.unproved("correspondence Gates.bzDepack vs bunzip2.c (corpus %s)" % c["id"],
                                "fault %s: real load rc=%s, model=%s" % (x, res[fl.index(x)][0], m[:60]))
                    break
                st["model_ok"] += 1
                ck.cov["traces_validated_against_impl"] += 1
    if gate_jobs:
        g = gate_correspondence(ck, orc, None, True, jobs=gate_jobs, label="corpus_gate_correspondence")
        st["model_ok"] += g["cases"]
    ck.note("corpus", st)


def find_bz_eos(d):
    """bit offset of the end-of-stream magic 0x177245385090 (searched from the end)"""
    v = int.from_bytes(d, "big")
    nb = len(d) * 8
    for pad in range(0, 8):
        off = nb - pad - 80
        if off < 0:
            return None
        if (v >> (nb - off - 48)) & 0xFFFFFFFFFFFF == 0x177245385090:
            return off
    return None


def replay_obj(a, fault, ref, got):
    return {"how": "python3 tools/check.py C09 --replay <this file>", "fmt": a["fmt"], "variant": a["variant"],
            "name": a["name"], "archive_hex": a["data"].hex(), "fault": list(fault), "orig_md5": ref,
            "got": list(got) if got else None}


def build_archives(ck, orc, quick):
    rng = ck.rng
    payloads = []
    payloads.append(("synth-tiny", A.synth_mod(rng, tiny=True)))
    for i in range(2 if quick else 4):
        payloads.append(("synth%d" % i, A.synth_mod(rng, compressible=(i % 2 == 0))))
    cands = A.corpus_candidates(7000)
    rng.shuffle(cands)
    want = 2 if quick else 5
    for f in cands[:40]:
        if want == 0:
            break
        b = open(f, "rb").read()
        if any(b.startswith(m) for m in A.ARCHIVE_MAGICS):
            continue
        probe = {"name": "probe.bin", "data": b, "fmt": "raw", "fields": {}}
        res, crashes = orc.run_faults(probe, [("none",)])
        if res.get(0) == (0, A.md5hex(b)):
            payloads.append((os.path.basename(f), b))
            want -= 1
    archives = []
    for pname, p in payloads:
        for a in A.all_writers(rng, p):
            a["pname"] = pname
            archives.append(a)
    seeds = A.seed_archives()
    for a in seeds:
        a["pname"] = "repo"
    # gate-correspondence-only archives (no implemented check): xz check types none / CRC64 / SHA-256
    for pname, p in payloads[:2]:
        for a in A.xz_gate_only(rng, p):
            a["pname"] = pname
            seeds.append(a)
    # boundary check values: payloads whose CRC-16 / CRC-32 / bzip2 CRC is 0 resp. all ones, in every format comparing it
    for a in A.boundary_archives(rng):
        (archives if a.get("oracle", True) else seeds).append(a)
    # several loadable members (+ non-module members): a failure in the selected member must fail the load
    tiny3 = [A.synth_mod(rng, tiny=True) for _ in range(3)]
    archives.extend(A.multi_member_archives(rng, tiny3))
    # the module as a member at nesting depth 0..2 of every container that has directories (ARC 6 type 30/31, Spark
    # directories, ArcFS directory entries, zip / LZX / LHA paths): member data must be checked at every depth
    archives.extend(A.nested_archives(rng, tiny3[1], quick))
    # one multi-block bzip2 stream (>= 3 blocks at level 1) for the stream-CRC combination rule
    big = A.synth_mod_big(rng)
    a = A.make_bz2_multi(rng, big)
    if a is not None:
        a["pname"] = "synth-big"
        a["budget"] = (40, 10, 10) if quick else (400, 100, 60)
        archives.append(a)
    ck.note("payloads", [(n, len(p)) for n, p in payloads])
    return archives, seeds


def oracle(ck, orc, archives, quick):
    tier = ck.tier
    stats = {}
    jobs = []
    for a in archives:
        fl = A.gen_faults(a, tier, ck.rng, budget=a.get("budget"))
        # split into chunks so that all cores are busy; every chunk re-measures the reference
        body = fl[1:]
        step = 400
        for i in range(0, max(1, len(body)), step):
            jobs.append((a, [("none",)] + body[i:i + step]))
    ck.note("oracle_jobs", len(jobs))
    st_key = {id(a): hashlib.md5(a["data"]).hexdigest()[:12] for a in archives}
    suspects = {}      # archives with several loadable members: accepted payload = another member's
    results = vlib.pmap(lambda j: orc.run_faults(j[0], j[1]), jobs)
    for (a, fl), (res, crashes) in zip(jobs, results):
        st = stats.setdefault(a["fmt"], {"archives": set(), "faults": 0, "rejected": 0, "identical": 0, "residual": 0,
                                         "reselected": 0, "violations": 0, "flip": 0, "sub": 0, "trunc": 0})
        st["archives"].add(hashlib.md5(a["data"]).hexdigest())
        base = res.get(0)
        want = A.md5hex(a["payload"]) if a["payload"] is not None else (base[1] if base else None)
        if base is None or base[0] != 0 or base[1] != want:
            if a["payload"] is None:
                ck.bump("seed_archives_not_loading")
                continue
            ck.violation("baseline:%s:%s" % (a["fmt"], a["variant"]), replay_obj(a, ("none",), want, base),
                         "intact %s archive (%s) written by an independent encoder does not load to its payload: %s" % (
                             a["fmt"], a["variant"], base))
            continue
        for at, sig, err in crashes:
            f = fl[at] if at < len(fl) else ("?",)
            if sig == "timeout":
                ck.bump("oracle_timeouts")
                continue
            ck.violation("crash:%s:%s" % (a["fmt"], sig), dict(replay_obj(a, f, want, None), stderr=err),
                         "loading a damaged %s archive (fault %s) aborts: %s" % (a["fmt"], f, sig))
        for i, x in enumerate(fl):
            if i == 0 or i not in res:
                continue
            rc, md5 = res[i]
            st["faults"] += 1
            st[x[0]] += 1
            ck.count(hash((a["fmt"], a["variant"], st_key[id(a)], x)), nontrivial=True)
            if rc != 0:
                st["rejected"] += 1
            elif md5 == want:
                st["identical"] += 1
            elif a.get("unverifiable"):
                # the format's data check is not implemented by the library (LHA: lhasa never compares the CRC-16 it
                # accumulates): a changed payload cannot be refused -- counted, swept for aborts only
                st["unverifiable"] = st.get("unverifiable", 0) + 1
            elif md5 in a.get("members", ()) and a["fmt"] in GATE_FMTS:
                # another member's intact payload was loaded: legitimate only if the damaged *selection metadata* (method,
                # flags, name, entry header CRC ...) makes the depacker skip the first member -- decided below by the
                # gate model (code as it is, member-selection theorems) on exactly this case
                suspects.setdefault(id(a), (a, want, []))[2].append((x, rc, md5))
            else:
                kind, why = classify(orc, a, x, a["payload"] if a["payload"] is not None else orc.unpack(a["name"], a["data"])[1])
                if kind in ("residual-crc16-collision", "unchecked-by-design"):
                    st["residual"] += 1
                    ck.sample({"residual": kind, "fmt": a["fmt"], "fault": list(x), "why": why})
                else:
                    st["violations"] += 1
                    sig = ("raw-accept:%s" if kind == "raw-accept" else "silent:%s:") % a["fmt"]
                    if kind != "raw-accept":
                        sig += region_of(a, x)
                    ck.violation(sig, replay_obj(a, x, want, (rc, md5)),
                                 "%s archive (%s, payload %s) with fault %s loads successfully with a DIFFERENT payload: md5 %s "
                                 "instead of %s (%s)" % (a["fmt"], a["variant"], a.get("pname"), x, md5, want, why))
    for a, want, lst in suspects.values():
        st = stats[a["fmt"]]
        ev = gate_eval(ck, orc, a, [x for x, _, _ in lst])
        for (x, rc, md5), (real, model) in zip(lst, ev):
            ok = (real is not None and real == model and real.startswith("some ")
                  and hashlib.md5(bytes.fromhex(real[5:]) if real[5:] != "-" else b"").hexdigest() == md5)
            if ok:
                st["reselected"] += 1
                ck.bump("oracle_member_reselected_by_damaged_metadata")
                if st["reselected"] <= 3:
                    ck.sample({"residual": "reselected-member", "fmt": a["fmt"], "variant": a["variant"], "fault": list(x),
                               "region": region_of(a, x)})
            else:
                st["violations"] += 1
                ck.violation("silent:%s:%s" % (a["fmt"], region_of(a, x)), replay_obj(a, x, want, (rc, md5)),
                             "%s archive with several loadable members (%s) and fault %s loads ANOTHER member's payload (md5 %s "
                             "instead of %s) although the gate model (member selection as in the code + selected member must "
                             "pass its check) refuses / differs: real=%s model=%s" % (
                                 a["fmt"], a["variant"], x, md5, want, str(real)[:40], str(model)[:40]))
    for st in stats.values():
        st["archives"] = len(st["archives"])
    ck.note("oracle", stats)
    return stats


def run(ck):
    quick = ck.tier == "quick"
    # 1 translator
    try:
        facts, changed = gen_crc_tables.generate()
    except gen_crc_tables.GenError as e:
        ck.unproved("translator gen_crc_tables", str(e))
        facts = None
    if facts:
        ck.note("translator", {"crc_macro": facts["upd"], "bz_update": facts["updbz"], "bz_combine": facts["comb"],
                               "tables": {k: hashlib.md5(repr(facts[k]).encode()).hexdigest()[:12] for k in ("t32", "t16", "tbz")}})
    # 2 proofs
    ck.proofs(["XmpProps.C09"], required=REQUIRED, drivers=["drv_c09"])
    # 3 harnesses
    cexe = vlib.build_harness("c09_corrupt", ["c09_corrupt.c"])
    work = mkwork()
    import time
    phases, t0 = {}, time.time()

    def lap(name):
        nonlocal t0
        phases[name] = round(time.time() - t0, 1)
        t0 = time.time()
    try:
        orc = Oracle(cexe, work)
        corpus_first(ck, orc)
        lap("corpus")
        crc_correspondence(ck, quick)
        lap("crc")
        archives, seeds = build_archives(ck, orc, quick)
        encoder_field_ties(ck, archives)
        lap("archives")
        gate_correspondence(ck, orc, archives + seeds, quick)
        lap("gates")
        field_gate_ties(ck, orc, archives, quick)
        lap("field_ties")
        skipped = [a["variant"] for a in seeds if not a.get("oracle", True)]
        ck.note("seed_archives_outside_oracle_scope", skipped)
        st = oracle(ck, orc, archives + [a for a in seeds if a.get("oracle", True)], quick)
        lap("oracle")
        ck.note("phase_seconds", phases)
    finally:
        shutil.rmtree(work, ignore_errors=True)
    ck.sample({"formats": sorted(st), "example_fault_counts": {k: v["faults"] for k, v in st.items()}})
    ck.cov["rule"] = ("cases = (archive written by an independent encoder from a synthetic or corpus payload, one fault: single-bit "
                      "flip / byte substitution / truncation) generated from VERIF_SEED, plus CRC buffers and gate-correspondence "
                      "variants; distinct by (format, variant, archive hash, fault); non-trivial = the archive is actually damaged "
                      "(CRC cases: at least 4 message bytes)")
    ck.assumptions += [
        "entropy decoders are parameters of the gate models (not verified); the residual class (damage spread over more than one "
        "32/16-bit burst with a colliding check value) is outside the theorems",
        "xmp_module_info.md5 is the MD5 of the stream handed to the loaders (C08)",
        "little-endian x86-64 build; xz check types other than CRC-32 are out of scope",
    ]


def replay(ck, rp):
    r = rp["replay"]
    if not isinstance(r, dict) or "archive_hex" not in r:
        # "no failing input found": a proof obligation / correspondence was broken -> re-run the check itself
        print("replay of a broken obligation/correspondence (%s): re-running the check" % rp.get("signature"))
        for u in (r if isinstance(r, list) else [r]):
            print("  recorded:", str(u)[:400])
        run(ck)
        return ck.finish()
    exe = vlib.build_harness("c09_corrupt", ["c09_corrupt.c"])
    work = mkwork()
    try:
        orc = Oracle(exe, work)
        a = {"name": r["name"], "data": bytes.fromhex(r["archive_hex"]), "fmt": r["fmt"], "fields": {}}
        f = tuple(r["fault"])
        res, crashes = orc.run_faults(a, [("none",), f])
    finally:
        shutil.rmtree(work, ignore_errors=True)
    print("archive %s (%s), %d bytes, fault %s" % (r["name"], r["fmt"], len(a["data"]), f))
    print("intact : %s" % (res.get(0),))
    print("faulted: %s   (payload md5 %s)" % (res.get(1), r.get("orig_md5")))
    for at, sig, err in crashes:
        print("crash at %d: %s\n%s" % (at, sig, err))
    got = res.get(1)
    bad = bool(crashes) or (got is not None and got[0] == 0 and got[1] != r.get("orig_md5")) or \
        (f == ("none",) and (res.get(0) or (1, None)) != (0, r.get("orig_md5")))
    if bad:
        print("VIOLATION property=C09 replay=(this file): accepted with a different payload / aborted")
    else:
        print("no violation on the current tree")
    return 1 if bad else 0
