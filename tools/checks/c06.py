"""C06 — Rendering is deterministic and contexts are isolated from each other.

proof      : XmpProps.C06 over XmpModel.Reset (context_data as a record of all its generated leaf fields;
             create/prologue/epilogue/scan/start/end/release as field updates) and the generated list of
             writable globals
tie (T)    : tools/gen_ctx_fields.py (leaf fields + constants from the real headers: a new member must be
             classified or the model stops compiling), tools/gen_globals.py (objdump of every object)
tie (C)    : harness/c06_reset.c `op` cases: complete context image before/after each modelled operation on the
             real code vs the native driver drv_c06 running the model on the same image; `hist` cases: whole image
             of a context with a random prior history vs a fresh one after load;start must differ only where the
             model says a member is dead / not live
search     : harness/c06_reset.c (reused vs fresh: return codes, PCM bytes, frame info from state LOADED on),
             harness/c06_isolation.c (solo vs all/sampled interleavings vs reused vs real threads; thorough: TSan)
"""
import hashlib
import os
import re
import shutil
import struct
import sys

import vlib

sys.path.insert(0, os.path.dirname(os.path.dirname(os.path.abspath(__file__))))
import gen_ctx_fields  # noqa: E402
import gen_globals  # noqa: E402

LEVEL = "proof"
MANIFEST = dict(
    category="proof",
    text="Lean 4 theorems (XmpProps.C06) over a model of struct context_data whose field list is generated from the real headers on every "
         "run: C06_history_independent proves for ALL pairs of prior states that agree on the documented persistent settings, ALL loaders/"
         "quirk tables/scans (as functions of explicit read sets) and ALL configurations that load;start yields the same player view "
         "(every live member); C06_restart_independent the same for a second xmp_start_player on the same loaded module after any amount "
         "of playing; C06_loaded_view for the frame information available right after load; C06_reset_complete / C06_fields_classified "
         "that every member a loader may leave untouched has been reset and every generated member is classified; "
         "C06_globals_whitelisted (decide over the objdump-generated list) that the only writable globals are a lazily filled constant "
         "table and a never-written ABI pointer (C06_crc_table_const: the now constant Vorbis CRC table equals the former fill); "
         "C06_idempotent_fill / C06_crc_partial_fill that fills are idempotent; C06_pure (isolation under every interleaving, in the model); "
         "C06_leak_if_unreset (non-vacuity: dropping one reset makes the statement false). The model is tied to the C on every run by a "
         "differential correspondence of each modelled operation over the complete context image (and of the set of members playing may "
         "change), by a per-member poison test (every non-pointer member of the model's LoadResets / StartResets sets, proved sound and "
         "exhaustive in C06_poison_sets, is overwritten with a sentinel on the reused context before load / xmp_start_player and must "
         "come out equal to the fresh context), and the property itself is searched directly on the real library (fresh vs reused vs restarted contexts, enumerated "
         "and sampled interleavings of two contexts, real threads, TSan in the thorough tier).",
    note="Trusted: Lean kernel (propext/Classical.choice/Quot.sound), tools/gen_ctx_fields.py + gen_globals.py, the hand-written model "
         "XmpModel/Reset.lean, harnesses and differ. Modelled-not-verified: what format loaders, module_quirks/libxmp_set_player_mode, the "
         "scan and the allocation initialisers compute (arbitrary functions of their declared read sets: persistent settings for loaders, "
         "the loaded module for the rest; code reading outside its read set escapes the proof and is only caught by the image comparison); "
         "playback itself (xmp_play_frame, effects) is not modelled: that it writes only members outside the set B is checked by the "
         "harness (diff_played), and module-wide state behind m.extra (FAR tempo/vibrato, restored by libxmp_reset_module_extras) is "
         "compared by the harness only; pointees are digests in the harness and single abstract values in the model; members declared "
         "dead (s.pbase, p.buffer_data.in_buffer, m.xxo_info[].start_row) and non-live array entries (xxo_info of unscanned orders, "
         "seq_data beyond num_sequences) keep old data by design; settings that deliberately stay until the next load (XMP_PLAYER_CFLAGS, "
         "XMP_PLAYER_MODE, tempo factor) are not varied inside a restart. Real-thread schedules are outside the model: pthread/TSan runs "
         "are search only. Failure paths of load/start are not modelled (C04). Correspondence is sampled, not exhaustive.",
    technique="Lean 4: agreement-set propagation through the field-update model with `cases` over the generated field enumeration, `decide` "
              "over generated lists + differential correspondence of whole context images + direct interleaving/thread oracle",
    design_ref="DESIGN.md section 4 C06",
)
NS = "Xmp.Reset."
REQUIRED = [NS + n for n in (
    "C06_history_independent", "C06_loaded_view", "C06_reset_complete", "C06_fields_classified", "C06_globals_whitelisted",
    "C06_idempotent_fill", "C06_crc_partial_fill", "C06_pure", "C06_persistent_kept", "C06_leak_if_unreset",
    "C06_restart_independent", "C06_crc_table_const", "C06_poison_sets", "C06_end_smix_created")]

# members the model declares not to be reset / not always live (must mirror Xmp.Reset.Dead / Live; checked by drv output)
MODEL_DEAD = set()       # filled from the driver (`sets`): Xmp.Reset.Dead
MODEL_PARTIAL = set()    # Xmp.Reset.PartialField
MODEL_B = set()          # Xmp.Reset.B: members that must not change while a module is played
MODEL_PERSISTENT = set()     # Xmp.Reset.Persistent: must be equal by construction of the fresh twin
MODEL_LOAD_POISON = set()    # Xmp.Reset.LoadResets (non-pointer): re-initialised by every successful load
MODEL_START_POISON = set()   # Xmp.Reset.StartResets (non-pointer): rewritten by xmp_start_player without being read
# the FAR tempo/vibrato extras behind m.extra are player-run state (restored by libxmp_reset_module_extras);
# the random generator state advances while playing and is pinned by the property's premise (the harness pins it)
RUN_STATE_POINTEES = {"m_extra", "rng_state"}


def load_model_sets(ck):
    if not getattr(ck, "lean_ok", False):
        # model not built (a theorem broke): fall back to the last known classification so that the oracle's
        # messages stay meaningful; the broken build is reported separately
        MODEL_DEAD.update({"s_pbase", "p_buffer_data_in_buffer", "m_xxo_info_start_row"})
        MODEL_PARTIAL.update({"m_xxo_info_speed", "m_xxo_info_bpm", "m_xxo_info_gvl", "m_xxo_info_st26_speed",
                              "m_seq_data_entry_point", "m_seq_data_duration"})
        return
    for l in vlib.run_driver("drv_c06", "sets\n"):
        f = l.split()
        if f and f[0] == "setDead":
            MODEL_DEAD.update(f[1:])
        elif f and f[0] == "setPartial":
            MODEL_PARTIAL.update(f[1:])
        elif f and f[0] == "setB":
            MODEL_B.update(f[1:])
        elif f and f[0] == "setPersistent":
            MODEL_PERSISTENT.update(f[1:])
        elif f and f[0] == "setLoadPoison":
            MODEL_LOAD_POISON.update(f[1:])
        elif f and f[0] == "setStartPoison":
            MODEL_START_POISON.update(f[1:])
    if MODEL_LOAD_POISON or MODEL_START_POISON:
        path = os.path.join(vlib.OUT, "c06-poison-sets.txt")
        open(path, "w").write("".join("load %s\n" % x for x in sorted(MODEL_LOAD_POISON)) +
                              "".join("start %s\n" % x for x in sorted(MODEL_START_POISON)))
        POISON_ENV["C06_POISON"] = path
# opaque pointee (format specific), compared by NULL-ness only
OPAQUE = {"m_extra"}

REPO_DATA = lambda *p: os.path.join(vlib.REPO, "test-dev", "data", *p)  # noqa: E731

# regression witnesses of the four history leaks found while building this check (all repaired in /repo)
REGRESSIONS = [
    ("reset:m.mvol", "mix volume of the previous module (IT, mv=128) applied to a MOD",
     lambda: "case 0 hist %s rate 44100 fmt 0 smix 0 mem 0 rng 12345\nH load 0 0 0 0 %s\nC frames 12 0 0 0\n" % (
         REPO_DATA("ode2ptk.mod"), REPO_DATA("storlek_01.it"))),
    ("reset:p.inject_event", "event injected and never played survives end/release/load/start",
     lambda: "case 0 hist %s rate 44100 fmt 0 smix 0 mem 0 rng 12345\nH load 0 0 0 0 %s\nH start 44100 0 0 0\nH inject 1 60 1 65\n"
             "H end 0 0 0 0\nH release 0 0 0 0\nC frames 12 0 0 0\n" % (REPO_DATA("ode2ptk.mod"), REPO_DATA("ode2ptk.mod"))),
    ("reset:p.sequence@loaded", "xmp_get_frame_info in state LOADED shows (and indexes the scan data with) the previous module's position",
     lambda: "case 0 hist %s rate 44100 fmt 0 smix 0 mem 0 rng 12345\nH load 0 0 0 0 %s\nH start 44100 0 0 0\nH setpos 200 0 0 0\n"
             "H frames 12 0 0 0\nC frames 4 0 0 0\n" % (REPO_DATA("ode2ptk.mod"), REPO_DATA("scan_240_seq.it"))),
    ("reset:far_module_extras", "FAR module-wide tempo/vibrato state changed by effects survives into the next player run",
     lambda: "case 0 hist %s rate 49170 fmt 7 smix 0 mem 0 rng 12345\nPR 49170 7 0\nR frames 60 0 0 0\nC frames 40 0 0 0\n" % (
         REPO_DATA("far_effect9.far"),)),
    ("reset:p.filter", "Amiga LED filter state set by effect E0x survives into the next player run (A500 mixer)",
     lambda: "case 0 hist %s rate 44100 fmt 0 smix 0 mem 0 rng 12345\nH load 0 0 0 0 %s\nH start 44100 0 0 0\nH setplayer 4 8 0 0\n"
             "H release 0 0 0 0\nPR 44100 0 0\nR injectfx 0 14 0 0\nR frames 3 0 0 0\nC frames 30 0 0 0\n" % (
         REPO_DATA("ode2ptk.mod"), REPO_DATA("ode2ptk.mod"))),
    ("reset:smix.chn", "a sound-effect mixer session that was opened and closed still reserves channels for the next player run",
     lambda: "case 0 hist %s rate 44100 fmt 0 smix 0 mem 0 rng 12345\nH smixstart 3 2 0 0\nH smixend 0 0 0 0\n"
             "C smixplay 0 60 40 0\nC frames 12 0 0 0\n" % (REPO_DATA("ode2ptk.mod"),)),
    ("reset:s.ticksize", "frame info buffer_size before the first frame is the previous run's tick size",
     lambda: "case 0 hist %s rate 44100 fmt 0 smix 0 mem 0 rng 12345\nH load 0 0 0 0 %s\nH start 44100 0 0 0\nH frames 12 0 0 0\n"
             "C getinfo 0 0 0 0\nC frames 4 0 0 0\n" % (REPO_DATA("ode2ptk.mod"), os.path.join(vlib.REPO, "test", "test.it"))),
]


def hdr_hash():
    h = hashlib.sha256()
    for f in ("c06_image.h", "c06_script.h", "c06_ctxfields.h"):
        h.update(open(os.path.join(vlib.HARNESS, f), "rb").read())
    return "C06_HDR=0x" + h.hexdigest()[:7]


def build(name, variant="asan"):
    libs = ["-lpthread"] if name == "c06_isolation" else None
    return vlib.build_harness(name, [name + ".c"], variant=variant, defines=[hdr_hash()], libs=libs)


MODULE_EXT = re.compile(r"\.(mod|xm|it|s3m|stm|mtm|669|far|ult|okt|med|mmd[0-3]|imf|liq|ptm|psm|dsm|amf|gdm|mdl|dbm|digi|sfx|"
                        r"stk|m15|flx|dt|dtm|rtm|mgt|arch|sym|emod|ice|st26|j2b|umx|abk|hmn|chn|stim|coco|gmc|fnk|nt|xmf|masi|mus|c67)$", re.I)


def openmpt_files():
    """the behaviour-test modules of test-dev/openmpt (sample swaps, filters, envelopes, ...)"""
    base = os.path.join(vlib.REPO, "test-dev", "openmpt")
    out = []
    for root, dirs, files in os.walk(base):
        dirs.sort()
        for f in sorted(files):
            if MODULE_EXT.search(f) and " " not in f:
                out.append(os.path.join(root, f))
    return out


def pick_modules(ck, n):
    # test-dev/data/f holds malformed files (loader regression inputs): they mostly fail to load
    files = [f for f in vlib.corpus_files() if os.path.getsize(f) < 300000 and MODULE_EXT.search(f) and "/data/f/" not in f
             and " " not in f]        # the replay text format is whitespace separated
    must = [REPO_DATA("storlek_01.it"), REPO_DATA("ode2ptk.mod"), REPO_DATA("scan_240_seq.it"), REPO_DATA("pattern_loop_liq.liq"),
            REPO_DATA("far_effect9.far"), REPO_DATA("far_effectF.far"), REPO_DATA("beep.oxm"),
            os.path.join(vlib.REPO, "test", "test.xm"), os.path.join(vlib.REPO, "test", "test.it")]
    must = [f for f in must if os.path.exists(f)]
    rest = [f for f in files if f not in must]
    ompt = [f for f in openmpt_files() if os.path.getsize(f) < 300000]
    ck.rng.shuffle(rest)
    ck.rng.shuffle(ompt)
    k = max(0, n - len(must))
    return must + rest[:k // 2] + ompt[:k - k // 2]


def split_cases(text):
    cases, cur = [], None
    for line in text.splitlines():
        if line.startswith("case "):
            cur = {"head": line, "lines": [line]}
            cases.append(cur)
        elif cur is not None:
            cur["lines"].append(line)
    return cases


def replay_text_hist(case):
    return "\n".join(l for l in case["lines"] if l.startswith(("case ", "H ", "C ", "PR ", "R ", "PO "))) + "\n"


def replay_text_iso(case, order=None, nthreads=0):
    t = "\n".join(l for l in case["lines"] if l.startswith(("case ", "X ", "Y ", "H "))) + "\n"
    if order:
        t += "order %s\n" % order
    t += "nthreads %d\n" % nthreads
    return t


def path_of(ctor, leaves):
    for l in leaves:
        if gen_ctx_fields.ctor(l["path"]) == ctor:
            return l["path"]
    return ctor


POISON_ENV = {}           # {"C06_POISON": path} once the model's poison sets are known


def run_shard(args):
    exe, argv = args
    rc, out, err = vlib.run_exe(exe, argv, timeout=3000, env=POISON_ENV or None)
    return rc, out.decode("latin-1"), err


def judge_hist(ck, c, leaves, st, dead_seen, hist_states, played_seen, kind="hist"):
    st["hist_cases"] += 1
    lines = c["lines"]
    if any(l.startswith("skip ") for l in lines):
        st["load_failed"] += 1
    fails = [l for l in lines if l.startswith("oracle_fail")]
    diffs = [l.split() for l in lines if l.startswith(("diff_start ", "diff_end "))]
    stat = [l.split() for l in lines if l.startswith("stat ")]
    hs = [l.split() for l in lines if l.startswith("hist_state ")]
    if hs:
        hist_states[hs[0][1]] = hist_states.get(hs[0][1], 0) + 1
    frames = int(stat[0][2]) if stat else 0
    nonzero = int(stat[0][6]) if stat else 0
    st["frames"] += frames
    if nonzero > 0:
        st["nonsilent_cases"] += 1
    if any(l.startswith("prerun ") for l in lines):
        st["restart_cases"] += 1
    compared = any(l.startswith("image_start") for l in lines)
    if compared:
        st["hist_compared"] += 1
        st["image_leaves_compared"] += 2 * len(leaves)
    key = vlib.hashlib.sha256(replay_text_hist(c).encode()).hexdigest()[:16]
    pre = [l.split() for l in lines if l.startswith("prerun ")]
    played_before = (hs and int(hs[0][3]) > 0) or (pre and int(pre[0][2]) > 0)
    ck.count(kind + ":" + key, nontrivial=bool(compared and frames > 0 and played_before))
    ck.sample({"case": c["head"], "history_ops": sum(1 for l in lines if l.startswith("H ")),
               "frames": frames, "dead_members_differing": sorted({d[1] for d in diffs})}, limit=4)
    unexpected = [d for d in diffs if d[1] not in MODEL_DEAD and d[1] not in MODEL_PARTIAL]
    played = [l.split() for l in lines if l.startswith("diff_played ")]
    for d in played:
        played_seen[d[1]] = played_seen.get(d[1], 0) + 1
    unexpected += [d for d in played if d[1] in MODEL_B and d[1] not in RUN_STATE_POINTEES]
    # right after the load: every member the model says a load re-initialises agrees (poisoned or not)
    unexpected += [l.split() for l in lines if l.startswith("diff_loaded ") and l.split()[1] in MODEL_LOAD_POISON]
    if any(l.startswith("poison load") for l in lines):
        st["poisoned_cases"] = st.get("poisoned_cases", 0) + 1
    for d in diffs:
        dead_seen[d[1]] = dead_seen.get(d[1], 0) + 1
    # name the leaking member by a scalar the model says is reset, rather than by a pointee digest that follows from it
    unexpected.sort(key=lambda d: 0 if d[1] in MODEL_PERSISTENT and d[1] != "rng_state" else
                    1 if d[1] in MODEL_LOAD_POISON or d[1] in MODEL_START_POISON else 2)
    if fails:
        field = path_of(unexpected[0][1], leaves) if unexpected else None
        if field == "m.extra":
            field = "far_module_extras"     # the only canonicalised module extras (FAR tempo / vibrato state)
        sig = "reset:" + field if field else "oracle:" + fails[0].split()[1] + ":" + os.path.basename(c["head"].split()[3])
        ck.violation(sig, {"how": "write `script` to a file and run: c06_reset --replay <file>", "harness": "c06_reset",
                           "script": replay_text_hist(c), "oracle": fails[:4], "image_diffs": [" ".join(d) for d in diffs[:8]]},
                     "a context with a prior history renders differently from a fresh one: %s%s" % (
                         fails[0], (" ; member not reset: " + field) if field else ""))
    elif unexpected:
        d = unexpected[0]
        ck.unproved("correspondence Reset.load/startPlayer reset set vs the real context image",
                    "case %s: %s: member %s differs between the reused and the fresh context "
                    "(index %s: fresh %s reused %s) but the model says it is %s; replay script:\n%s" % (
                        c["head"], d[0], path_of(d[1], leaves), d[2], d[3], d[4],
                        "not changed by playing (set B)" if d[0] == "diff_played" else
                        "re-initialised by load (LoadResets)" if d[0] == "diff_loaded" else "reset", replay_text_hist(c)))
    elif compared:
        ck.cov["traces_validated_against_impl"] += 1


def check_reset(ck, exe, mods, fields, ncases, maxhist, nshards):
    leaves = fields["ctx"]
    shards = [(exe, [str(ck.seed * 104729 + i), str(ncases), str(maxhist)] + mods) for i in range(nshards)]
    results = vlib.pmap(run_shard, shards)
    st = {"hist_cases": 0, "hist_compared": 0, "op_cases": 0, "op_compared": 0, "op_skipped": 0, "load_failed": 0, "frames": 0,
          "restart_cases": 0, "image_leaves_compared": 0, "model_values_compared": 0, "model_values_external": 0, "nonsilent_cases": 0}
    opkinds, dead_seen, hist_states, played_seen = {}, {}, {}, {}
    for (rc, out, err), sh in zip(results, shards):
        if rc != 0:
            sig = vlib.sanitizer_signature(err)
            last = [c for c in split_cases(out)][-1:] if out else []
            ck.violation("harness-abort:" + sig,
                         {"harness": "c06_reset", "argv": sh[1][:3], "modules": sh[1][3:], "stderr": err[-3000:],
                          "script": replay_text_hist(last[0]) if last and " hist " in last[0]["head"] else None},
                         "c06_reset aborted (rc=%d): %s" % (rc, sig))
            continue
        cases = split_cases(out)
        ops = [c for c in cases if " op " in c["head"]]
        # ---- op correspondence: model vs real image ----
        model = {}
        if ops and getattr(ck, "lean_ok", False):
            lines = vlib.run_driver("drv_c06", "\n".join("\n".join(c["lines"]) for c in ops) + "\n")
            cur = None
            for l in lines:
                f = l.split(" ")
                if f[0] == "begin":
                    cur = model.setdefault(f[1], {})
                elif f[0] == "model" and cur is not None:
                    cur[f[1]] = f[2:]
        for c in ops:
            h = c["head"].split()
            cid, opname = h[1], h[3]
            st["op_cases"] += 1
            ext = dict((l.split()[1], l.split()[2:]) for l in c["lines"] if l.startswith("ext "))
            post = dict((l.split()[1], l.split()[2:]) for l in c["lines"] if l.startswith("post "))
            if any(l.startswith("skip ") for l in c["lines"]) or "noop" in ext or not post:
                st["op_skipped"] += 1
                continue
            if ("ret" in ext and ext["ret"][0] != "0") or ("smixret" in ext and ext["smixret"][0] != "0"):
                st["op_skipped"] += 1      # failure paths are not modelled (C04)
                continue
            m = model.get(cid)
            if m is None:
                continue
            opkinds[opname] = opkinds.get(opname, 0) + 1
            st["op_compared"] += 1
            ck.count("op:" + vlib.hashlib.sha256("\n".join(c["lines"]).encode()).hexdigest()[:16], nontrivial=True)
            bad = None
            for ctor, mv in m.items():
                pv = post.get(ctor)
                if pv is None:
                    bad = (ctor, "missing in real image", "")
                    break
                for k, (a, b) in enumerate(zip(mv, pv)):
                    if a == "?":
                        st["model_values_external"] += 1
                        continue
                    st["model_values_compared"] += 1
                    if a != b:
                        bad = (ctor, "index %d model %s real %s" % (k, a, b), k)
                        break
                if bad:
                    break
            if bad:
                ck.unproved("correspondence Reset.%s vs the C operation" % opname,
                            "case %s: member %s: %s" % (c["head"], path_of(bad[0], leaves), bad[1]))
            else:
                ck.cov["traces_validated_against_impl"] += 1
        for c in cases:
            if " hist " in c["head"]:
                judge_hist(ck, c, leaves, st, dead_seen, hist_states, played_seen)
    for k, v in st.items():
        ck.note("reset_" + k, v)
    ck.note("reset_op_kinds", opkinds)
    ck.note("reset_unreset_members_seen_differing", dead_seen)
    ck.note("reset_history_end_states", hist_states)
    ck.note("reset_members_changed_by_playing", played_seen)


def check_restart_sweep(ck, exe, mods, fields, configs):
    """Systematic part of the reuse oracle: for EVERY module of the pool, a second player run on the same
    loaded module (after playing k frames at another rate/format) must equal the first run of a fresh context:
    whole image, members changed by playing, frame info and PCM."""
    leaves = fields["ctx"]
    jobs = []
    for m in mods:
        for (pr, k, rate, fmt) in configs:
            jobs.append("case 0 hist %s rate %d fmt %d smix 0 mem 0 rng 12345\nPR %s\nR frames %d 0 0 0\nC frames 100 0 0 0\n" % (
                m, rate, fmt, pr, k))

    def one(text):
        path = os.path.join(vlib.OUT, "c06-sweep-%s.txt" % vlib.hashlib.sha256(text.encode()).hexdigest()[:12])
        open(path, "w").write(text)
        rc, out, err = vlib.run_exe(exe, ["--replay", path], timeout=600, env=POISON_ENV or None)
        try:
            os.unlink(path)
        except OSError:
            pass
        return text, rc, out.decode("latin-1"), err
    st = {"hist_cases": 0, "hist_compared": 0, "load_failed": 0, "frames": 0, "image_leaves_compared": 0, "nonsilent_cases": 0,
          "restart_cases": 0}
    dead_seen, hist_states, played_seen = {}, {}, {}
    for text, rc, out, err in vlib.pmap(one, jobs):
        if rc == 2:
            raise vlib.InfraError("c06_reset --replay rejected a sweep script:\n%s\n%s" % (text, err[-500:]))
        if rc != 0 and "REPLAY:" not in out:
            sig = vlib.sanitizer_signature(err)
            ck.violation("harness-abort:" + sig, {"harness": "c06_reset", "script": text, "stderr": err[-3000:]},
                         "c06_reset aborted in the restart sweep (rc=%d): %s" % (rc, sig))
            continue
        for c in split_cases(out):
            judge_hist(ck, c, leaves, st, dead_seen, hist_states, played_seen, kind="sweep")
    for k, v in st.items():
        ck.note("sweep_" + k, v)
    ck.note("sweep_members_changed_by_playing", sorted(played_seen))


def _pt_header(title, magic, orders, ice=False):
    """31-instrument Protracker-style header (also the Soundtracker 2.6 / Ice Tracker layout when `ice`)"""
    h = bytearray(title.encode().ljust(20, b"\0"))
    for i in range(31):
        if i == 0:      # one looped 1024-byte sample, volume 64
            h += b"synth".ljust(22, b"\0") + struct.pack(">HBBHH", 512, 0, 64, 0, 512)
        else:
            h += b"".ljust(22, b"\0") + struct.pack(">HBBHH", 0, 0, 0, 0, 1)
    return h


def _pt_event(period, ins, fxt, fxp):
    return bytes([(ins & 0xf0) | (period >> 8), period & 0xff, ((ins & 0x0f) << 4) | fxt, fxp])


def _sample_bytes():
    return bytes((64 if (i // 16) % 2 else 192) for i in range(1024))      # square wave, signed 8 bit


def synth_modules():
    """Small synthetic modules that SET members no corpus module sets (so that histories can leak them):
    mk_high_fxx.mod   M.K. with a lone F20 -> the MOD loader leaves m.compare_vblank = 1 (CIA/VBlank undecided)
    st26_speed.mod    Soundtracker 2.6 (`MTN\\0`) with F36 -> alternating two-nibble speed in p.st26_speed
    flt4_long.mod     Startrekker FLT4, 20 orders of F20/F06 rows: >= 8 min under CIA timing, much shorter under VBlank
                      (what a leaked compare_vblank changes)"""
    d = os.path.join(vlib.OUT, "c06-synth")
    os.makedirs(d, exist_ok=True)
    out = []

    def pattern(rows):          # rows: {row: [4 events]}
        b = bytearray()
        for r in range(64):
            evs = rows.get(r, [])
            for c in range(4):
                b += evs[c] if c < len(evs) else bytes(4)
        return bytes(b)
    note = lambda fxt=0, fxp=0: _pt_event(428, 1, fxt, fxp)  # noqa: E731
    # M.K., one order, F20 on row 0 only
    h = _pt_header("c06 mk high fxx", b"M.K.", [0])
    h += bytes([1, 0x7f]) + bytes([0] * 128) + b"M.K."
    rows = {0: [note(0xf, 0x20)], 8: [note()], 16: [note()], 24: [note()]}
    p = os.path.join(d, "mk_high_fxx.mod")
    open(p, "wb").write(bytes(h) + pattern(rows) + _sample_bytes())
    out.append(p)
    # FLT4, 20 orders of the same pattern: F20 on row 0, F06 on row 1
    h = _pt_header("c06 flt4 long", b"FLT4", [0] * 20)
    h += bytes([20, 0x7f]) + bytes([0] * 128) + b"FLT4"
    rows = {0: [note(0xf, 0x20)], 1: [note(0xf, 0x06)], 9: [note()], 17: [note()], 33: [note()]}
    p = os.path.join(d, "flt4_long.mod")
    open(p, "wb").write(bytes(h) + pattern(rows) + _sample_bytes())
    out.append(p)
    # Soundtracker 2.6: len, ntracks, 128 x 4 track numbers, magic, tracks of 64 x 4 bytes
    h = _pt_header("c06 st26 speed", b"MTN\0", None, ice=True)
    ords = bytearray(512)
    ords[0:4] = bytes([0, 1, 1, 1])
    ords[4:8] = bytes([2, 1, 1, 1])
    h += bytes([2, 3]) + bytes(ords) + b"MTN\0"
    trk0 = bytearray(256)
    trk0[0:4] = note(0xf, 0x36)
    for r in (8, 16, 24, 40):
        trk0[4 * r:4 * r + 4] = note()
    trk2 = bytearray(256)
    for r in (0, 8, 16, 32):
        trk2[4 * r:4 * r + 4] = note()
    p = os.path.join(d, "st26_speed.mod")
    open(p, "wb").write(bytes(h) + bytes(trk0) + bytes(256) + bytes(trk2) + _sample_bytes())
    out.append(p)
    return out


def smix_wav():
    """a small 8 bit mono PCM WAV for xmp_smix_load_sample (path handed to the harnesses in $C06_SMIX_WAV)"""
    d = os.path.join(vlib.OUT, "c06-synth")
    os.makedirs(d, exist_ok=True)
    data = bytes((200 if (i // 8) % 2 else 56) for i in range(512))
    hdr = b"RIFF" + struct.pack("<I", 36 + len(data)) + b"WAVEfmt " + struct.pack("<IHHIIHH", 16, 1, 1, 11025, 11025, 1, 8) + \
        b"data" + struct.pack("<I", len(data))
    p = os.path.join(d, "smix.wav")
    open(p, "wb").write(hdr + data)
    return p


def regression_inputs():
    """Damaged inputs kept as regression witnesses of repaired defects (heap-fill pass).
    no_playable_order.it: storlek_06.it with bytes 192, 302 changed -> no playable order (len 0); scan_module left
    p.scan[0].num/.row/.ord uninitialised (signature uninit-heap:p.scan, repaired)."""
    d = os.path.join(vlib.OUT, "c06-synth")
    os.makedirs(d, exist_ok=True)
    out = []
    src = REPO_DATA("storlek_06.it")
    if os.path.exists(src):
        b = bytearray(open(src, "rb").read())
        if len(b) > 302:
            b[192], b[302] = 97, 33
            p = os.path.join(d, "no_playable_order.it")
            open(p, "wb").write(bytes(b))
            out.append(p)
    return out


def check_feature_matrix(ck, exe, fields, setters, targets):
    """setter module x target module: the setter is loaded and played on the reused context, then the target is
    loaded and started on it and on a fresh context (no poisoning): members only special modules set must not leak."""
    leaves = fields["ctx"]
    jobs = []
    for s_ in setters:
        for t in targets:
            for rel in (0, 1):
                jobs.append("case 0 hist %s rate 44100 fmt 0 smix 0 mem 0 rng 12345\nH load 0 0 0 0 %s\nH start 22050 0 0 0\n"
                            "H frames 40 0 0 0\n%sC getinfo 0 0 0 0\nC frames 60 0 0 0\n" % (
                                t, s_, "H release 0 0 0 0\n" if rel else ""))
        # and a second player run of the setter itself
        jobs.append("case 0 hist %s rate 44100 fmt 0 smix 0 mem 0 rng 12345\nPR 22050 0 1\nR frames 40 0 0 0\n"
                    "C getinfo 0 0 0 0\nC frames 60 0 0 0\n" % s_)

    def one(text):
        path = os.path.join(vlib.OUT, "c06-feat-%s.txt" % vlib.hashlib.sha256(text.encode()).hexdigest()[:12])
        open(path, "w").write(text)
        rc, out, err = vlib.run_exe(exe, ["--replay", path], timeout=600)
        try:
            os.unlink(path)
        except OSError:
            pass
        return text, rc, out.decode("latin-1"), err
    st = {"hist_cases": 0, "hist_compared": 0, "load_failed": 0, "frames": 0, "image_leaves_compared": 0, "nonsilent_cases": 0,
          "restart_cases": 0}
    dead_seen, hist_states, played_seen = {}, {}, {}
    for text, rc, out, err in vlib.pmap(one, jobs):
        if rc == 2:
            raise vlib.InfraError("c06_reset --replay rejected a feature script:\n%s\n%s" % (text, err[-500:]))
        if rc != 0 and "REPLAY:" not in out:
            sig = vlib.sanitizer_signature(err)
            ck.violation("harness-abort:" + sig, {"harness": "c06_reset", "script": text, "stderr": err[-3000:]},
                         "c06_reset aborted in the setter x target matrix (rc=%d): %s" % (rc, sig))
            continue
        for c in split_cases(out):
            judge_hist(ck, c, leaves, st, dead_seen, hist_states, played_seen, kind="feature")
    for k, v in st.items():
        ck.note("feature_" + k, v)


def it_has_compressed_samples(path):
    """IT module with at least one sample stored with IT214/215 compression (sample flag 0x08)"""
    try:
        d = open(path, "rb").read()
        if d[:4] != b"IMPM":
            return False
        ordn, insn, smpn = struct.unpack("<3H", d[0x20:0x26])
        off = 0xc0 + ordn + insn * 4
        for i in range(smpn):
            so = struct.unpack("<I", d[off + 4 * i:off + 4 * i + 4])[0]
            if d[so:so + 4] == b"IMPS" and d[so + 0x12] & 8 and d[so + 0x12] & 1:
                return True
    except (OSError, struct.error, IndexError):
        pass
    return False


def damaged_variants(ck, mods, nbase, per):
    """Damaged copies of pool modules (truncated inside the sample/pattern data, a few bytes corrupted), written to
    out/c06-damaged; modules with compressed samples first (their decoders consume an explicit bit stream)."""
    ddir = os.path.join(vlib.OUT, "c06-damaged")
    shutil.rmtree(ddir, ignore_errors=True)
    os.makedirs(ddir, exist_ok=True)
    cand = [f for f in mods if 300 < os.path.getsize(f) < 200000]
    packed = [f for f in cand if it_has_compressed_samples(f)]
    extra = [f for f in openmpt_files() + vlib.corpus_files()
             if f not in cand and f.lower().endswith(".it") and " " not in f and "/data/f/" not in f
             and 300 < os.path.getsize(f) < 200000 and it_has_compressed_samples(f)]
    ck.rng.shuffle(extra)
    rest = [f for f in cand if f not in packed]
    ck.rng.shuffle(rest)
    base = (packed + extra)[:max(1, (2 * nbase) // 3)]
    base += rest[:nbase - len(base)]
    out = []
    for f in base:
        d = open(f, "rb").read()
        stem, ext = os.path.splitext(os.path.basename(f))
        for k in range(per):
            b = bytearray(d)
            if k % 2 == 0:
                cut = ck.rng.randrange(int(len(b) * 0.35), len(b) - 1)
                b = b[:cut]
                name = "%s.t%d%s" % (stem, cut, ext)
            else:
                pos = []
                for _ in range(ck.rng.randrange(1, 4)):
                    q = ck.rng.randrange(int(len(b) * 0.3), len(b))
                    b[q] = ck.rng.randrange(256)
                    pos.append(q)
                name = "%s.c%s%s" % (stem, "_".join(str(q) for q in pos), ext)
            path = os.path.join(ddir, name)
            open(path, "wb").write(bytes(b))
            out.append(path)
    ck.note("damaged_base_modules", len(base))
    ck.note("damaged_base_with_compressed_samples", sum(1 for f in base if it_has_compressed_samples(f)))
    return out


HEAP_FILLS = (0, 165)
LEAVES = []               # generated leaf list (set in run / replay)


def check_heapfill(ck, exe, mods):
    """Every module (intact and damaged) is loaded, rendered, released and loaded again in two processes whose
    allocator fills fresh memory differently: what the context holds and renders must not depend on it."""
    def one(m):
        res = []
        for fill in HEAP_FILLS:
            env = {"ASAN_OPTIONS": "detect_leaks=0:abort_on_error=0:allocator_may_return_null=1:"
                                   "max_malloc_fill_size=268435456:malloc_fill_byte=%d" % fill}
            rc, out, err = vlib.run_exe(exe, ["--digest", m], timeout=300, env=env)
            res.append((rc, out.decode("latin-1"), err))
        return m, res
    st = {"modules": 0, "loaded": 0, "rendered_frames": 0, "aborted": 0}
    good = []
    for m, res in vlib.pmap(one, mods):
        st["modules"] += 1
        if any(rc != 0 for rc, _, _ in res):
            rc, out, err = [r for r in res if r[0] != 0][0]
            sig = vlib.sanitizer_signature(err)
            st["aborted"] += 1
            ck.violation("harness-abort:" + sig, {"harness": "c06_reset", "digest": [m], "stderr": err[-3000:]},
                         "c06_reset --digest aborted on %s (rc=%d): %s" % (os.path.basename(m), rc, sig))
            continue
        a, b = res[0][1].splitlines(), res[1][1].splitlines()
        digs = [l.split() for l in a if l.startswith("dig ")]
        
        if any(d[3] == "0" for d in digs):
            st["loaded"] += 1
        st["rendered_frames"] += sum(int(d[7]) for d in digs)
        ck.count("heapfill:" + vlib.hashlib.sha256(open(m, "rb").read()).hexdigest()[:16],
                 nontrivial=any(d[3] == "0" and int(d[7]) > 0 for d in digs))
        if a != b:
            bad = [(x, y) for x, y in zip(a, b) if x != y and x.startswith("dig ")][:2] or \
                  [(x, y) for x, y in zip(a, b) if x != y][:2]
            members = []
            for x, y in zip(a, b):
                if x.startswith("digm ") and x != y:
                    members += [u.split("=")[0] for u, v in zip(x.split()[2:], y.split()[2:]) if u != v]
            member = path_of(members[0], LEAVES) if members else "output"
            ck.violation("uninit-heap:%s:%s" % (member, os.path.basename(m)),
                         {"harness": "c06_reset", "digest": [m], "fills": list(HEAP_FILLS),
                          "module_hex": open(m, "rb").read().hex() if os.path.getsize(m) < 250000 else None,
                          "lines": [list(x) for x in bad]},
                         "what a context holds/renders depends on uninitialised heap contents "
                         "(malloc fill %d vs %d): %s | %s" % (HEAP_FILLS[0], HEAP_FILLS[1], bad[0][0][:150], bad[0][1][:150]))
        elif any(d[3] == "0" for d in digs):
            good.append(m)
            ck.cov["traces_validated_against_impl"] += 1
    for k, v in st.items():
        ck.note("heapfill_" + k, v)
    return good


def check_regressions(ck, exe):
    n = 0
    for sig, what, mk in REGRESSIONS:
        text = mk()
        paths = re.findall(r"(/\S+)", text)
        if not all(os.path.exists(p) for p in paths):
            continue
        path = os.path.join(vlib.OUT, "c06-regress-%d.txt" % n)
        open(path, "w").write(text)
        n += 1
        rc, out, err = vlib.run_exe(exe, ["--replay", path], timeout=300, env=POISON_ENV or None)
        o = out.decode("latin-1")
        if rc != 0 and "REPLAY:" not in o:
            ck.violation(sig, {"harness": "c06_reset", "script": text, "stderr": err[-2000:]},
                         "regression witness aborts (%s): %s" % (vlib.sanitizer_signature(err), what))
        elif rc != 0:
            ck.violation(sig, {"harness": "c06_reset", "script": text, "oracle": [l for l in o.splitlines() if l.startswith("oracle_fail")][:4]},
                         "regression witness fails again: " + what)
        ck.count("regress:" + sig, nontrivial=True)
    ck.note("regression_witnesses_run", n)


def check_isolation(ck, exe, mods, ncases, maxenum, nthreads, nshards, variant="asan"):
    shards = [(exe, [str(ck.seed * 7561 + i), str(ncases), str(maxenum), str(nthreads)] + mods) for i in range(nshards)]
    results = vlib.pmap(run_shard, shards, workers=max(2, vlib.NCPU // max(1, nthreads)))
    st = {"cases": 0, "interleavings_enumerated": 0, "interleavings_sampled": 0, "cases_fully_enumerated": 0, "thread_rounds": 0,
          "frames": 0, "silent_cases": 0}
    for (rc, out, err), sh in zip(results, shards):
        cases = split_cases(out)
        if "ThreadSanitizer" in err:
            # TSan reports do not stop the run (exit code 66 at the end): one violation per racing libxmp function
            for blk in re.split(r"(?=WARNING: ThreadSanitizer)", err):
                m = re.match(r"WARNING: ThreadSanitizer: ([\w -]+?) \(pid", blk)
                if not m:
                    continue
                kind = m.group(1).strip().replace(" ", "-")
                fr = re.findall(r"#\d+ (\w+) (\S+?):\d+", blk)
                fn = [f for f, path in fr if "/src/" in path and "/harness/" not in path]
                st["tsan_reports"] = st.get("tsan_reports", 0) + 1
                ck.violation("tsan:%s@%s" % (kind, fn[0] if fn else "?"),
                             {"harness": "c06_isolation", "variant": variant, "argv": sh[1][:4], "modules": sh[1][4:],
                              "report": blk[:3500]},
                             "ThreadSanitizer: %s in %s while other threads drive other contexts" % (kind, fn[0] if fn else "?"))
        elif rc != 0:
            sig = vlib.sanitizer_signature(err)
            ck.violation("harness-abort:" + sig,
                         {"harness": "c06_isolation", "variant": variant, "argv": sh[1][:4], "modules": sh[1][4:], "stderr": err[-4000:],
                          "script": replay_text_iso(cases[-1], None, nthreads) if cases else None},
                         "c06_isolation (%s) aborted (rc=%d): %s" % (variant, rc, sig))
            continue
        for c in cases:
            st["cases"] += 1
            lines = c["lines"]
            solo = [l.split() for l in lines if l.startswith("solo ")]
            frames = int(solo[0][3]) if solo else 0
            nonzero = int(solo[0][7]) if solo else 0
            st["frames"] += frames
            if nonzero == 0:
                st["silent_cases"] += 1
            for l in lines:
                f = l.split()
                if f[0] == "interleavings":
                    st["interleavings_" + f[1]] += int(f[2])
                    if f[1] == "enumerated":
                        st["cases_fully_enumerated"] += 1
                elif f[0] == "threads":
                    st["thread_rounds"] += int(f[3])
            key = vlib.hashlib.sha256(replay_text_iso(c).encode()).hexdigest()[:16]
            ck.count("iso:%s:%s" % (variant, key), nontrivial=frames > 0 and nonzero > 0)
            fails = [l.split() for l in lines if l.startswith("fail ")]
            if fails:
                f = fails[0]
                order = f[2] if f[1] == "interleave" else None
                tmod = [l for l in lines if l.startswith("X load")]
                name = os.path.basename(tmod[0].split()[-1]) if tmod else "?"
                ck.violation("isolation:%s:%s" % (f[1], name),
                             {"how": "write `script` to a file and run: c06_isolation --replay <file>", "harness": "c06_isolation",
                              "variant": variant, "script": replay_text_iso(c, order, nthreads if f[1].startswith("threads") else 0),
                              "fail": [" ".join(x) for x in fails[:4]]},
                             "output of a context differs from its solo run (%s): %s" % (f[1], " ".join(f)))
            else:
                ck.cov["traces_validated_against_impl"] += 1
            ck.sample({"iso_case": c["head"], "solo": " ".join(solo[0][:8]) if solo else None}, limit=6)
    for k, v in st.items():
        ck.note("iso_%s_%s" % (variant, k), v)


def sweep_mods_all(mods):
    seen, uniq = set(), []
    for f in mods:
        if f not in seen:
            seen.add(f)
            uniq.append(f)
    return uniq + [f for f in openmpt_files() if f not in seen and os.path.getsize(f) < 300000]


def run(ck):
    quick = ck.tier == "quick"
    fields = gen_ctx_fields.generate()
    globs = gen_globals.generate()
    ck.note("context_data_leaves", len(fields["ctx"]))
    LEAVES[:] = fields["ctx"]
    ck.note("writable_globals", ["%s:%s" % (g["file"], g["name"]) for g in globs["globals"]])
    ck.proofs(["XmpProps.C06"], required=REQUIRED, drivers=["drv_c06"])

    load_model_sets(ck)
    POISON_ENV["C06_SMIX_WAV"] = smix_wav()
    synth = synth_modules()
    mods = synth + synth + pick_modules(ck, 56 if quick else 220)      # synthetic setters weigh double in random picks
    ck.note("modules", len(mods))
    ex_reset = build("c06_reset")
    ex_iso = build("c06_isolation")
    check_regressions(ck, ex_reset)
    tg = [f for f in mods if f not in synth]
    check_feature_matrix(ck, ex_reset, fields, synth, synth + tg[:6 if quick else 30])
    # damaged inputs + allocator-content independence; damaged files that load cleanly also join the pool below
    damaged = damaged_variants(ck, mods, 24 if quick else 90, 3 if quick else 6)
    ck.note("damaged_variants", len(damaged))
    usable = check_heapfill(ck, ex_reset, sweep_mods_all(mods) + regression_inputs() + damaged)
    dmg_ok = [f for f in damaged if f in usable]
    ck.rng.shuffle(dmg_ok)
    mods = mods + dmg_ok[:12 if quick else 60]
    ck.note("damaged_in_pool", min(len(dmg_ok), 12 if quick else 60))
    sweep_mods = sweep_mods_all(mods)
    ck.note("sweep_modules", len(sweep_mods))
    check_restart_sweep(ck, ex_reset, sweep_mods, fields,
                        [("22050 4 0", 150, 44100, 0)] if quick else
                        [("22050 4 0", 150, 44100, 0), ("44100 0 1", 400, 44100, 0), ("48000 2 0", 60, 11025, 5)])
    check_reset(ck, ex_reset, mods, fields, 24 if quick else 260, 14 if quick else 24, 16)
    check_isolation(ck, ex_iso, mods, 5 if quick else 50, 260 if quick else 1000, 3, 16)
    if not quick:
        ex_tsan = build("c06_isolation", "tsan")
        check_isolation(ck, ex_tsan, mods, 12, 40, 4, 8, variant="tsan")
    ck.cov["rule"] = ("cases generated from VERIF_SEED: (a) op = one modelled operation on a context with a random API history, complete "
                      "image before/after vs the model; (b) hist = module x rate x format x random prior history (load/start/play/control/"
                      "release cycles) x control script, reused vs fresh context: whole image + every return code/PCM byte/frame info; "
                      "(c) iso = two call scripts on two contexts: solo vs interleavings vs reused vs threads; (d) heapfill = every pool "
                      "module, intact and damaged (truncated / corrupted copies), loaded+rendered+released+reloaded in two processes "
                      "with different malloc fill bytes; (e) sweep = second player run on every module. Distinct by hash of the "
                      "case text / file; non-trivial = (a) always, (b,e) the history or earlier run actually played frames and the target "
                      "played frames, (c) the observed context produced non-silent PCM, (d) the module loaded and rendered frames")
    ck.assumptions += [
        "format loaders read, besides the input bytes, only the persistent settings (smpctl, defpan, instrument path, ...) and members "
        "libxmp_load_prologue has reset; quirk code, the scan and xmp_start_player read only the loaded module and persistent settings",
        "the scan visits the first playable order and records a non-zero speed for it (hypotheses of C06_history_independent; "
        "checked on every correspondence case by the image comparison)",
        "malloc/calloc results are compared by pointee, never by address; calloc returns zeroed memory",
        "thread schedules: only those the OS happened to produce during the pthread runs (TSan in the thorough tier)",
    ]


def replay(ck, rp):
    ck.lean_ok = os.path.exists(vlib.lean_driver("drv_c06"))
    load_model_sets(ck)
    POISON_ENV["C06_SMIX_WAV"] = smix_wav()
    r = rp["replay"]
    if isinstance(r, list):
        print("unproved obligations / correspondences recorded:")
        for u in r:
            print(" -", u.get("name"), ":", u.get("detail", "")[:1500])
        return 1
    hname = r.get("harness", "c06_reset")
    variant = r.get("variant", "asan")
    exe = build(hname, variant)
    if r.get("digest"):
        m = r["digest"][0]
        if not os.path.exists(m) and r.get("module_hex"):
            os.makedirs(os.path.dirname(m), exist_ok=True)
            open(m, "wb").write(bytes.fromhex(r["module_hex"]))
        outs = []
        for fill in r.get("fills", HEAP_FILLS):
            env = {"ASAN_OPTIONS": "detect_leaks=0:abort_on_error=0:allocator_may_return_null=1:"
                                   "max_malloc_fill_size=268435456:malloc_fill_byte=%d" % fill}
            rc, out, err = vlib.run_exe(exe, ["--digest", m], timeout=300, env=env)
            print("malloc_fill_byte=%d rc=%d\n%s%s" % (fill, rc, out.decode("latin-1"), err[-1500:]))
            outs.append((rc, out))
        bad = any(rc != 0 for rc, _ in outs) or len({o for _, o in outs}) > 1
        if bad:
            print("VIOLATION property=C06 replay=%s signature=%s" % (m, rp.get("signature", "?")))
        return 1 if bad else 0
    script = r.get("script")
    path = "(argv) " + " ".join(str(x) for x in r.get("argv", []))
    if not script:
        argv = [str(x) for x in r.get("argv", [])] + list(r.get("modules", []))
        rc, out, err = vlib.run_exe(exe, argv, timeout=3000)
    else:
        path = os.path.join(vlib.OUT, "c06-replay-script.txt")
        open(path, "w").write(script)
        rc, out, err = vlib.run_exe(exe, ["--replay", path], timeout=3000, env=POISON_ENV or None)
    o = out.decode("latin-1")
    print("\n".join(l for l in o.splitlines() if not l.startswith(("val ", "pre ", "post ")))[-3000:])
    print(err[-3000:])
    if rc != 0:
        print("VIOLATION property=C06 replay=%s signature=%s" % (path, rp.get("signature", "?")))
    return 1 if rc != 0 else 0
