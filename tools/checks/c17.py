"""C17 — Position control lands exactly where asked.

proof      : XmpProps.C17 over XmpModel.Control (set_position / next / prev / set_row / seek_time /
             restart / stop + the part of xmp_play_frame that consumes the pending reposition)
tie        : correspondence — harness/c17_control.c (TU-includes control.c and player.c, spies the
             state right after the reposition block) vs native driver drv_c17 on the dumped
             module description + pre-state: return value, complete post-call state, frame return
             code, complete mid-frame state and the kernel-owned fields / xmp_frame_info after the frame
search     : the harness's direct oracle = the landing clauses of the property evaluated on the
             return value and xmp_frame_info of the real library, on corpus and synthetic modules
"""
import os
import re
import vlib

LEVEL = "proof"
MANIFEST = dict(
    category="proof",
    text="Lean 4 theorems (XmpProps.C17) over a function-by-function model of control.c's position calls and the pre-read_row part of "
         "xmp_play_frame (next_order, next_row, update_from_ord_info, reset_flow, check_end_of_module): for ALL module descriptions and ALL "
         "prior flow states (pending break/jump/pattern delay/row delay/pattern loop/reposition), xmp_set_position(p) of an order that belongs to a "
         "sequence and holds a pattern makes the next frame row 0 / tick 0 of order p in that sequence with speed/bpm/volume/time of xxo_info[p] and "
         "a clean flow state (C17_set_position_partial: except when p is the non-zero order being played, and the value reported for p = 0 is -1 - "
         "both proved as counterexamples and listed as known findings); out-of-range positions/rows are refused with the state unchanged; "
         "xmp_set_row lands on tick 0 of the row; next/prev move to the neighbouring order of the sequence (skip markers and pattern-less orders "
         "passed over, loops proved terminating), stay put at the list end / sequence end / foreign orders and restart the entry order; "
         "xmp_seek_time selects the greatest candidate order; restart re-enters the first pattern of the sequence with loop count 0 and no pending delay/break/jump/loop for every pre-state incl. mid pattern delay (C17_restart; on jump-free generated modules the harness also renders the next pass and compares its length with the reported duration); stop ends; "
         "a player (re)start inside a history (xmp_end_player + xmp_start_player, or xmp_start_player on the playing context, with another "
         "sub-song selected) re-establishes sequence 0 and the relative / time calls that follow act in sequence 0 (C17_start_player, "
         "C17_next_after_start, C17_seek_after_start); xmp_set_player(CFLAGS) re-runs the scan exactly when the VBLANK bit of the current "
         "module's flags changes, FLAGS never, MODE always, none of them moves the player (C17_set_cflags, C17_set_flags, C17_set_mode, "
         "C17_cflags_roundtrip_rescans) - the harness counts the real rescans, follows the re-scanned tables, and on generated straight-line "
         "modules with Fxx on both sides of 0x20 measures the real order-entry times of the timing mode in force and judges the table and "
         "xmp_seek_time against them. "
         "Model tied to the C on every run by a differential correspondence on the full sequencer state (return value, post-call state, state right "
         "after the reposition block, kernel fields and xmp_frame_info after the frame), a direct oracle on xmp_frame_info over corpus and "
         "generated modules, and the Lean witnesses replayed on the real library.",
    note="Trusted: Lean kernel, the hand-written model XmpModel/Control.lean, harness and differ. The module tables (sequence_control, entry points, "
         "scan[].ord/row/num, xxo_info) are data dumped from the real scan, not derived (scan.c's scan_module is not modelled; C18 relates xxo_info "
         "times to playback). Not modelled: per-channel pattern-loop array, QUIRK_PERPAT reset, libxmp_virt_reset/reset_channels (voices), everything "
         "from read_row on (effects may change speed/bpm/volume/flow later in the same frame; position fields are not written by effects - grep-checked "
         "per run), the addition of frame_time to current_time. Scan invariants used as hypotheses (an order of sequence q is not below q's entry "
         "point; marker modules have at most 254 patterns) are monitored on every module loaded.",
    technique="Lean 4 proofs by unfolding the executable model (fuelled loops with proved fuel sufficiency) + differential correspondence against the C "
              "+ property oracle on corpus and generated modules",
    design_ref="DESIGN.md section 4 C16 / C17",
)
REQUIRED = ["Xmp.Control." + n for n in (
    "C17_set_position_partial", "C17_set_position_ret0_counterexample", "C17_set_position_current_order_counterexample",
    "C17_refuse_position", "C17_refuse_row", "C17_set_row", "C17_next_inside", "C17_next_one_order", "C17_next_stays",
    "C17_prev_inside", "C17_prev_entry", "C17_prev_stays", "C17_marker_skipping_terminates", "C17_seek_time",
    "C17_seek_time_fallback", "C17_restart", "C17_stop", "C17_start_player", "C17_next_after_start",
    "C17_seek_after_start", "C17_set_cflags", "C17_set_flags", "C17_cflags_roundtrip_rescans", "C17_set_mode")] + [
    "Xmp.Control.startSkip_exit", "Xmp.Control.xmpStartPlayer_eq",
    "Xmp.Control.setPosition_isSome", "Xmp.Control.skipMarkers_isSome", "Xmp.Control.skipInvalid_exit",
    "Xmp.Control.nextOrderLoop_skip"]

WSUB = "H 1 2 2 0 0 0 0 6 125\nO 0 1\nR 4 4\nE 0 3 0 0 0 11 0 0 0\nE 1 3 0 0 0 11 1 0 0\n"
# Lean witnesses (XmpProps/C17.lean: wTwo / wMark) replayed on the real library: (module text, script, expected lines)
WITNESSES = [
    ("wTwo", "H 1 2 2 0 0 0 0 6 125\nO 0 1\nR 64 64\n", "setpos 1\nplay 10\nop set_position 1\n",
     {"pre": "1 1 1 1 3 6 125 64 0 0 0 0 -1 0 0 -1 -1 -1 0 0 -1 64 0 0 0", "ret": "1",
      "oracle": "fail land:xmp_set_position(current-order)", "fi": "1 1 1 64 4 0 0"}),
    ("wTwo", "H 1 2 2 0 0 0 0 6 125\nO 0 1\nR 64 64\n", "setpos 1\nplay 10\nop set_position 0\n",
     {"ret": "-1", "oracle": "fail ret:xmp_set_position(0)=-1", "fi": "0 0 0 64 0 0 0"}),
    ("wMark", "H 1 2 5 0 1 0 0 6 125\nO 0 254 1 255 0\nR 64 64\n", "play 5\nop next_position 0\n",
     {"ret": "2", "oracle": "ok next:inside", "fi": "2 1 0 64 0 0 0"}),
    ("wMark", "H 1 2 5 0 1 0 0 6 125\nO 0 254 1 255 0\nR 64 64\n", "setpos 2\nplay 5\nop next_position 0\n",
     {"ret": "2", "oracle": "ok next:end"}),
    ("wMark", "H 1 2 5 0 1 0 0 6 125\nO 0 254 1 255 0\nR 64 64\n", "setpos 2\nplay 5\nop prev_position 0\n",
     {"ret": "0", "oracle": "ok prev:inside", "fi": "0 0 0 64 0 0 0"}),
    ("wMark", "H 1 2 5 0 1 0 0 6 125\nO 0 254 1 255 0\nR 64 64\n", "play 5\nop seek_time 8000\n",
     {"ret": "2", "oracle": "ok seek:landing", "fi": "2 1 0 64 0 0 0"}),
    # player restarts inside the history, sub-song 1 selected before (wSub)
    ("wSub", WSUB, "setpos 1\nplay 3\nop start_player 0\n",
     {"seq": "0 0 0 1 1 1 0 1", "ret": "0", "oracle": "ok start:stopped", "fi": "0 0 0 4 0 0 0"}),
    ("wSub", WSUB, "setpos 1\nplay 3\nop start_player 0\nop next_position 0\n",
     {"ret": "0", "oracle": "ok next:end"}),
    ("wSub", WSUB, "setpos 1\nplay 3\nop start_player 1\nplay 2\nop seek_time 0\n",
     {"ret": "0", "oracle": "ok seek:landing", "fi": "0 0 0 4 0 0 0"}),
]


STATE_FIELDS = 25


def gen_subsongs(rng, path):
    """A module with 2-4 sub-songs: consecutive blocks of orders, each block's last pattern jumps
    back to the block's first order on its last row, so the scan finds one sequence per block."""
    nsub = rng.randint(2, 4)
    marker = rng.random() < 0.4
    chn = rng.randint(1, 3)
    orders, rows, ev = [], [], []
    for b in range(nsub):
        start = len(orders)
        if marker and rng.random() < 0.3:
            orders.append(0xfe)
        n = rng.randint(1, 3)
        for i in range(n):
            pat = len(rows)
            rows.append(rng.choice([2, 4, 8, 16]))
            orders.append(pat)
            if rng.random() < 0.3:
                ev.append((pat, rng.randrange(rows[pat]), rng.randrange(chn), 0x0e, 0xe0 | rng.randint(1, 3)))
            if marker and rng.random() < 0.2 and i + 1 < n:
                orders.append(0xfe)
        ev.append((len(rows) - 1, rows[-1] - 1, 0, 0x0b, start))
        if marker and rng.random() < 0.4:
            orders.append(0xff)
    with open(path, "w") as f:
        f.write("H %d %d %d 0 %d %d %d %d 125\n" % (chn, len(rows), len(orders), int(marker), int(rng.random() < 0.3),
                                                  int(rng.random() < 0.4), rng.choice([1, 2, 3, 6])))
        f.write("O " + " ".join(map(str, orders)) + "\n")
        f.write("R " + " ".join(map(str, rows)) + "\n")
        for (p, row, c, fxt, fxp) in ev:
            f.write("E %d %d %d 0 0 %d %d 0 0\n" % (p, row, c, fxt, fxp))
    return path


def gen_interleaved(rng, path):
    """Sub-songs whose orders interleave: every order has its own pattern, whose last row jumps to the
    next order of the same sub-song (the last one back to the sub-song's first order)."""
    nsub = rng.randint(2, 3)
    ln = rng.randint(nsub + 1, 8)
    owner = [rng.randrange(nsub) for _ in range(ln)]
    owner[0] = 0
    for q in range(nsub):
        if q not in owner:
            owner[rng.randrange(1, ln)] = q
    owner[0] = 0
    rows = [rng.choice([2, 4, 8]) for _ in range(ln)]
    chn = rng.randint(1, 2)
    ev = []
    for i in range(ln):
        mine = [j for j in range(ln) if owner[j] == owner[i]]
        nxt = mine[(mine.index(i) + 1) % len(mine)]
        ev.append((i, rows[i] - 1, 0, 0x0b, nxt))
    with open(path, "w") as f:
        f.write("H %d %d %d 0 0 %d %d %d 125\n" % (chn, ln, ln, int(rng.random() < 0.3), int(rng.random() < 0.4), rng.choice([1, 2, 3])))
        f.write("O " + " ".join(map(str, range(ln))) + "\n")
        f.write("R " + " ".join(map(str, rows)) + "\n")
        for (p, row, c, fxt, fxp) in ev:
            f.write("E %d %d %d 0 0 %d %d 0 0\n" % (p, row, c, fxt, fxp))
    return path


def gen_linear(rng, path):
    """Straight playback only (file name lin*): no jump, break or loop; many pattern delays and Fxx
    effects on both sides of 0x20 (speed in VBlank timing, tempo in CIA timing).  One pass lasts exactly
    the scanned duration and enters every order at the scanned time of the timing mode in force, which
    the harness measures after restarts and after xmp_set_player(FLAGS/CFLAGS/MODE)."""
    npat = rng.randint(1, 3)
    ln = rng.randint(2, 4)
    chn = rng.randint(1, 3)
    rows = [rng.choice([4, 8]) for _ in range(npat)]
    with open(path, "w") as f:
        f.write("H %d %d %d 0 0 %d 0 %d 125\n" % (chn, npat, ln, int(rng.random() < 0.5), rng.choice([2, 3, 6])))
        f.write("O " + " ".join(str(rng.randrange(npat)) for _ in range(ln)) + "\n")
        f.write("R " + " ".join(map(str, rows)) + "\n")
        for p in range(npat):
            for row in range(rows[p]):
                r = rng.random()
                if r < 0.3:
                    f.write("E %d %d %d 0 0 14 %d 0 0\n" % (p, row, rng.randrange(chn), 0xe0 | rng.randint(1, 6)))
                elif r < 0.5:
                    f.write("E %d %d %d 0 0 15 %d 0 0\n" % (p, row, rng.randrange(chn), rng.choice([2, 3, 6, 0x20, 0x28, 0x30, 0x40, 0x7d])))
    return path


def gen_bigpat(rng, path):
    """A non-marker format with 256 patterns (XM allows that many) whose order list uses the pattern
    numbers 0xfe and 0xff as REAL patterns, next to ordinary ones."""
    npat = 256
    chn = rng.randint(1, 2)
    ln = rng.randint(3, 10)
    pool = [0xfe, 0xff, 0xfd, 0, 1, 2, 3, 0x80]
    orders = [rng.choice(pool) for _ in range(ln)]
    orders[rng.randrange(1, ln)] = 0xfe
    if rng.random() < 0.7:
        orders[rng.randrange(ln)] = 0xff
    rows = [rng.choice([2, 4, 8]) for _ in range(npat)]
    with open(path, "w") as f:
        f.write("H %d %d %d 0 0 %d %d %d 125\n" % (chn, npat, ln, int(rng.random() < 0.3), int(rng.random() < 0.3), rng.choice([1, 2, 3])))
        f.write("O " + " ".join(map(str, orders)) + "\n")
        f.write("R " + " ".join(map(str, rows)) + "\n")
        for p in set(orders):
            if rng.random() < 0.3:
                f.write("E %d %d 0 0 0 14 %d 0 0\n" % (p, rng.randrange(rows[p]), 0xe0 | rng.randint(1, 3)))
        if rng.random() < 0.5:      # two sub-songs
            k = rng.randrange(1, ln)
            f.write("E %d %d 0 0 0 11 %d 0 0\n" % (orders[k - 1], rows[orders[k - 1]] - 1, 0))
    return path


def gen_synth(rng, path):
    """One synthetic module (in-memory build by the harness): order list with invalid patterns and,
    for marker modules, 0xfe/0xff entries; jumps that create several sequences; breaks, pattern
    delays, pattern loops, speed changes."""
    marker = rng.random() < 0.5
    npat = rng.randint(1, 6)
    chn = rng.randint(1, 4)
    ln = rng.choice([1, 2, 3, 4, 6, 8, 12, 16, 24])
    rows = [rng.choice([1, 2, 3, 4, 8, 16, 32, 64]) for _ in range(npat)]
    orders = []
    for i in range(ln):
        r = rng.random()
        if marker and r < 0.14:
            orders.append(0xfe)
        elif marker and r < 0.24 and i > 0:
            orders.append(0xff)
        elif r < 0.30 and not marker and rng.random() < 0.4:
            orders.append(rng.randint(npat, min(255, npat + 3)))
        else:
            orders.append(rng.randrange(npat))
    if all(o >= npat for o in orders):
        orders[0] = 0
    rst = rng.choice([0, 0, 0, rng.randrange(ln), ln])
    ev = []
    for p in range(npat):
        for _ in range(rng.randint(0, 3)):
            row = rng.randrange(rows[p])
            c = rng.randrange(chn)
            k = rng.randrange(8)
            if k == 0:
                ev.append((p, row, c, 0x0b, rng.randrange(ln)))          # jump
            elif k == 1:
                ev.append((p, row, c, 0x0d, rng.choice([0, 0, 1, 2, 16])))  # break
            elif k == 2:
                ev.append((p, row, c, 0x0e, 0xe0 | rng.randint(1, 4)))   # pattern delay
            elif k == 3:
                ev.append((p, row, c, 0x0e, 0x60))                       # loop start
            elif k == 4:
                ev.append((p, row, c, 0x0e, 0x60 | rng.randint(1, 3)))   # loop
            elif k == 5:
                ev.append((p, row, c, 0x0f, rng.choice([1, 2, 3, 6, 0x20, 0x7d, 0xc0])))  # speed/bpm
            elif k == 6:
                ev.append((p, row, c, 0x10, rng.randint(0, 64)))         # global volume
            else:
                ev.append((p, rows[p] - 1, c, 0x0b, rng.randrange(ln)))  # jump on the last row
    with open(path, "w") as f:
        f.write("H %d %d %d %d %d %d %d %d %d\n" % (chn, npat, ln, rst, int(marker), int(rng.random() < 0.3),
                                                 int(rng.random() < 0.4), rng.choice([1, 2, 3, 6]), 125))
        f.write("O " + " ".join(map(str, orders)) + "\n")
        f.write("R " + " ".join(map(str, rows)) + "\n")
        for (p, row, c, fxt, fxp) in ev:
            f.write("E %d %d %d %d %d %d %d 0 0\n" % (p, row, c, 49 if rng.random() < 0.3 else 0, 1 if rng.random() < 0.3 else 0, fxt, fxp))
    return path


def parse(out):
    """harness stdout -> list of modules: dict(file, head lines, cases=[dict])"""
    mods, cur, case = [], None, None
    steps = []
    for line in out.splitlines():
        w = line.split(" ", 1)
        t = w[0]
        if t == "file":
            case = None
            cur = {"file": w[1], "head": [], "cases": [], "steps": []}
            mods.append(cur)
            steps = cur["steps"]
        elif cur is None:
            continue
        elif t in ("mod", "xxo", "rows", "ctl", "seq", "info"):
            if case is not None and "post" in case and "frame" not in case:
                case.setdefault("newhead", []).append(line)     # module description after a rescan
            else:
                cur["head"].append(line)
        elif t == "s":
            steps.append(w[1])
        elif t == "case":
            case = {"n": int(w[1]), "nsteps": len(steps)}
            cur["cases"].append(case)
        elif t in ("pre", "op", "ret", "post", "frame", "rescan"):
            if case is not None:
                case[t] = w[1] if len(w) > 1 else ""
                if t == "op":
                    steps.append("op " + w[1])
        elif t == "oracle":
            if case is not None:
                case["oracle"] = w[1]
        elif t == "HANG":
            cur["hang"] = w[1] if len(w) > 1 else "?"
    return mods


def script_for(mod, case):
    """replayable script: all steps up to and including the case's op"""
    return "\n".join(mod["steps"][:case["nsteps"] + 1]) + "\n"


def module_text(path):
    if path.endswith(".synth"):
        try:
            return open(path).read()
        except OSError:
            return None
    return None


def wf_monitor(head):
    """the scan invariants used as hypotheses by the theorems; returns list of violations"""
    d = {l.split(" ", 1)[0]: l.split(" ")[1:] for l in head}
    mh = d["mod"]
    ln, pat, marker, nseq = int(mh[1]), int(mh[2]), int(mh[4]), int(mh[7])
    xxo = list(map(int, d["xxo"]))
    ctl = list(map(int, d["ctl"]))
    seq = list(map(int, d["seq"]))
    bad = []
    if marker and pat > 0xfe:
        bad.append("marker module with %d patterns" % pat)
    for i in range(ln):
        q = ctl[i]
        if q != 0xff and q >= nseq:
            bad.append("sequence_control[%d]=%d >= num_sequences %d" % (i, q, nseq))
        elif q != 0xff and xxo[i] < pat and i < seq[4 * q]:
            bad.append("order %d of sequence %d below its entry point %d" % (i, q, seq[4 * q]))
    return bad


def run_shard(args):
    exe, seed, thorough, ncases, files = args
    rc, out, err = vlib.run_exe(exe, ["gen", str(seed), str(int(thorough)), str(ncases)] + files, timeout=3000)
    return rc, out.decode("latin-1"), err, files


def run(ck):
    ck.proofs(["XmpProps.C17"], required=REQUIRED, drivers=["drv_c17"])
    exe = vlib.build_harness("c17_control", ["c17_control.c"])
    quick = ck.tier == "quick"
    sdir = os.path.join(vlib.OUT, "c17-synth-%d" % ck.seed)
    os.makedirs(sdir, exist_ok=True)
    nsynth = 300 if quick else 4000
    def one(i):
        if i % 12 == 5:
            return gen_linear(ck.rng, os.path.join(sdir, "lin%04d.synth" % i))
        gen = gen_subsongs if i % 3 == 0 else gen_interleaved if i % 6 == 1 else gen_bigpat if i % 12 == 2 else gen_synth
        return gen(ck.rng, os.path.join(sdir, "s%04d.synth" % i))
    for old in os.listdir(sdir):
        os.unlink(os.path.join(sdir, old))
    synth = [one(i) for i in range(nsynth)]
    corpus = [f for f in vlib.corpus_files() if os.path.getsize(f) < (600000 if quick else 30000000)]
    fixed = [f for f in corpus if "/test/test." in f]
    rest = [f for f in corpus if f not in fixed]
    ck.rng.shuffle(rest)
    if quick:
        rest = rest[:120]
    files = fixed + rest + synth
    ck.rng.shuffle(files)
    nsh = 16 if quick else 32
    ncases = 100 if quick else 500
    shards = [(exe, ck.seed, not quick, ncases, files[i::nsh]) for i in range(nsh)]
    results = vlib.pmap(run_shard, shards, workers=16)
    evaluate(ck, exe, results)
    replay_witnesses(ck, exe)


def replay_witnesses(ck, exe):
    """the concrete witnesses of the Lean examples / counterexamples, run on the real library"""
    n = 0
    for name, text, script, expect in WITNESSES:
        mp = os.path.join(vlib.OUT, "c17-%s.synth" % name)
        sp = os.path.join(vlib.OUT, "c17-witness-script.txt")
        open(mp, "w").write(text)
        open(sp, "w").write(script)
        rc, out, err = vlib.run_exe(exe, ["script", mp, sp], timeout=60)
        got = {}
        for line in out.decode("latin-1").splitlines():
            w = line.split(" ", 1)
            if w[0] in ("pre", "ret", "oracle", "seq") and len(w) > 1:
                got[w[0]] = w[1]
            elif w[0] == "frame":
                got["fi"] = w[1].split(" fi ")[1]
        bad = [k for k, v in expect.items() if not got.get(k, "").startswith(v)]
        if rc != 0 or bad:
            ck.unproved("witness replay " + name, "Lean witness %s script %r: real library gives %r, theorem says %r" % (
                name, script, {k: got.get(k) for k in expect}, expect))
        else:
            n += 1
        if got.get("oracle", "").startswith("fail"):
            ck.violation(got["oracle"].split(" ")[1], {"module": mp, "module_text": text, "script": script, "oracle": got["oracle"]},
                         "position control (Lean counterexample witness replayed): " + got["oracle"][5:])
    ck.note("lean_witnesses_replayed_on_real_library", n)


def evaluate(ck, exe, results):
    stats = {}

    def bump(k, n=1):
        stats[k] = stats.get(k, 0) + n

    for rc, out, err, files in results:
        mods = parse(out)
        bump("modules_skipped", out.count("\nskip ") + (1 if out.startswith("skip ") else 0))
        if rc == 3 and out.rstrip().endswith("HANG load"):
            bump("load_timeouts")       # loading is not this property's subject (C02)
            rc = 0
        if rc == 4:     # xmp_start_player failed in the middle of a history
            last = mods[-1] if mods else None
            ck.violation("ret:xmp_start_player", {"module": last["file"] if last else None,
                                                  "module_text": module_text(last["file"]) if last else None,
                                                  "script": "\n".join(last["steps"]) + "\n" if last else None},
                         "xmp_start_player failed when the player was restarted in %s" % (last["file"] if last else "?"))
            rc = 0
        if rc != 0:
            last = mods[-1] if mods else None
            if rc == 3 or (last is not None and "hang" in last):
                what = (last or {}).get("hang", "?")
                sig = "hang:xmp_" + what.split("+")[0]
            elif rc == -999:
                sig = "hang:harness-timeout"
            else:
                sig = vlib.sanitizer_signature(err)
            lastcase = last["cases"][-1] if last and last["cases"] else None
            ck.violation(sig, {"module": last["file"] if last else None, "module_text": module_text(last["file"]) if last else None,
                               "script": "\n".join(last["steps"]) + "\n" if last else None,
                               "last_case": lastcase, "stderr": err[-3000:]},
                         "position-control harness aborted (rc=%d) in %s: %s" % (rc, last["file"] if last else "?", sig))
        # model side
        text = []
        for md in mods:
            text += md["head"]
            for c in md["cases"]:
                if "frame" in c:
                    rs = c.get("rescan", "").split(" ")
                    text += ["pre " + c["pre"], "op " + c["op"] + (" %s %s" % (rs[1], rs[2]) if len(rs) == 3 else "")]
                    text += c.get("newhead", []) + ["frame"]
        mo = vlib.run_driver("drv_c17", "\n".join(text) + "\n") if getattr(ck, "lean_ok", False) else None
        mi = 0
        for md in mods:
            bump("modules")
            heads = [md["head"]] + [c["newhead"] for c in md["cases"] if len(c.get("newhead", [])) == 6]
            if len(heads) > 1:
                bump("rescans_followed", len(heads) - 1)
            for b in [x for hd in heads for x in wf_monitor(hd)]:
                ck.violation("scan-invariant:" + re.sub(r"\d+", "N", b)[:50],
                             {"module": md["file"], "module_text": module_text(md["file"])},
                             "scan invariant assumed by the C17 theorems fails on %s: %s" % (md["file"], b))
            mh = md["head"][0].split(" ")
            if int(mh[8]) > 1:
                bump("modules_multi_sequence")
            if int(mh[5]):
                bump("modules_marker")
            prev_op = None
            for c in md["cases"]:
                if "frame" not in c:
                    continue
                bump("cases")
                pre = c["pre"].split(" ")
                op = c["op"].split(" ")[0]
                bump("op_" + op)
                if op == "restart_module" and os.path.basename(md["file"]).startswith("lin"):
                    bump("restart_duration_passes")
                    if pre[13] != "0":
                        bump("restart_duration_passes_mid_pattern_delay")
                if op == "start_player" and pre[9] != "0":
                    bump("player_starts_with_other_sequence_selected")
                if prev_op == "start_player" and op in ("next_position", "prev_position", "seek_time"):
                    bump("relative_or_time_call_right_after_player_start")
                prev_op = op
                pend = pre[1] != pre[2]
                flowbits = []
                if pre[11] != "0":
                    flowbits.append("pbreak")
                if pre[12] != "-1":
                    flowbits.append("jump")
                if pre[13] != "0":
                    flowbits.append("delay")
                if pre[15] != "-1":
                    flowbits.append("loop_dest")
                if pre[17] != "-1" or pre[18] != "0":
                    flowbits.append("loop")
                if pre[23] != "0":
                    flowbits.append("rowdelay")
                if pend:
                    flowbits.append("reposition")
                for fb in flowbits:
                    bump("pre_" + fb)
                orc = c.get("oracle", "")
                cls = orc.split(" ")[1] if orc else "?"
                bump("class_" + cls if orc.startswith("ok") else "fail_" + cls)
                key = vlib.hash_str(md["file"] + c["pre"] + c["op"])
                ck.count(key, nontrivial=bool(flowbits) or cls not in ("unconstrained", "refuse"))
                if orc.startswith("fail"):
                    sig = cls
                    ck.violation(sig, {"how": "harness c17_control script <module> <scriptfile>", "module": md["file"],
                                       "module_text": module_text(md["file"]), "script": script_for(md, c),
                                       "case": {k: c[k] for k in ("pre", "op", "ret", "post", "frame")}, "oracle": orc},
                                 "position control: " + orc[5:])
                if mo is not None:
                    # model answers for this case: [ret, post, [rescan]] then one frame / "hang frame" line
                    got = {}
                    while mi < len(mo):
                        l = mo[mi]
                        mi += 1
                        k, _, v = l.partition(" ")
                        if k == "hang":
                            got.setdefault("ret", "hang")
                            if v == "frame":
                                got.setdefault("frame", "hang")
                                break
                        else:
                            got[k] = v
                            if k == "frame":
                                break
                    if "rescan" in c:
                        bump("param_rescan" if c["rescan"].startswith("1") else "param_no_rescan")
                        if got.get("rescan") != c["rescan"].split(" ")[0]:
                            got["ret"] = "%s (model rescan=%s, real rescan=%s)" % (got.get("ret"), got.get("rescan"), c["rescan"].split(" ")[0])
                    diff = [k for k in ("ret", "post", "frame") if got.get(k) != c[k]]
                    if diff:
                        if not orc.startswith("fail"):
                            ck.unproved("correspondence Control vs control.c/player.c",
                                        "module %s case %d op %s: field %s real=%r model=%r ; pre=%s" % (
                                            md["file"], c["n"], c["op"], diff[0], c[diff[0]], got.get(diff[0]), c["pre"]))
                        bump("correspondence_mismatch")
                    else:
                        ck.cov["traces_validated_against_impl"] += 1
                        if c["frame"].split(" ")[1] == "1":
                            bump("frames_with_reposition")
                if len(ck.cov["samples"]) < 5 and flowbits and not orc.startswith("fail"):
                    ck.sample({"module": os.path.basename(md["file"]), "pre": c["pre"], "op": c["op"], "ret": c["ret"],
                               "frame": c["frame"], "oracle": orc})
    for k, v in sorted(stats.items()):
        ck.note(k, v)
    ck.cov["rule"] = ("case = (module, playback point reached by the recorded steps incl. injected jump/break/pattern-delay/pattern-loop/"
                      "row-delay effects and pending repositions, control call, argument); distinct by hash of (module, full pre-state, call); "
                      "non-trivial = the pre-state has a pending flow item or reposition, or the call is constrained by a landing clause "
                      "(not merely refused / unconstrained)")
    ck.assumptions += [
        "scan invariants (monitored per module): an order of sequence q holding a pattern is not below q's entry point; marker modules have <= 254 patterns",
        "C16: between calls the player sits on an order holding a pattern with speed >= 1 (needed for the landing of xmp_set_row)",
        "effects (read_row/play_channel) do not write ord/pos/row/frame/sequence/loop_count/num_rows/end_point (compared after the whole frame)",
    ]


def replay(ck, rp):
    exe = vlib.build_harness("c17_control", ["c17_control.c"])
    r = rp["replay"]
    path = r.get("module")
    if r.get("module_text"):
        path = os.path.join(vlib.OUT, "c17-replay.synth")
        open(path, "w").write(r["module_text"])
    spath = os.path.join(vlib.OUT, "c17-replay-script.txt")
    open(spath, "w").write(r.get("script") or "")
    rc, out, err = vlib.run_exe(exe, ["script", path, spath], timeout=120)
    txt = out.decode("latin-1")
    tail = [l for l in txt.splitlines() if not l.startswith(("xxo", "ctl", "info"))][-14:]
    print("\n".join(tail))
    print(err[-2000:])
    bad = rc != 0 or "oracle fail" in "\n".join(txt.splitlines()[-3:])
    if bad:
        print("VIOLATION property=C17 replay=%s" % spath)
    return 1 if bad else 0
