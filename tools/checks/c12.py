"""C12 — xmp_play_buffer delivers exactly the frame stream, in any chunking.

proof      : XmpProps.C12 over XmpModel.PlayBuffer (all size sequences x all frame streams)
tie        : correspondence — harness/c12_playbuffer.c runs the real xmp_play_buffer, the native
             driver drv_c12 runs the model on the same script and the recorded frame stream;
             return code, consumed/in_size and every byte written are compared per call
search     : the harness's direct oracle (B's bytes == concatenation of A's xmp_play_frame buffers)
"""
import os
import random
import struct
import vlib

LEVEL = "proof"
MANIFEST = dict(
    category="proof",
    text="Lean 4 theorems (XmpProps.C12: C12_concat, C12_concat_unbounded, C12_no_drop_dup, C12_end_*, C12_reset) prove for ALL request-size "
         "sequences and ALL frame streams that the carry-over logic of xmp_play_buffer emits exactly consecutive slices of the frame concatenation, "
         "zero-fills the call that meets the end and returns -1 afterwards. The model is tied to src/player.c on every run by a differential "
         "correspondence (real xmp_play_buffer under ASan vs native Lean driver: return code, consumed/in_size and every byte per call) and a direct "
         "oracle (bytes vs the xmp_play_frame stream of a twin context) that yields replayable failing inputs.",
    note="Trusted: Lean kernel (axioms propext/Classical.choice/Quot.sound only), the hand-written model XmpModel/PlayBuffer.lean, the harness "
         "and differ. Assumed and checked elsewhere: frames are non-empty (C16) and the end is absorbing; frame production itself is not part of this "
         "model. Correspondence is sampled (differential), not exhaustive.",
    technique="Lean 4 proof by induction over the call list with a stream-position invariant + differential correspondence against the C",
    design_ref="DESIGN.md section 4 C12",
)
REQUIRED = ["Xmp.PlayBuffer.C12_concat", "Xmp.PlayBuffer.C12_concat_unbounded", "Xmp.PlayBuffer.C12_call",
            "Xmp.PlayBuffer.C12_no_drop_dup", "Xmp.PlayBuffer.C12_end_zero_fill",
            "Xmp.PlayBuffer.C12_end_after", "Xmp.PlayBuffer.C12_len", "Xmp.PlayBuffer.C12_reset",
            "Xmp.PlayBuffer.C12_post_of_seqstream", "Xmp.PlayBuffer.C12_concat_seqstream"]


def tempo_modules(ck, dirname, count):
    """Small M.K. modules whose tempo (and with it the frame size) changes on almost every row: speed 1 on row 0,
    then Fxx with xx >= 0x20 drawn at random; a short looped sample so that the frames are not silent."""
    import struct
    os.makedirs(dirname, exist_ok=True)
    out = []
    for k in range(count):
        rng = ck.rng
        b = bytearray(b"tempo changes".ljust(20, b"\0"))
        b += b"s".ljust(22, b"\0") + struct.pack(">HBBHH", 32, 0, 64, 0, 32)
        for i in range(30):
            b += bytes(22) + struct.pack(">HBBHH", 0, 0, 0, 0, 1)
        npat = rng.randint(1, 2)
        b += bytes([npat, 0x7f]) + bytes(range(npat)).ljust(128, b"\0") + b"M.K."
        for p in range(npat):
            for r in range(64):
                for c in range(4):
                    if c == 0 and r == 0 and p == 0:
                        b += bytes([0x01, 0xac, 0x1f, 0x01])           # note, sample 1, F01 (speed 1)
                    elif c == 1 and rng.random() < 0.7:
                        b += bytes([0, 0, 0x0f, rng.choice([0x20, 0x21, 0x30, 0x40, 0x7d, 0x96, 0xc8, 0xff, rng.randint(0x20, 0xff)])])
                    elif c == 2 and rng.random() < 0.15:
                        b += bytes([0x01, 0x1d, 0x10, 0x00])
                    else:
                        b += bytes(4)
        b += bytes((i * 9) & 0xff for i in range(64))
        path = os.path.join(dirname, "tempo%02d.mod" % k)
        open(path, "wb").write(bytes(b))
        out.append(path)
    return out


def subsong_modules(ck, dirname, count):
    """Protracker modules with two or three sequences (sub-songs): order 0 jumps back to itself, the following
    orders are reachable only through position control, so that xmp_set_position crosses between sequences."""
    rng = random.Random(ck.seed * 2749 + 7)
    os.makedirs(dirname, exist_ok=True)
    out = []
    for k in range(count):
        b = bytearray(b"subsongs".ljust(20, b"\0"))
        b += b"s".ljust(22, b"\0") + struct.pack(">HBBHH", 32, 0, 64, 0, 32)
        for i in range(30):
            b += bytes(22) + struct.pack(">HBBHH", 0, 0, 0, 0, 1)
        npat = rng.randint(3, 5)
        b += bytes([npat, 0x7f]) + bytes(range(npat)).ljust(128, b"\0") + b"M.K."
        # pattern p ends with a jump: 0 -> 0, the last of each later group back to the group's first order
        split = rng.randint(2, npat - 1)          # orders 1..split-1 and split..npat-1 are further sequences
        for p in range(npat):
            target = 0 if p == 0 else (1 if p < split else split)
            last = p == 0 or p == split - 1 or p == npat - 1
            endrow = rng.choice([15, 31, 63])
            for r in range(64):
                for c in range(4):
                    if c == 0 and r % 8 == 0:
                        b += bytes([0x01, rng.choice([0xac, 0x1d, 0x40]), 0x10 | (0x0f if r == 0 and p == 0 else 0),
                                    rng.choice([3, 4, 6]) if r == 0 and p == 0 else 0])
                    elif c == 3 and r == endrow and last:
                        b += bytes([0, 0, 0x0b, target])
                    elif c == 3 and r == endrow:
                        b += bytes([0, 0, 0x0d, 0])
                    else:
                        b += bytes(4)
        b += bytes((i * 9) & 0xff for i in range(64))
        path = os.path.join(dirname, "subsong%02d.mod" % k)
        open(path, "wb").write(bytes(b))
        out.append(path)
    return out


def pick_modules(ck, n):
    files = [f for f in vlib.corpus_files() if os.path.getsize(f) < 400000]
    # the three repo test modules always; the rest sampled by seed
    fixed = [f for f in files if "/test/test." in f]
    rest = [f for f in files if f not in fixed]
    ck.rng.shuffle(rest)
    return fixed + rest[:n]


def parse_cases(text):
    """Split harness output into sessions: dict(begin, caseidx, script lines, expects, oracle lines, ops)."""
    cases, cur, idx = [], None, -1
    for line in text.splitlines():
        if line.startswith("caseidx "):
            idx = int(line.split()[1])
        elif line.startswith("begin "):
            cur = {"begin": line, "caseidx": idx, "script": [line], "expect": [], "oracle": [], "ops": [], "lcs": []}
        elif cur is None:
            continue
        elif line.startswith("frame "):
            cur["script"].append(line)
            cur["lcs"].append(int(line.split(" ", 2)[1]))
        elif line.startswith("expect "):
            cur["expect"].append(line[7:])
        elif line.startswith("oracle_"):
            cur["oracle"].append(line)
        elif line == "end":
            cur["script"].append(line)
            cases.append(cur)
            cur = None
        else:
            cur["script"].append(line)
            if line.startswith("call "):
                cur["ops"].append((0, int(line.split()[1])))
            elif line == "reset":
                cur["ops"].append((1, 0))
            elif line == "stop":
                cur["ops"].append((2, 0))
    return cases


def replay_info(shard, case):
    exe, seed, ncases, maxhex, mods = shard
    return {"how": "harness c12_playbuffer <seed> <ncases> <maxhex> <only> <modules…> re-generates exactly this case",
            "args": [str(seed), str(ncases), str(maxhex), str(case["caseidx"])] + mods,
            "session": case["begin"], "ops": case["ops"]}


def run_shard(args):
    exe, seed, ncases, maxhex, mods = args
    rc, out, err = vlib.run_exe(exe, [str(seed), str(ncases), str(maxhex), "-1"] + mods, timeout=1200)
    return rc, out.decode("latin-1"), err


def run(ck):
    ck.proofs(["XmpProps.C12"], required=REQUIRED, drivers=["drv_c12"])
    exe = vlib.build_harness("c12_playbuffer", ["c12_playbuffer.c"])
    quick = ck.tier == "quick"
    nshards = 16
    per = 40 if quick else 2500
    maxhex = 24000 if quick else 60000
    mods = pick_modules(ck, 40 if quick else 250)
    # frame size must follow the tempo: modules that change tempo on almost every frame (listed several times
    # so that about a quarter of the cases use them)
    tmods = tempo_modules(ck, os.path.join(vlib.OUT, "c12-tempo-%d" % ck.seed), 4 if quick else 12)
    mods = mods + tmods * max(1, len(mods) // (3 * len(tmods)))
    # position control must be able to cross between sequences (sub-songs): generated multi-sequence modules
    smods = subsong_modules(ck, os.path.join(vlib.OUT, "c12-subsong-%d" % ck.seed), 3 if quick else 8)
    mods = mods + smods * max(1, len(mods) // (5 * len(smods)))
    shards = [(exe, ck.seed * 7919 + i, per, maxhex, mods) for i in range(nshards)]
    results = vlib.pmap(run_shard, shards)
    stats = {"calls": 0, "ret_-1": 0, "zero_fill_end": 0, "resets": 0, "stops": 0, "boundary_crossing_calls": 0,
             "nonpositive_sizes": 0, "skipped_modules": 0, "cases_with_end": 0, "exhausted": 0,
             "sessions_after_restart": 0}
    for (rc, out, err), sh in zip(results, shards):
        if rc != 0:
            sig = vlib.sanitizer_signature(err)
            ck.violation("harness-abort:" + sig, {"cmd": [os.path.basename(exe)] + [str(x) for x in sh[1:4]] + sh[4],
                                                   "stderr": err[-3000:]},
                         "xmp_play_buffer harness aborted (rc=%d): %s" % (rc, sig))
            continue
        stats["skipped_modules"] += out.count("\nskip ")
        stats["reloads_after_invert_loop"] = stats.get("reloads_after_invert_loop", 0) + out.count("\nreload invloop")
        stats["position_control_calls_between_buffer_calls"] = (stats.get("position_control_calls_between_buffer_calls", 0)
                                                                + out.count("\nctl ") - out.count("\nctl skipped"))
        stats["refused_calls_between_buffer_calls"] = stats.get("refused_calls_between_buffer_calls", 0) + out.count("\nrefused ")
        cases = parse_cases(out)
        if not cases:
            continue
        model_out = vlib.run_driver("drv_c12", "\n".join("\n".join(c["script"]) for c in cases) + "\n") if ck.lean_ok else None
        mi = 0
        for c in cases:
            n = len(c["expect"])
            mo = model_out[mi:mi + n] if model_out is not None else None
            mi += n
            crossing = 0
            ended = False
            for e in c["expect"]:
                f = e.split(" ")
                stats["calls"] += 1
                if f[0] == "-1":
                    stats["ret_-1"] += 1
                    ended = True
                if f[1] != f[2]:
                    crossing += 1
            stats["boundary_crossing_calls"] += crossing
            stats["resets"] += sum(1 for o in c["ops"] if o[0] == 1)
            stats["stops"] += sum(1 for o in c["ops"] if o[0] == 2)
            stats["nonpositive_sizes"] += sum(1 for o in c["ops"] if o[0] == 0 and o[1] <= 0)
            stats["cases_with_end"] += 1 if ended else 0
            stats["sessions_after_restart"] += 0 if c["begin"].endswith("session=0") else 1
            key = vlib.hash_str(c["begin"] + repr(c["ops"]))
            ck.count(key, nontrivial=crossing > 0)
            ck.sample({"case": c["begin"], "ops": c["ops"][:12], "first_expect": [e[:60] for e in c["expect"][:3]]}, limit=4)
            # monitored hypothesis of C12_concat_seqstream: loop counts of the reference stream never decrease
            # (position-control calls in the script start a new segment: the counter may be reset there)
            marks = {int(l.rsplit("at=", 1)[1]) for l in c["script"] if l.startswith("ctl ") and "at=" in l}
            if any(a > b and (k + 1) not in marks for k, (a, b) in enumerate(zip(c["lcs"], c["lcs"][1:]))):
                ck.violation("seqstream:loop-count-decreases", dict(replay_info(sh, c), loop_counts=c["lcs"][:200]),
                             "the loop counter of consecutive xmp_play_frame calls decreased without a position-control call")
            stats["frames_in_reference_streams"] = stats.get("frames_in_reference_streams", 0) + len(c["lcs"])
            fails = [o for o in c["oracle"] if o.startswith("oracle_fail")]
            if fails:
                ck.violation("oracle:" + c["begin"].split()[2].split("/")[-1],
                             dict(replay_info(sh, c), oracle=fails[:5]),
                             "xmp_play_buffer output differs from the xmp_play_frame stream: " + fails[0])
                continue
            if mo is not None:
                for k, (e, m) in enumerate(zip(c["expect"], mo)):
                    if m == "exhausted":
                        stats["exhausted"] += 1
                        break
                    if e != m:
                        ck.unproved("correspondence PlayBuffer.playBuffer vs xmp_play_buffer",
                                    "case %s call #%d: real=%s model=%s ; replay: %s" % (
                                        c["begin"], k, e[:80], m[:80], " ".join(replay_info(sh, c)["args"][:4])))
                        break
                else:
                    ck.cov["traces_validated_against_impl"] += 1
    for k, v in stats.items():
        ck.note(k, v)
    ck.cov["rule"] = ("cases = player sessions (module, rate, format, loop limit, near-end start, random script of xmp_play_buffer sizes / "
                      "NULL resets / xmp_stop_module; 1-3 sessions per twin context pair with player restarts in between) generated from "
                      "VERIF_SEED; distinct by hash of the session; non-trivial = at least one call leaves a partially consumed frame "
                      "(chunk boundary inside a frame)")
    ck.assumptions += [
        "frame production (xmp_play_frame) is deterministic across two identical contexts (C06) and buffer_size > 0 (C16)",
        "the end is absorbing: after -XMP_END / loop limit every later xmp_play_frame also terminates (C16 loop counter monotone)",
    ]


def replay(ck, rp):
    exe = vlib.build_harness("c12_playbuffer", ["c12_playbuffer.c"])
    rc, out, err = vlib.run_exe(exe, rp["replay"]["args"])
    text = out.decode("latin-1")
    fails = [l for l in text.splitlines() if l.startswith("oracle_fail")]
    print("\n".join(l for l in text.splitlines() if not l.startswith(("frame ", "expect ")))[-3000:])
    print(err[-2000:])
    if rc != 0 or fails:
        print("VIOLATION property=C12 replay=%s" % "(replayed)")
        return 1
    return 0
