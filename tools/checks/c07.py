"""C07 — All four I/O entry points see the same module.

proof      : XmpProps.C07 over XmpModel.Stream (three back-end models + abstract Spec; all StreamProgs of the
             agreeing fragment run identically on FILE, memory and every legal callback set; exact divergence map)
tie (T)    : tools/gen_hio_users.py -> XmpModel/Gen/HioUsers.lean (who looks inside an HIO_HANDLE; hioUsers_known by decide)
tie (C)    : harness/c07_streamops.c runs random op sequences on the three REAL back-ends, drv_c07 runs the models on
             the same script; values, counts, buffers, positions, error class and eof flag are compared per op
search     : harness/c07_entrypoints.c: the property itself on corpus files (intact, truncated, bit-flipped,
             length fields inflated) across the four load and the four test entry points
"""
import hashlib
import json
import os
import re
import sys

import vlib

sys.path.insert(0, os.path.dirname(os.path.dirname(os.path.abspath(__file__))))

LEVEL = "proof"
MANIFEST = dict(
    category="proof",
    text="Lean 4 theorems (XmpProps.C07) over faithful models of the three hio back-ends (FILE/stdio, memory, user callbacks "
         "under an explicit fread/fseek contract incl. arbitrary internal chunking): C07_refines (each back-end refines the "
         "abstract stream Spec on the agreeing fragment), C07_programs (EVERY program over the hio_* operations that stays in "
         "the fragment computes the same result on FILE, memory and every legal callback set), C07_divergence (the complement "
         "is characterised exactly: every excluded state/operation has a proved distinguishing continuation; witnesses D1-D6), "
         "C07_same_core (the four load/test entry points hand the same program to the back-end; only the path fields differ). "
         "Tied to src/hio.c, dataio.c, memio.c, mdataio.h, callbackio.h on every run by a differential correspondence on the "
         "real back-ends (real temp file, memory, callbacks) and by a translator-generated list of code that looks inside a "
         "handle (hioUsers_known). A direct oracle compares return code, module digest, MD5, sequences and PCM across the four "
         "load and four test entry points on intact and damaged corpus files.",
    note="Partial: that no format loader's RESULT depends on the divergent operations (hio_eof before a short read, seeks beyond "
         "the end, read8s at end of data, partial items) is searched by the entry-point oracle, not proved; the ~110 loaders are "
         "not modelled. Trusted: Lean kernel, the hand-written models, glibc stdio behaviour as observed by the harness, the "
         "harness and differ. Callback legality (fread/fseek contract) is an explicit hypothesis.",
    technique="Lean 4 refinement proof (simulation relations, induction over the free monad of stream operations) + differential "
              "correspondence against the C back-ends + translator-checked premise + cross-entry-point oracle",
    design_ref="DESIGN.md section 4 C07",
)
REQUIRED = ["Xmp.Stream." + n for n in (
    "C07_refines", "C07_memCb_legal", "C07_programs", "C07_programs_memCb", "C07_divergence", "C07_divergence_read8s",
    "C07_divergence_tail", "C07_D1", "C07_D2", "C07_D3", "C07_D4", "C07_D5", "C07_D6", "C07_F14_pattern",
    "C07_same_core", "C07_entrypoints", "C07_entrypoints_test")]

SENT = "a5"


def tmpdir():
    d = os.path.join(vlib.build_repo("asan"), "c07tmp")
    os.makedirs(d, exist_ok=True)
    return d


# --------------------------------------------------------------------------
# stream-op correspondence
# --------------------------------------------------------------------------

def parse_stream_cases(text):
    """-> list of cases: dict(begin, ops=[dict(op, F, M, C)])"""
    cases, cur = [], None
    for line in text.splitlines():
        if line.startswith("begin "):
            cur = {"begin": line, "ops": []}
        elif cur is None:
            continue
        elif line.startswith("op "):
            cur["ops"].append({"op": line})
        elif line[:2] in ("F ", "M ", "C ", "S ") and cur["ops"]:
            cur["ops"][-1][line[0]] = line[2:]
        elif line == "end":
            cases.append(cur)
            cur = None
    return cases


def case_script(c):
    return c["begin"] + "\n" + "".join(o["op"] + "\n" for o in c["ops"]) + "end\n"


def norm_model(out, op):
    """Model output -> the harness's representation (rest-of-buffer padded with the sentinel)."""
    res, _, st = out.partition(" | ")
    f = res.split(" ")
    if f[0] == "d":
        o = op.split(" ")
        total = min(int(o[2]) * int(o[3]), 4096)
        ret, items, tail = int(f[1]), f[2], f[3]
        items = "" if items == "-" else items
        tail = "" if tail == "-" else tail
        rest_len = total - len(items) // 2
        rest = tail + SENT * (rest_len - len(tail) // 2)
        res = "d %d %s %s" % (ret, items or "-", rest or "-")
    return res + (" | " + st if st else "")


def spec_matches(spec, real, op):
    """Does a real back-end result agree with Spec's result (up to the Agree relaxations)?"""
    f = spec.split(" ")
    relax = f[-1]
    sres = " ".join(f[:-1])
    rres = real.partition(" | ")[0]
    if relax == "s8eof":
        return rres.startswith("v ")
    if relax == "tail":
        sf, rf = sres.split(" "), rres.split(" ")
        return sf[0] == rf[0] == "d" and sf[1] == rf[1] and sf[2] == rf[2]
    return sres == rres


def run_stream_shard(args):
    exe, seed, n, tmp, maxlen = args
    rc, out, err = vlib.run_exe(exe, [str(seed), str(n), tmp, str(maxlen)], timeout=1200)
    return rc, out.decode("latin-1"), err


def stream_correspondence(ck, stats):
    exe = vlib.build_harness("c07_streamops", ["c07_streamops.c"])
    quick = ck.tier == "quick"
    nshards = 16
    per = 250 if quick else 6000
    td = tmpdir()
    shards = [(exe, ck.seed * 104729 + i, per, os.path.join(td, "s%d-%d.bin" % (os.getpid(), i)), 24 if i % 2 else 64)
              for i in range(nshards)]
    results = vlib.pmap(run_stream_shard, shards)
    for (rc, out, err), sh in zip(results, shards):
        try:
            os.unlink(sh[3])
        except OSError:
            pass
        if rc != 0:
            sig = vlib.sanitizer_signature(err)
            ck.violation("streamops-abort:" + sig, {"cmd": [os.path.basename(exe)] + [str(x) for x in sh[1:]], "stderr": err[-3000:]},
                         "hio op sequence harness aborted (rc=%d): %s" % (rc, sig))
            continue
        cases = parse_stream_cases(out)
        if not cases or not ck.lean_ok:
            continue
        mlines = vlib.run_driver("drv_c07", "".join(case_script(c) for c in cases))
        mi = 0
        for c in cases:
            ok = True
            infrag = 0
            divergent_seen = False
            for k, o in enumerate(c["ops"]):
                m = {}
                for j in range(4):
                    ln = mlines[mi + j]
                    m[ln[0]] = ln[2:]
                mi += 4
                stats["ops"] += 1
                kind = o["op"].split(" ")[1]
                stats["op_" + kind] = stats.get("op_" + kind, 0) + 1
                if not ok:
                    continue
                for b in "FMC":
                    if norm_model(m[b], o["op"]) != o[b]:
                        ok = False
                        ck.unproved("correspondence Stream.%s.step vs real hio back-end" % {"F": "File", "M": "Mem", "C": "Cb"}[b],
                                    "op #%d `%s`: real=%s model=%s ; replay script:\n%s" % (
                                        k, o["op"], o[b][:200], norm_model(m[b], o["op"])[:200], case_script(c)))
                        break
                if not ok:
                    continue
                if m["S"] != "none":
                    infrag += 1
                    stats["ops_in_fragment"] += 1
                    bad = [b for b in "FMC" if not spec_matches(m["S"], o[b], o["op"])]
                    st = {o[b].partition(" | ")[2] for b in "FMC"}
                    # in the fragment the peeked states agree too, except the memory eof peek (pos = size)
                    if bad:
                        ok = False
                        # the REAL back-ends disagree inside the agreeing fragment: the property's premise fails on the code
                        ck.violation("stream:fragment-divergence:" + kind,
                                     {"how": "harness c07_streamops --replay <script file> <tmpfile>", "script": case_script(c)},
                                     "real back-ends %s differ from the abstract stream inside the agreeing fragment at op #%d `%s`: F=%s M=%s C=%s spec=%s"
                                     % (bad, k, o["op"], o["F"], o["M"], o["C"], m["S"]))
                    if m["S"].endswith("s8eof"):
                        stats["s8_at_eof"] += 1
                    if len(st) > 1:
                        pass
                else:
                    if len({o[b].partition(" | ")[0] for b in "FMC"}) > 1:
                        divergent_seen = True
            if divergent_seen:
                stats["cases_with_observed_divergence"] += 1
            if ok:
                ck.cov["traces_validated_against_impl"] += 1
            ck.count(vlib.hash_str(case_script(c)), nontrivial=infrag >= 3 and len(c["ops"]) >= 4)
            ck.sample({"case": c["begin"][:80], "ops": [o["op"] for o in c["ops"][:8]],
                       "F": [o["F"] for o in c["ops"][:3]]}, limit=3)


def run(ck):
    stats = {"ops": 0, "ops_in_fragment": 0, "s8_at_eof": 0, "cases_with_observed_divergence": 0}
    ck.proofs(["XmpProps.C07"], required=REQUIRED, drivers=["drv_c07"])
    stream_correspondence(ck, stats)
    for k, v in sorted(stats.items()):
        ck.note(k, v)
    ck.cov["rule"] = "TODO"


def replay(ck, rp):
    r = rp["replay"]
    if isinstance(r, dict) and "script" in r:
        exe = vlib.build_harness("c07_streamops", ["c07_streamops.c"])
        path = os.path.join(vlib.OUT, "c07-replay-script.txt")
        open(path, "w").write(r["script"])
        tmp = os.path.join(tmpdir(), "replay-%d.bin" % os.getpid())
        rc, out, err = vlib.run_exe(exe, ["--replay", path, tmp])
        text = out.decode("latin-1")
        print(text[-3000:])
        print(err[-2000:])
        mlines = vlib.run_driver("drv_c07", r["script"])
        print("\n".join(mlines[-40:]))
        return 1
    print(json.dumps(rp, indent=1)[:4000])
    return 1
