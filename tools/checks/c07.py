"""C07 — All four I/O entry points see the same module.

proof      : XmpProps.C07 over XmpModel.Stream (three back-end models + abstract Spec; all StreamProgs of the
             agreeing fragment run identically on FILE, memory and every legal callback set; exact divergence map)
tie (T)    : tools/gen_hio_users.py -> XmpModel/Gen/HioUsers.lean (who looks inside an HIO_HANDLE; hioUsers_known by decide)
tie (C)    : harness/c07_streamops.c runs random op sequences on the three REAL back-ends, drv_c07 runs the models on
             the same script; values, counts, buffers, positions, error class and eof flag are compared per op
search     : harness/c07_entrypoints.c: the property itself on corpus files (intact, truncated, bit-flipped,
             length fields inflated) across the four load and the four test entry points
"""
import hashlib
import json
import os
import re
import sys

import vlib

sys.path.insert(0, os.path.dirname(os.path.dirname(os.path.abspath(__file__))))

LEVEL = "proof"
MANIFEST = dict(
    category="proof",
    text="Lean 4 theorems (XmpProps.C07) over faithful models of the three hio back-ends (FILE/stdio, memory, user callbacks "
         "under an explicit fread/fseek contract incl. arbitrary internal chunking): C07_refines (each back-end refines the "
         "abstract stream Spec on the agreeing fragment), C07_programs (EVERY program over the hio_* operations that stays in "
         "the fragment computes the same result on FILE, memory and every legal callback set), C07_divergence (the complement "
         "is characterised exactly: every excluded state/operation has a proved distinguishing continuation; witnesses D2-D6; D1 = read8s at end of data was repaired in libxmp and is now the agreement lemma C07_read8s_agree), "
         "C07_same_core (the four load/test entry points hand the same program to the back-end; only the path fields differ). "
         "Tied to src/hio.c, dataio.c, memio.c, mdataio.h, callbackio.h on every run by a differential correspondence on the "
         "real back-ends (real temp file, memory, callbacks) and by a translator-generated list of code that looks inside a "
         "handle (hioUsers_known). A direct oracle compares return code, module digest, MD5, sequences and PCM across the four "
         "load and four test entry points on intact and damaged corpus files.",
    note="Partial: that no format loader's RESULT depends on the divergent operations (hio_eof before a short read, seeks beyond "
         "the end, partial items) is searched by the entry-point oracle, not proved; the ~110 loaders are "
         "not modelled. Trusted: Lean kernel, the hand-written models, glibc stdio behaviour as observed by the harness, the "
         "harness and differ. Callback legality (fread/fseek contract) is an explicit hypothesis.",
    technique="Lean 4 refinement proof (simulation relations, induction over the free monad of stream operations) + differential "
              "correspondence against the C back-ends + translator-checked premise + cross-entry-point oracle",
    design_ref="DESIGN.md section 4 C07",
)
REQUIRED = ["Xmp.Stream." + n for n in (
    "C07_refines", "C07_memCb_legal", "C07_programs", "C07_programs_memCb", "C07_divergence", "C07_read8s_agree",
    "C07_divergence_tail", "C07_D1_repaired", "C07_read8s_after_seek_past", "C07_D2", "C07_D3", "C07_D4", "C07_D5", "C07_D6", "C07_F14_pattern",
    "C07_eof_guarded", "C07_eof_defined_iff", "C07_eof_after_complete_read",
    "C07_same_core", "C07_entrypoints", "C07_entrypoints_test")]

SENT = "a5"


def tmpdir():
    d = os.path.join(vlib.build_repo("asan"), "c07tmp")
    os.makedirs(d, exist_ok=True)
    return d


# --------------------------------------------------------------------------
# stream-op correspondence
# --------------------------------------------------------------------------

def parse_stream_cases(text):
    """-> list of cases: dict(begin, ops=[dict(op, F, M, C)])"""
    cases, cur = [], None
    for line in text.splitlines():
        if line.startswith("begin "):
            cur = {"begin": line, "ops": []}
        elif cur is None:
            continue
        elif line.startswith("op "):
            cur["ops"].append({"op": line})
        elif line[:2] in ("F ", "M ", "C ", "S ") and cur["ops"]:
            cur["ops"][-1][line[0]] = line[2:]
        elif line == "end":
            cases.append(cur)
            cur = None
    return cases


def case_script(c):
    return c["begin"] + "\n" + "".join(o["op"] + "\n" for o in c["ops"]) + "end\n"


def norm_model(out, op):
    """Model output -> the harness's representation (rest-of-buffer padded with the sentinel)."""
    res, _, st = out.partition(" | ")
    f = res.split(" ")
    if f[0] == "d":
        o = op.split(" ")
        total = min(int(o[2]) * int(o[3]), 4096)
        ret, items, tail = int(f[1]), f[2], f[3]
        items = "" if items == "-" else items
        tail = "" if tail == "-" else tail
        rest_len = total - len(items) // 2
        rest = tail + SENT * (rest_len - len(tail) // 2)
        res = "d %d %s %s" % (ret, items or "-", rest or "-")
    return res + (" | " + st if st else "")


def spec_matches(spec, real, op):
    """Does a real back-end result agree with Spec's result (up to the Agree relaxations)?"""
    f = spec.split(" ")
    relax = f[-1]
    sres = " ".join(f[:-1])
    rres = real.partition(" | ")[0]
    if relax == "tail":
        sf, rf = sres.split(" "), rres.split(" ")
        return sf[0] == rf[0] == "d" and sf[1] == rf[1] and sf[2] == rf[2]
    return sres == rres


def run_stream_shard(args):
    exe, seed, n, tmp, maxlen = args
    rc, out, err = vlib.run_exe(exe, [str(seed), str(n), tmp, str(maxlen)], timeout=1200)
    return rc, out.decode("latin-1"), err


def stream_correspondence(ck, stats):
    exe = vlib.build_harness("c07_streamops", ["c07_streamops.c"])
    quick = ck.tier == "quick"
    nshards = 16
    per = 250 if quick else 20000
    td = tmpdir()
    shards = [(exe, ck.seed * 104729 + i, per, os.path.join(td, "s%d-%d.bin" % (os.getpid(), i)), 24 if i % 2 else 64)
              for i in range(nshards)]
    results = vlib.pmap(run_stream_shard, shards)
    for (rc, out, err), sh in zip(results, shards):
        try:
            os.unlink(sh[3])
        except OSError:
            pass
        if rc != 0:
            sig = vlib.sanitizer_signature(err)
            ck.violation("streamops-abort:" + sig, {"cmd": [os.path.basename(exe)] + [str(x) for x in sh[1:]], "stderr": err[-3000:]},
                         "hio op sequence harness aborted (rc=%d): %s" % (rc, sig))
            continue
        cases = parse_stream_cases(out)
        if not cases or not ck.lean_ok:
            continue
        mlines = vlib.run_driver("drv_c07", "".join(case_script(c) for c in cases))
        mi = 0
        for c in cases:
            ok = True
            infrag = 0
            divergent_seen = False
            for k, o in enumerate(c["ops"]):
                m = {}
                for j in range(4):
                    ln = mlines[mi + j]
                    m[ln[0]] = ln[2:]
                mi += 4
                stats["ops"] += 1
                kind = o["op"].split(" ")[1]
                stats["op_" + kind] = stats.get("op_" + kind, 0) + 1
                if not ok:
                    continue
                for b in "FMC":
                    if norm_model(m[b], o["op"]) != o[b]:
                        ok = False
                        ck.unproved("correspondence Stream.%s.step vs real hio back-end" % {"F": "File", "M": "Mem", "C": "Cb"}[b],
                                    "op #%d `%s`: real=%s model=%s ; replay script:\n%s" % (
                                        k, o["op"], o[b][:200], norm_model(m[b], o["op"])[:200], case_script(c)))
                        break
                if not ok:
                    continue
                if m["S"] != "none":
                    infrag += 1
                    stats["ops_in_fragment"] += 1
                    bad = [b for b in "FMC" if not spec_matches(m["S"], o[b], o["op"])]
                    st = {o[b].partition(" | ")[2] for b in "FMC"}
                    # in the fragment the peeked states agree too, except the memory eof peek (pos = size)
                    if bad:
                        ok = False
                        # the REAL back-ends disagree inside the agreeing fragment: the property's premise fails on the code
                        ck.violation("stream:fragment-divergence:" + kind,
                                     {"how": "harness c07_streamops --replay <script file> <tmpfile>", "script": case_script(c)},
                                     "real back-ends %s differ from the abstract stream inside the agreeing fragment at op #%d `%s`: F=%s M=%s C=%s spec=%s"
                                     % (bad, k, o["op"], o["F"], o["M"], o["C"], m["S"]))
                    if o["op"] == "op w 1" and o["M"].startswith("v -1 | 1"):
                        stats["s8_at_eof"] += 1
                    if len(st) > 1:
                        pass
                else:
                    if len({o[b].partition(" | ")[0] for b in "FMC"}) > 1:
                        divergent_seen = True
            if divergent_seen:
                stats["cases_with_observed_divergence"] += 1
            if ok:
                ck.cov["traces_validated_against_impl"] += 1
            ck.count(vlib.hash_str(case_script(c)), nontrivial=infrag >= 3 and len(c["ops"]) >= 4)
            ck.sample({"case": c["begin"][:80], "ops": [o["op"] for o in c["ops"][:8]],
                       "F": [o["F"] for o in c["ops"][:3]]}, limit=3)



# --------------------------------------------------------------------------
# entry-point oracle
# --------------------------------------------------------------------------

ASAN_DET = "detect_leaks=0:abort_on_error=0:allocator_may_return_null=1:max_malloc_fill_size=8388608:malloc_fill_byte=190"
ENTRIES = ("path", "file", "mem", "cb")
IDCHARS = set(b"ABCDEFGHIJKLMNOPQRSTUVWXYZ0123456789 ._-")


def find_length_fields(b, limit=65536):
    """Chunk-header heuristic: 4 id characters followed by a 32-bit length that fits the file.
    -> [(offset of the length field, 'big'|'little', value)]"""
    out = []
    n = len(b)
    for off in range(0, min(n, limit) - 8):
        cid = b[off:off + 4]
        if not all(c in IDCHARS for c in cid) or sum(1 for c in cid if 65 <= c <= 90) < 2:
            continue
        rem = n - (off + 8)
        for en in ("big", "little"):
            v = int.from_bytes(b[off + 4:off + 8], en)
            if 0 < v <= rem + 8:
                out.append((off + 4, en, v))
                break
    return out


def mutations(rng, b, n_mut, heavy):
    """-> list of (label, trunc, [(off, bytes)])"""
    n = len(b)
    muts = []
    fields = find_length_fields(b)
    pool = []
    # truncations at interesting offsets
    for k in (1, 2, 3, 4, 7, 8, 16, 20, 64, 100, 384, 1080, 1084):
        if k < n:
            pool.append(("trunc@%d" % k, k, []))
    for k in (1, 2, 3, 4, 8, 31):
        if n - k > 0:
            pool.append(("trunc@end-%d" % k, n - k, []))
    pool.append(("trunc@half", n // 2, []))
    for _ in range(3):
        pool.append(("trunc@rand", rng.randrange(1, n) if n > 1 else 1, []))
    for (off, en, v) in fields[:200]:
        hdr_end = off + 4
        for d in (0, 1, 2, v // 2, v - 1):
            t = hdr_end + d
            if 0 < t < n:
                pool.append(("trunc@chunk+%d" % d, t, []))
        pool.append(("trunc@chunk-hdr", off + 2, []))
    # bit flips, biased to the header
    for _ in range(6):
        off = rng.randrange(0, min(n, 2048)) if rng.random() < 0.7 else rng.randrange(0, n)
        pool.append(("flip@%d" % off, -1, [(off, bytes([b[off] ^ (1 << rng.randrange(8))]))]))
    # inflated length fields (feed SEEK_CUR / chunk loops): to the end exactly, beyond it, far beyond
    for (off, en, v) in fields[:200]:
        rem = n - (off + 4)
        for nv, lab in ((rem, "len=rest"), (rem + 1, "len=rest+1"), (rem + 64, "len=rest+64"), (rem - 1, "len=rest-1"),
                        (0x000fffff, "len=1M-1"), (0x7ffffff0, "len=huge"), (0xffffffff, "len=-1")):
            if nv >= 0:
                pool.append(("inflate@%d:%s" % (off, lab), -1, [(off, (nv & 0xffffffff).to_bytes(4, en))]))
    # generic 16/32-bit fields in the header set to extreme values
    for _ in range(4):
        off = rng.randrange(0, min(n, 1536))
        pool.append(("ff@%d" % off, -1, [(off, b"\xff" * rng.choice((1, 2, 4)))]))
    rng.shuffle(pool)
    # keep a mix: prefer chunk-derived ones when present
    chunky = [m for m in pool if "chunk" in m[0] or "inflate" in m[0]]
    rest = [m for m in pool if m not in chunky]
    k_ch = min(len(chunky), n_mut * (3 if heavy else 1) // 2)
    muts = chunky[:k_ch] + rest[:max(0, n_mut * (2 if heavy else 1) - k_ch)]
    return muts


# ---- synthetic LARGE ProWizard modules --------------------------------------------------------
# pw_check() (prowizard/prowiz.c) is one of the two places that look inside a handle: memory handles are
# tested in place, every other back-end through a 64 KiB buffer that grows on request (PW_REQUEST_DATA).
# Only modules larger than 64 KiB whose format test asks for more data past that point exercise the
# buffered path.  Layouts written from the depackers' own code (heatseek.c, mp.c).

PTK_PERIODS = [856, 808, 762, 720, 678, 640, 604, 570, 538, 508, 480, 453, 428, 404, 381, 360, 339, 320, 302, 285,
               269, 254, 240, 226, 214, 202, 190, 180, 170, 160, 151, 143, 135, 127, 120, 113]


def _ptk_event(rng, nins):
    """4-byte Protracker event with byte0 <= 3 (sample < 16), harmless effects only."""
    if rng.random() < 0.55:
        return bytes(4)
    per = rng.choice(PTK_PERIODS)
    ins = rng.randrange(1, min(nins, 15) + 1)
    fx, prm = rng.choice(((0, 0), (0xC, rng.randrange(0, 0x41)), (0xA, rng.randrange(0, 16)), (0, 0)))
    return bytes([per >> 8, per & 0xff, (ins << 4) | fx, prm])


def _hdr8(sample_lens, loop_words):
    """31 sample descriptions of 8 bytes: size(words) finetune volume loop-start(words) loop-size(words)."""
    h = bytearray()
    for i in range(31):
        ln = sample_lens[i] if i < len(sample_lens) else 0
        h += (ln // 2).to_bytes(2, "big") + bytes([0, 0x40 if ln else 0]) + (0).to_bytes(2, "big")
        h += (loop_words if ln else 0).to_bytes(2, "big")
    return h


def _order_table(rng, npat, length):
    order = list(range(npat))[:length]
    while len(order) < length:
        order.append(rng.randrange(npat))
    if npat - 1 not in order:
        order[-1] = npat - 1
    return bytes([length, 0x7f]) + bytes(order) + bytes(128 - len(order))


def gen_heatseeker(rng, npat, sample_lens, packed):
    """Heatseeker 1.0 (heatseek.c): 31x8 header, length, 0x7f, 128 orders, then per pattern and voice a
    track of 4-byte events with `80 00 00 n` = skip n rows and `c0 00 hh ll` = copy of track (hhll >> 2),
    then the sample data.  Sample loop size 0, so that the Module Protector test (same header, checked
    earlier) declines.  test_crb first asks for min(pattern upper bound, sample size) bytes and then, event
    by event, for more: with less sample data than pattern data it keeps requesting past 64 KiB."""
    out = bytearray(_hdr8(sample_lens, 0))
    out += _order_table(rng, npat, min(127, max(npat, 4)))
    assert len(out) == 378
    ntracks = 0
    for pat in range(npat):
        for voice in range(4):
            if packed and ntracks > 8 and rng.random() < 0.15:
                ref = rng.randrange(0, ntracks)
                out += bytes([0xC0, 0, ((ref * 4) >> 8) & 0xff, (ref * 4) & 0xff])
                ntracks += 1
                continue
            k = 0
            while k < 64:
                if packed and k < 60 and rng.random() < 0.12:
                    n = rng.randrange(1, min(8, 63 - k) + 1)
                    out += bytes([0x80, 0, 0, n])
                    k += n + 1
                else:
                    out += _ptk_event(rng, len(sample_lens))
                    k += 1
            ntracks += 1
    for ln in sample_lens:
        out += bytes(rng.randrange(256) for _ in range(ln))
    return bytes(out)


def gen_module_protector(rng, npat, sample_lens, with_id):
    """Module Protector (mp.c): ["TRK1"] 31x8 header (loop size 1 word), length, 0x7f, 128 orders, raw
    Protracker patterns, sample data.  The test asks once for all pattern data (up to 128 KiB)."""
    out = bytearray(b"TRK1" if with_id else b"")
    out += _hdr8(sample_lens, 1)
    length = min(120, max(npat, 4))
    out += _order_table(rng, npat, length)
    # depack_mp skips four zero bytes in front of the pattern data ("unknown empty bytes"): start with a note
    out += bytes([0x01, 0xAC, 0x10, 0x00])
    for _ in range(npat * 256 - 1):
        out += _ptk_event(rng, len(sample_lens))
    for ln in sample_lens:
        out += bytes(rng.randrange(256) for _ in range(ln))
    return bytes(out)


def synth_prowizard(td, seed, quick):
    """Deterministic in the seed; 70..400 KiB each."""
    import random
    rng = random.Random(seed * 7907 + 13)
    d = os.path.join(td, "synth")
    os.makedirs(d, exist_ok=True)
    specs = [
        # name, generator, args        (sample sizes even, <= 65534)
        ("crb-progressive", gen_heatseeker, (rng.randrange(96, 121), [30000, 24000, 16000], False)),
        ("crb-packed", gen_heatseeker, (rng.randrange(100, 128), [28000, 2000 * rng.randrange(8, 20), 12000], True)),
        ("crb-bigsamples", gen_heatseeker, (rng.randrange(70, 100), [65534, 65534, 60000, 40000], True)),
        ("mp-noid", gen_module_protector, (rng.randrange(90, 128), [40000, 30000, 20000], False)),
        ("mp-trk1", gen_module_protector, (rng.randrange(100, 128), [65534, 65534, 50000], True)),
    ]
    if not quick:
        for k in range(6):
            lens = [2 * rng.randrange(1000, 32767) for _ in range(rng.randrange(2, 7))]
            specs.append(("crb-r%d" % k, gen_heatseeker, (rng.randrange(66, 128), lens, rng.random() < 0.6)))
            lens = [2 * rng.randrange(1000, 32767) for _ in range(rng.randrange(2, 7))]
            specs.append(("mp-r%d" % k, gen_module_protector, (rng.randrange(66, 128), lens, rng.random() < 0.5)))
    out = []
    for name, fn, args in specs:
        b = fn(rng, *args)
        # the file name keeps the xxx.yyy shape some loaders look at
        pth = os.path.join(d, "pwz.%s" % name)
        open(pth, "wb").write(b)
        out.append(pth)
    return out


def enlarge_mutation(rng, b):
    """Generic enlargement for formats with a plain sample table: raise the length field of the last
    non-empty sample and append as much sample data.  Two layouts: Protracker-style header (31 records of
    30 bytes at offset 20, length at +22) and the 8-byte records at offset 0 (or 4, after an id) used by
    several packers.  -> (label, edits) or None."""
    n = len(b)
    for base, rec, lenoff, cnt, lab in ((20, 30, 22, 31, "ptk"), (0, 8, 0, 31, "hdr8"), (4, 8, 0, 31, "hdr8+4")):
        if n < base + rec * cnt + 130:
            continue
        lens = [int.from_bytes(b[base + i * rec + lenoff: base + i * rec + lenoff + 2], "big") for i in range(cnt)]
        total = 2 * sum(lens)
        if total == 0 or total > n or any(l > 0x8000 for l in lens):
            continue
        last = max(i for i in range(cnt) if lens[i])
        room = 0x7fff - lens[last]
        if room < 64:
            continue
        add = rng.randrange(32, min(room, 0x6000) + 1)
        off = base + last * rec + lenoff
        data = bytes(rng.randrange(256) for _ in range(2 * add))
        return ("enlarge:%s" % lab, [(off, (lens[last] + add).to_bytes(2, "big")), (n, data)])
    return None


def synth_files(td):
    """Inputs derived from the divergence map (DESIGN 4 C07): MUSX file whose last chunk claims more
    bytes than remain (arch_test loops on hio_eof and skips with SEEK_CUR)."""
    d = os.path.join(td, "synth")
    os.makedirs(d, exist_ok=True)
    out = []
    musx = b"MUSX" + (128).to_bytes(4, "little") + b"TINF" + (200).to_bytes(4, "little") + bytes(120)
    p = os.path.join(d, "musx-trunc-chunk.musx")
    open(p, "wb").write(musx)
    out.append(p)
    musx2 = b"MUSX" + (128).to_bytes(4, "little") + b"TINF" + (120).to_bytes(4, "little") + bytes(120)
    p = os.path.join(d, "musx-exact-chunk.musx")
    open(p, "wb").write(musx2)
    out.append(p)
    return out


# witnesses of repaired findings, kept as fixed cases of the entry-point oracle:
# (corpus file relative to test-dev/data, truncation, [(offset, xor mask)])
REGRESSIONS = [
    ("stereo.med", -1, [(636, 0x10)]),          # entry:mmd3:load-tables: read8s at end of data (track pans) 0 vs -1
    ("alf.abk", -4, []),                        # entry:abk:load-*: hio_eof after a complete read (trunc = size-4)
    ("alf.abk", -8, []),
    ("IMS.beast-busters1.st", 1084, []),        # entry:ims:uninit-load
    ("load_mfp_truncated.mfp", -1, []),         # entry:mfp:file-handle
]


def regression_cases():
    out = []
    by_name = {}
    for f in vlib.corpus_files():
        by_name.setdefault(os.path.basename(f), f)
    for k, (name, trunc, xors) in enumerate(REGRESSIONS):
        src = by_name.get(name)
        if not src:
            continue
        b = open(src, "rb").read()
        t = trunc if trunc >= -1 else len(b) + trunc
        edits = [(off, bytes([b[off] ^ m])) for off, m in xors if off < len(b)]
        out.append(("reg%d" % k, src, t, edits, "regression:%s" % name))
    return out


def edit_token(off, bs):
    """overwrite (bytes / hex string) or removal (int count) in the harness's case syntax"""
    if isinstance(bs, int):
        return "\td%d:%d" % (off, bs)
    return "\t%d:%s" % (off, bs.hex() if isinstance(bs, (bytes, bytearray)) else bs)


def edits_json(edits):
    return [[o, bs if isinstance(bs, int) else bs.hex()] for o, bs in edits]


def parse_entry_output(text):
    cases, cur = {}, None
    order = []
    for line in text.splitlines():
        f = line.split(" ")
        if f[0] == "begin":
            cur = {"id": f[1], "meta": dict(x.split("=") for x in f[2:]), "L": {}, "T": {}, "done": False}
            cases[f[1]] = cur
            order.append(f[1])
        elif cur is None:
            continue
        elif f[0] in ("L", "T") and len(f) >= 3:
            i = f.index([x for x in f if x.startswith("opens=")][0])
            cur[f[0]][f[1]] = {"res": tuple(f[2:i]), "opens": int(f[i][6:]), "first": bytes.fromhex(f[i + 1]).decode("latin-1") if f[i + 1] != "-" else ""}
        elif f[0] == "P" and len(f) == 3:
            cur["meta"]["past" + f[1]] = f[2]
        elif f[0] == "end":
            cur["done"] = True
            cur = None
    return cases, order


def hexstr(h):
    return bytes.fromhex(h).decode("latin-1") if h and h != "-" else ""


def run_entry_cases(ck, exe, td, cases, nframes, tag):
    """cases: list of (id, src, trunc, edits).  Runs them sharded; survives harness aborts.
    -> dict id -> parsed result, list of (id, abort signature, stderr)"""
    shards = [cases[i::vlib.NCPU] for i in range(vlib.NCPU)]
    shards = [s for s in shards if s]

    def work(args):
        si, items = args
        res, aborts = {}, []
        sdir = os.path.join(td, "%s-%d-%d" % (tag, os.getpid(), si))
        os.makedirs(sdir, exist_ok=True)
        todo = list(items)
        while todo:
            cf = os.path.join(sdir, "cases.txt")
            with open(cf, "w") as o:
                for (cid, src, trunc, edits) in todo:
                    o.write("case\t%s\t%s\t%d\t%d%s\n" % (cid, src, trunc, len(edits),
                                                         "".join(edit_token(off, bs) for off, bs in edits)))
            rc, out, err = vlib.run_exe(exe, [str(ck.seed), sdir, cf, str(nframes)], timeout=900,
                                        env={"ASAN_OPTIONS": ASAN_DET})
            parsed, order = parse_entry_output(out.decode("latin-1"))
            done_ids = {k for k, v in parsed.items() if v["done"]}
            res.update({k: parsed[k] for k in done_ids})
            if rc == 0:
                break
            # the case being run when the harness died
            started = [k for k in order if k not in done_ids]
            ids = [c[0] for c in todo]
            if started:
                bad = started[0]
            else:
                skipped = set(re.findall(r"^skip (\S+)", out.decode("latin-1"), re.M))
                rest = [i for i in ids if i not in done_ids and i not in skipped]
                bad = rest[0] if rest else None
            if bad is None:
                break
            aborts.append((bad, "hang" if rc == -999 else vlib.sanitizer_signature(err), err[-2500:]))
            todo = todo[ids.index(bad) + 1:]
        for f in os.listdir(sdir):
            try:
                os.unlink(os.path.join(sdir, f))
            except OSError:
                pass
        try:
            os.rmdir(sdir)
        except OSError:
            pass
        return res, aborts

    allres, allab = {}, []
    for res, ab in vlib.pmap(work, list(enumerate(shards))):
        allres.update(res)
        allab += ab
    return allres, allab


_file_cache = {}


def materialize(src, trunc, edits):
    """the byte string of a case, as the harness builds it"""
    b = _file_cache.get(src)
    if b is None:
        try:
            b = open(src, "rb").read()
        except OSError:
            return None
        if len(_file_cache) > 64:
            _file_cache.clear()
        _file_cache[src] = b
    if edits:
        b = bytearray(b)
        for off, bs in edits:
            if isinstance(bs, int):
                if off + bs <= len(b):
                    del b[off:off + bs]
                continue
            if isinstance(bs, str):
                bs = bytes.fromhex(bs)
            if off + len(bs) > len(b):
                b += bytes(off + len(bs) - len(b))
            b[off:off + len(bs)] = bs
        b = bytes(b)
    if 0 <= trunc < len(b):
        b = b[:trunc]
    return b


def judge(r, gen, doc="?"):
    """The property on one case.  `doc`: what the documented container signatures say about the bytes
    (c07_layouts.documented_container: a name, None = plain file, "?" = not decidable from a signature).
    -> list of (kind, detail) disagreements, fmt id, class info."""
    container = r["meta"].get("container") in ("1", "2")
    external = r["meta"].get("container") == "2"     # MO3 / Rar: unpacked by a helper that needs a file name
    pre = []
    if doc is None and container:
        # a PLAIN file is treated as a container by the entry points that unpack: not the documented exception
        pre.append(("container-false-positive", "the bytes carry no documented container signature, yet libxmp_decrunch takes them "
                    "for a container (path load %s, path test %s)" % (r["L"].get("path", {}).get("res", ["?"])[0],
                                                                      r["T"].get("path", {}).get("res", ["?"])[0])))
        container = external = False
    elif doc not in (None, "?") and not container:
        pre.append(("container-missed", "documented %s signature, but libxmp_decrunch does not treat the file as a container" % doc))
        container, external = True, doc == "external"
    types = [hexstr(v["res"][-1]) for v in r["L"].values() if v["res"][0] == "0"] + \
            [hexstr(v["res"][2]) for v in r["T"].values() if v["res"][0] == "0"]
    ttypes = [hexstr(v["res"][2]) for v in r["T"].values() if v["res"][0] == "0" and len(v["res"]) > 2]
    fmt_file, fmt_id = None, "unknown"
    for t in ttypes + types:
        if t in gen["formats"]:
            fmt_file, fmt_id = gen["formats"][t]
            break
    multi = fmt_file in gen["companion_files"]
    problems = list(pre)
    # results that change with the fill byte of the (uninitialised) stack are not a back-end matter
    uninit_l = "mem2" in r["L"] and "mem" in r["L"] and r["L"]["mem2"]["res"] != r["L"]["mem"]["res"]
    uninit_t = "mem2" in r["T"] and "mem" in r["T"] and r["T"]["mem2"]["res"] != r["T"]["mem"]["res"]
    if uninit_l:
        problems.append(("uninit-load", "memory load twice over differently filled stacks: %s vs %s" % (
            " ".join(r["L"]["mem"]["res"])[:90], " ".join(r["L"]["mem2"]["res"])[:90])))
    if uninit_t:
        a, b2 = r["T"]["mem"]["res"], r["T"]["mem2"]["res"]
        problems.append(("uninit-title", "memory test twice over differently filled stacks: (%s,%r) vs (%s,%r)" % (
            a[0], hexstr(a[1]), b2[0], hexstr(b2[1]))))
    lgroups = [["file", "mem", "cb"]] if (container or multi) else [list(ENTRIES)]
    tgroups = [["file", "mem", "cb"]] if external else [["path", "file"], ["mem", "cb"]] if container else [list(ENTRIES)]
    names = ("rc", "tables", "md5", "sequences", "pcm", "type")
    for g in ([] if uninit_l else lgroups):
        vals = {e: r["L"][e]["res"] for e in g if e in r["L"]}
        if len(set(vals.values())) > 1:
            ref = vals[g[0]]
            for e in g[1:]:
                if vals[e] != ref:
                    if len(vals[e]) != len(ref) or vals[e][0] != ref[0]:
                        what = "rc"
                    else:
                        what = [names[i] for i in range(len(ref)) if vals[e][i] != ref[i]][0]
                    problems.append(("load-" + what, "load %s=%s vs %s=%s" % (g[0], " ".join(ref)[:90], e, " ".join(vals[e])[:90])))
                    break
    for g in ([] if uninit_t else tgroups):
        vals = {e: r["T"][e]["res"] for e in g if e in r["T"]}
        if len(set(vals.values())) > 1:
            ref = vals[g[0]]
            for e in g[1:]:
                if vals[e] != ref:
                    what = "rc" if vals[e][0] != ref[0] else ("title" if vals[e][1] != ref[1] else "type")
                    problems.append(("test-" + what, "test %s=(%s,%r,%r) vs %s=(%s,%r,%r)" % (
                        g[0], ref[0], hexstr(ref[1]), hexstr(ref[2]), e, vals[e][0], hexstr(vals[e][1]), hexstr(vals[e][2]))))
                    break
    # every kind of FILE the C library can produce for these bytes must behave like the fopen()ed regular file
    # (cookie stream without a descriptor, fmemopen, freshly written unflushed "w+" stream with and without rewind).
    # fmemopen refuses seeks beyond the end: it is compared only when the cookie run saw no such seek.
    for which, names in (("L", ("rc", "tables", "md5", "sequences", "pcm", "type")), ("T", ("rc", "title", "type"))):
        if (which == "L" and uninit_l) or (which == "T" and uninit_t) or "file" not in r[which]:
            continue
        ref = r[which]["file"]["res"]
        for kd in ("fck", "fmem", "ftmp", "ftmpr"):
            if kd not in r[which]:
                continue
            if kd == "fmem" and r["meta"].get("past" + which) != "0":
                continue
            got = r[which][kd]["res"]
            if got != ref:
                what = "rc" if (len(got) != len(ref) or got[0] != ref[0]) else [names[i] for i in range(len(ref)) if got[i] != ref[i]][0]
                problems.append(("stream-%s-%s" % (kd, ("load-" if which == "L" else "test-") + what),
                                 "%s through a %s stream = %s, through an fopen()ed file = %s" % (
                                     "load" if which == "L" else "test",
                                     {"fck": "fopencookie (no descriptor)", "fmem": "fmemopen (no descriptor)",
                                      "ftmp": "just-written, unflushed w+", "ftmpr": "just-written, rewound w+"}[kd],
                                     " ".join(got)[:80], " ".join(ref)[:80])))
    # companion files are resolved only for path loads; tests never open anything (FILE/path tests of
    # containers write a temp file)
    for e in ("file", "mem", "cb"):
        if e in r["L"] and r["L"][e]["opens"] > 0:
            first = r["L"][e]["first"]
            problems.append(("null-path" if "(null)" in first else "companion-open",
                             "load via %s opened %r (%d opens) although no path is known" % (e, first, r["L"][e]["opens"])))
            break
    for e in ENTRIES:
        if e in r["T"] and r["T"][e]["opens"] > 0 and not (container and e in ("path", "file")):
            if e == "path" and r["T"][e]["opens"] == 1:
                continue        # hio_open of the tested file itself
            problems.append(("test-open", "test via %s opened %r" % (e, r["T"][e]["first"])))
            break
    return problems, fmt_id, fmt_file, container, multi


def signature_for(kind, fmt_id, fmt_file, gen):
    handle_users = {u["file"] for u in gen["hio_users"] if u["kind"] == "handleType"}
    if fmt_file in handle_users and kind in ("load-rc", "test-rc", "load-type", "test-type"):
        return "entry:%s:file-handle" % fmt_id
    if kind.startswith("stream-"):
        # a property of the FILE entry points, not of a format: one signature per stream kind and observable
        return "stream:" + kind[len("stream-"):].replace("-", ":", 1)
    if kind == "null-path":
        return "entry:%s:null-path" % fmt_id
    return "entry:%s:%s" % (fmt_id, kind)


def entrypoint_oracle(ck, gen, stats):
    exe = vlib.build_harness("c07_entrypoints", ["c07_entrypoints.c"], extra=["-Wl,--wrap=fopen,--wrap=opendir"])
    quick = ck.tier == "quick"
    td = tmpdir()
    files = [f for f in vlib.corpus_files() if os.path.getsize(f) <= (600000 if quick else 4000000)]
    synth = synth_files(td) + synth_prowizard(td, ck.seed, quick)
    # layout-controlled modules: each section in turn stored last, ending at the last byte (c07_layouts.py)
    import c07_layouts
    sdir = os.path.join(td, "synth")
    lay_last = {}
    for name, b, last in c07_layouts.layouts():
        pth = os.path.join(sdir, "lay." + name)
        open(pth, "wb").write(b)
        synth.append(pth)
        lay_last[pth] = last
    sweep = []
    for name, b in c07_layouts.sweep_modules():
        pth = os.path.join(sdir, "lay." + name)
        open(pth, "wb").write(b)
        sweep.append((pth, len(b)))
    stats["synthetic_inputs"] = len(synth)
    stats["layout_modules"] = len(lay_last)
    base = [("b%d" % i, f, -1, []) for i, f in enumerate(synth + files)]
    src_of = {c[0]: c for c in base}
    nframes = 3 if quick else 8
    res, aborts = run_entry_cases(ck, exe, td, base, nframes, "base")
    stats["entry_files"] = len(base)
    # second round: mutations of single-file, uncompressed, recognised inputs; loaders that use divergent ops first
    hot = set(gen["eof_files"]) | set(gen["read8s_files"]) | set(gen["iff_files"]) | {f for f in gen.get("var_size_read_files", [])}
    warm = set(gen["data_seek_files"])
    cand = []
    for cid, r in res.items():
        problems, fmt_id, fmt_file, container, multi = judge(r, gen)
        if container:
            stats["containers"] += 1
            continue
        recognised = any(v["res"][0] == "0" for v in r["T"].values())
        if not recognised:
            stats["unrecognised"] += 1
            continue
        pri = 0 if fmt_file in hot else 1 if fmt_file in warm else 2
        cand.append((pri, cid, fmt_file))
    cand.sort()
    n_files = len(cand) if not quick else min(len(cand), 220)
    if quick:
        # all hot ones, then a seeded sample of the rest
        hot_c = [c for c in cand if c[0] == 0]
        rest = [c for c in cand if c[0] != 0]
        ck.rng.shuffle(rest)
        cand = hot_c + rest[:max(0, n_files - len(hot_c))]
    mut_cases = []
    for pri, cid, fmt_file in cand:
        src = src_of[cid][1]
        b = open(src, "rb").read()
        if not b:
            continue
        n_mut = (10 if pri == 0 else 5) if quick else (120 if pri == 0 else 50)
        muts = mutations(ck.rng, b, n_mut, pri == 0)
        for _ in range(1 if quick else 3):
            en = enlarge_mutation(ck.rng, b)
            if en:
                muts.append((en[0], -1, en[1]))
        if fmt_file in gen["iff_files"] or fmt_file in ("loaders/med4_load.c",):
            for lab, edits in c07_layouts.append_empty_chunk(b):
                muts.append((lab, -1, edits))
            # lengths of 0 (and other small values) in every length-prefixed chunk, nested ones included
            small = len(b) <= 100000
            for lab, edits in c07_layouts.zero_length_variants(ck.rng, b, (120 if small else 6) if quick else (400 if small else 40)):
                muts.append((lab, -1, edits))
        if src in synth and len(b) > 65536:
            # large synthetic modules: also damage them around the 64 KiB buffer boundary and near the end
            for t in (65535, 65536, 65537, 69632, len(b) - 1, len(b) - 4097, (len(b) + 65536) // 2):
                if 0 < t < len(b):
                    muts.append(("trunc@big%d" % t, t, []))
            for _ in range(4):
                off = ck.rng.randrange(65536, len(b))
                muts.append(("flip@big", -1, [(off, bytes([b[off] ^ (1 << ck.rng.randrange(8))]))]))
        for k, (label, trunc, edits) in enumerate(muts):
            mid = "%s.m%d" % (cid, k)
            mut_cases.append((mid, src, trunc, edits))
            src_of[mid] = (mid, src, trunc, edits, label)
    # container signatures planted over the title of plain modules (C11's table, read-only): exact hits follow the
    # documented exceptions, certified near misses must agree through all eight entry points
    try:
        import importlib
        plants = importlib.import_module("checks.c11").SIG_PLANTS
    except Exception as ex:         # the table is C11's: without it this part is skipped, and said so
        plants = []
        ck.note("signature_plants_unavailable", str(ex)[:200])
    plant_bases = [p for p in synth if os.path.basename(p) in ("lay.mod.samples-last", "lay.s3m.ins-pat-smp")]
    small_mods = sorted((f for f in files if f.lower().endswith((".mod", ".stm", ".s3m")) and 2000 < os.path.getsize(f) < 60000),
                        key=lambda f: (os.path.getsize(f), f))[:3]
    for bi, pth in enumerate(plant_bases + small_mods):
        b0 = open(pth, "rb").read()
        for pi, (cont, kind, ops) in enumerate(plants):
            pb = c07_layouts.apply_plant(b0, ops)
            edits = [(i, pb[i:i + 1]) for i in range(min(len(b0), 64)) if pb[i] != b0[i]]
            mid = "sig%d.%d" % (bi, pi)
            mut_cases.append((mid, pth, -1, edits))
            src_of[mid] = (mid, pth, -1, edits, "plant:%s:%s" % (cont, kind), kind)
    stats["signature_plants"] = len(plants) * len(plant_bases + small_mods)
    # every-byte truncation sweep of one small module per core format (all eight entry points at every prefix)
    for si, (pth, n) in enumerate(sweep):
        for t in range(1, n):
            mid = "sw%d.%d" % (si, t)
            mut_cases.append((mid, pth, t, []))
            src_of[mid] = (mid, pth, t, [], "sweep@%d" % t)
        stats["sweep_prefixes"] = stats.get("sweep_prefixes", 0) + n - 1
    for c in regression_cases():
        mut_cases.append(c[:4])
        src_of[c[0]] = c
    res2, aborts2 = run_entry_cases(ck, exe, td, mut_cases, nframes, "mut")
    res.update(res2)
    aborts += aborts2
    for (cid, sig, err) in aborts:
        c = src_of[cid]
        ck.violation("entrypoints-abort:" + sig, {"kind": "entry", "case": list(c[:4]), "stderr": err},
                     "entry-point harness aborted on %s (%s): %s" % (os.path.basename(c[1]), c[4] if len(c) > 4 else "intact", sig))
        stats["entry_aborts"] += 1
    for cid, r in sorted(res.items()):
        if cid not in src_of:
            raise vlib.InfraError("entry-point harness reported an unknown case id %r" % cid)
        c = src_of[cid]
        cb = materialize(c[1], c[2], c[3])
        doc = c07_layouts.documented_container(cb) if cb is not None else "?"
        if len(c) > 5 and c[5] == "miss":
            doc = None          # certified near miss (C11's table): no container whatever the code says
        problems, fmt_id, fmt_file, container, multi = judge(r, gen, doc)
        if doc is None:
            stats["plain_by_documented_signature"] = stats.get("plain_by_documented_signature", 0) + 1
        rcs = tuple(r["L"][e]["res"][0] for e in ENTRIES if e in r["L"])
        stats["entry_cases"] += 1
        stats["rc_" + (rcs[1] if len(rcs) > 1 else "?")] = stats.get("rc_" + (rcs[1] if len(rcs) > 1 else "?"), 0) + 1
        if container:
            stats["entry_container_cases"] += 1
        if multi:
            stats["entry_multifile_cases"] += 1
        label = c[4] if len(c) > 4 else "intact"
        stats["mut_" + label.split("@")[0].split(":")[0]] = stats.get("mut_" + label.split("@")[0].split(":")[0], 0) + 1
        loaded = "0" in rcs
        ck.count(cid + ":" + label, nontrivial=(label != "intact") and any(
            v["res"][0] == "0" for v in r["T"].values()))
        if loaded:
            stats["entry_loaded"] += 1
        for kind, detail in problems:
            sig = signature_for(kind, fmt_id, fmt_file, gen)
            ck.violation(sig, {"kind": "entry", "case": [c[0], c[1], c[2], edits_json(c[3])],
                               "mutation": label, "format": fmt_id},
                         "%s [%s %s, %d bytes]: %s" % (sig, os.path.basename(c[1]), label, int(r["meta"]["size"]), detail))
            stats["entry_disagreements"] += 1
        if len(ck.cov["samples"]) < 6 and label != "intact" and loaded:
            ck.sample({"file": os.path.basename(c[1]), "mutation": label, "load": {e: " ".join(r["L"][e]["res"])[:60] for e in r["L"]}}, limit=6)


# the witnesses of C07_D1..D6 / C07_F14_pattern (XmpProps/C07.lean), replayed on the REAL back-ends:
# (bytes hex, policy "sp pt chunk", ops, expected value column per back-end)
WITNESSES = [
    ("D1_repaired", "01", "0 1 0", ["w 0", "w 1"], {"F": ["v 1", "v -1"], "M": ["v 1", "v -1"], "C": ["v 1", "v -1"]}),
    ("read8s_after_seek_past", "0102", "0 1 0", ["seek 9 0", "w 1"], {"F": ["v 0", "v -1"], "M": ["v 0", "v -1"], "C": ["v 0", "v -1"]}),
    ("D2", "0102", "0 1 0", ["seek 5 0", "tell"], {"F": ["v 0", "v 5"], "M": ["v 0", "v 2"], "C": ["v 0", "v 5"]}),
    ("D2-clamp", "0102", "1 1 0", ["seek 5 0", "tell"], {"C": ["v 0", "v 2"]}),
    ("D2-fail", "0102", "2 1 0", ["seek 5 0", "tell"], {"C": ["v -1", "v 0"]}),
    ("D3", "0102", "0 1 0", ["seek 0 2", "eof"], {"F": ["v 0", "v 0"], "M": ["v 0", "v 1"], "C": ["v 0", "v 0"]}),
    ("D3-read", "0102", "0 1 0", ["w 2", "eof"], {"F": ["v 513", "v 0"], "M": ["v 513", "v 1"]}),
    ("eof_after_complete_read", "0007", "0 1 0", ["w 3", "eof"], {"F": ["v 7", "v 0"], "M": ["v 7", "v 1"], "C": ["v 7", "v 0"]}),
    ("D4", "0102", "0 1 0", ["read 0 3", "seek 0 0", "error"], {"F": ["d 0 - -", "v 0", "v 1"], "M": ["d 0 - -", "v 0", "v 0"], "C": ["d 0 - -", "v 0", "v 0"]}),
    ("D5-read0", "01", "0 1 0", ["w 2", "read 1 0", "eof"], {"F": ["v 65535", "d 0 - -", "v 1"], "C": ["v 65535", "d 0 - -", "v 0"]}),
    ("D5-seek", "01", "0 1 0", ["w 2", "seek -1 0", "eof"], {"F": ["v 65535", "v -1", "v 1"], "C": ["v 65535", "v -1", "v 0"]}),
    ("D6", "010203", "0 0 0", ["read 2 2"], {"F": ["d 1 0102 03a5"], "M": ["d 1 0102 03a5"], "C": ["d 1 0102 a5a5"]}),
    ("F14", "000000010900000007", "0 1 0", ["w 7", "w 6", "seek 9 1", "eof", "w 7"],
     {"F": ["v 1", "v 9", "v 0", "v 0", "v 4294967295"], "M": ["v 1", "v 9", "v 0", "v 1", "v 4294967295"]}),
]


def witness_replay(ck, stats):
    exe = vlib.build_harness("c07_streamops", ["c07_streamops.c"])
    script = "".join("begin %s %s\n%send\n" % (b, pol, "".join("op %s\n" % o for o in ops)) for (_, b, pol, ops, _) in WITNESSES)
    path = os.path.join(vlib.OUT, "c07-witnesses.txt")
    open(path, "w").write(script)
    tmp = os.path.join(tmpdir(), "wit-%d.bin" % os.getpid())
    rc, out, err = vlib.run_exe(exe, ["--replay", path, tmp])
    try:
        os.unlink(tmp)
    except OSError:
        pass
    cases = parse_stream_cases(out.decode("latin-1"))
    if rc != 0 or len(cases) != len(WITNESSES):
        ck.unproved("witness replay", "harness rc=%d, %d of %d witness scripts ran: %s" % (rc, len(cases), len(WITNESSES), err[-300:]))
        return
    for (name, b, pol, ops, exp), c in zip(WITNESSES, cases):
        for be, vals in exp.items():
            got = [o[be].partition(" | ")[0] for o in c["ops"]]
            if got != vals:
                # the proved divergence witness does not behave on the real back-end as in the theorem
                ck.unproved("witness C07_%s on the real %s back-end" % (name, be), "expected %s, real %s" % (vals, got))
            else:
                stats["witnesses_confirmed_on_real_code"] += 1


def core_correspondence(ck, stats):
    """load.c wrappers + load_module/test_module over a recording loader vs the model's
    Entry.pathInfo / Entry.backend / loadModule / testModule."""
    exe = vlib.build_harness("c07_core", ["c07_core.c"])
    n = 150 if ck.tier == "quick" else 3000
    wd = os.path.join(tmpdir(), "core-%d" % os.getpid())
    rc, out, err = vlib.run_exe(exe, [str(ck.seed), wd, str(n)], timeout=600)
    import shutil
    shutil.rmtree(wd, ignore_errors=True)
    if rc != 0:
        sig = vlib.sanitizer_signature(err)
        ck.violation("core-abort:" + sig, {"cmd": ["c07_core", str(ck.seed), "<workdir>", str(n)], "stderr": err[-3000:]},
                     "load.c core harness aborted: " + sig)
        return
    text = out.decode("latin-1")
    blocks, cur = [], None
    for line in text.splitlines():
        if line.startswith("core "):
            cur = [line]
            blocks.append(cur)
        elif cur is not None:
            cur.append(line)
    if not ck.lean_ok:
        return
    mlines = vlib.run_driver("drv_c07", "".join(b[0] + "\n" for b in blocks))
    mi = 0
    for b in blocks:
        # the model prints exactly the lines the real run should have printed
        real = b[1:]
        k = 0
        model = []
        while len(model) < len(real) and mi + k < len(mlines):
            model.append(mlines[mi + k])
            k += 1
            if model[-1].startswith("T 3 "):
                break
        mi += k
        stats["core_cases"] += 1
        stats["core_seen_lines"] += sum(1 for l in real if l.startswith("seen "))
        # the real test type is "rec"; entry points must not matter (property on the real core)
        lrc = {l.split()[1]: l.split()[2] for l in real if l.startswith("L ")}
        seen = {l.split()[1]: l.split(" ", 2)[2] for l in real if l.startswith("seen ")}
        if len(set(lrc.values())) > 1:
            ck.violation("core:load-rc", {"kind": "core", "block": b},
                         "the same bytes give different load codes over a loader that only uses hio_*: %s" % lrc)
        if real != model:
            d = [(r, m) for r, m in zip(real, model) if r != m][:2] or [(len(real), len(model))]
            ck.unproved("correspondence Stream.loadEntry/testEntry/Entry.pathInfo vs load.c",
                        "case `%s`: real/model differ: %s" % (b[0][:120], d))
        else:
            ck.cov["traces_validated_against_impl"] += 1
        ck.count("core:" + b[0], nontrivial=len(seen) == 4)


def run(ck):
    import gen_hio_users
    stats = {"ops": 0, "ops_in_fragment": 0, "s8_at_eof": 0, "cases_with_observed_divergence": 0,
             "entry_cases": 0, "entry_loaded": 0, "entry_disagreements": 0, "entry_aborts": 0, "containers": 0,
             "unrecognised": 0, "entry_container_cases": 0, "entry_multifile_cases": 0, "core_cases": 0, "core_seen_lines": 0,
             "witnesses_confirmed_on_real_code": 0}
    gen = gen_hio_users.generate()
    ck.note("hio_users", ["%s:%s:%s" % (u["file"], u["func"], u["kind"]) for u in gen["hio_users"]])
    ck.note("divergence_map", {"eof_files": gen["eof_files"], "read8s_files": gen["read8s_files"],
                               "data_seek_files": len(gen["data_seek_files"]), "companion_files": gen["companion_files"]})
    # the translator-generated premise is built on its own: if it breaks (somebody new looks inside a handle)
    # the rest of the check still runs and searches for a failing input
    gen_req = ["Xmp.Gen.HioUsers.hioUsers_known", "Xmp.Gen.HioUsers.hioUsers_no_loader", "Xmp.Gen.HioUsers.hioUsers_no_field",
               "Xmp.Gen.HioUsers.eofSites_known", "Xmp.Gen.HioUsers.eofSites_no_untested",
               "Xmp.Gen.HioUsers.readSites_item_size_known"]
    ok_gen, out_gen = vlib.lean_build(["XmpModel.Gen.HioUsers"])
    if not ok_gen:
        errs = re.findall(r"error: (\S+?):(\d+):\d+: ([^\n]*)", out_gen)
        ck.unproved("theorem Xmp.Gen.HioUsers.hioUsers_known / eofSites_known (premises: loaders touch the handle only through hio_*; "
                    "every hio_eof use is a reviewed one)",
                    "generated lists no longer satisfy the allowed classes: users=%s eof sites=%s ; %s" % (
                        ["%s:%s:%s" % (u["file"], u["func"], u["kind"]) for u in gen["hio_users"]],
                        ["%s:%s:%s x%d" % (e["file"], e["func"], e["use"], e["count"]) for e in gen["eof_sites"]] +
                        ["var-size read %s:%s x%d" % (e["file"], e["func"], e["count"]) for e in gen["var_size_reads"]],
                        "; ".join("%s:%s %s" % e for e in errs[:2])))
    ck.proofs(["XmpProps.C07"] + (["XmpModel.Gen.HioUsers"] if ok_gen else []),
              required=REQUIRED + (gen_req if ok_gen else []), drivers=["drv_c07"])
    witness_replay(ck, stats)
    stream_correspondence(ck, stats)
    core_correspondence(ck, stats)
    entrypoint_oracle(ck, gen, stats)
    for k, v in sorted(stats.items()):
        ck.note(k, v)
    ck.cov["rule"] = ("(a) stream cases = (byte string 1..64 bytes, callback policy, 1..64 random hio operations incl. every divergent one) "
                      "from VERIF_SEED, distinct by hash of the script, non-trivial = at least 3 operations inside the agreeing fragment and "
                      "at least 4 operations; (b) entry-point cases = (corpus or synthetic file, mutation: truncation at chunk/header/end offsets, "
                      "bit flip, inflated chunk length, 0xff field) x 4 load + 4 test entry points, distinct by (file, mutation), "
                      "non-trivial = a mutated input that at least one test entry point still recognises")
    ck.assumptions += [
        "callbacks honour the fread/fseek/ftell contract `Legal` (C standard semantics; contents of a partial trailing item and seeks beyond the end unconstrained)",
        "glibc stdio on a regular file behaves as observed by the correspondence harness (EOF indicator kept by a failed fseek, fseek beyond the end allowed)",
        "the empty byte string is outside the domain (the memory entry points refuse size <= 0)",
        "FILE entry points are exercised with every seekable kind of stdio stream (fopen, fopencookie without a descriptor, fmemopen, "
        "just-written unflushed w+ with and without rewind); fmemopen refuses seeks beyond the end and is compared only when the "
        "cookie run saw none; non-seekable streams (pipes) and streams positioned inside a larger file are outside the documented contract",
        "the path entry point is exercised in a directory without companion files; for multi-file formats (translator: loaders that open files) it is compared with nothing",
    ]


def replay(ck, rp):
    import gen_hio_users
    r = rp["replay"]
    if isinstance(r, dict) and "script" in r:
        exe = vlib.build_harness("c07_streamops", ["c07_streamops.c"])
        path = os.path.join(vlib.OUT, "c07-replay-script.txt")
        open(path, "w").write(r["script"])
        tmp = os.path.join(tmpdir(), "replay-%d.bin" % os.getpid())
        rc, out, err = vlib.run_exe(exe, ["--replay", path, tmp])
        print(out.decode("latin-1")[-3000:])
        print(err[-2000:])
        print("model:")
        print("\n".join(vlib.run_driver("drv_c07", r["script"])[-40:]))
        cases = parse_stream_cases(out.decode("latin-1"))
        bad = rc != 0
        print("VIOLATION property=C07 replay=%s" % path if bad else "see outputs above (real F/M/C vs model)")
        return 1
    if isinstance(r, dict) and r.get("kind") == "entry":
        import c07_layouts
        gen = gen_hio_users.generate()
        exe = vlib.build_harness("c07_entrypoints", ["c07_entrypoints.c"], extra=["-Wl,--wrap=fopen,--wrap=opendir"])
        td = os.path.join(tmpdir(), "replay-%d" % os.getpid())
        os.makedirs(td, exist_ok=True)
        cid, src, trunc, edits = r["case"][:4]
        if not os.path.exists(src):
            # synthetic inputs live under the build directory of the tree they were made for: make them again
            synth_files(tmpdir())
            cand = os.path.join(tmpdir(), "synth", os.path.basename(src))
            if os.path.exists(cand):
                src = cand
        cf = os.path.join(td, "case.txt")
        open(cf, "w").write("case\t%s\t%s\t%d\t%d%s\n" % (cid, src, trunc, len(edits), "".join(edit_token(o, h) for o, h in edits)))
        rc, out, err = vlib.run_exe(exe, [str(rp.get("seed", 1)), td, cf, "3"], env={"ASAN_OPTIONS": ASAN_DET})
        text = out.decode("latin-1")
        print(text)
        print(err[-3000:])
        parsed, _ = parse_entry_output(text)
        bad = rc != 0
        for k, v in parsed.items():
            cbytes = materialize(src, trunc, [(o, h) for o, h in edits])
            doc = c07_layouts.documented_container(cbytes) if cbytes is not None else "?"
            if str(r.get("mutation", "")).endswith(":miss"):
                doc = None
            problems = judge(v, gen, doc)[0]
            for kind, detail in problems:
                print("DISAGREEMENT %s: %s" % (kind, detail))
                bad = True
        if bad:
            print("VIOLATION property=C07 replay=%s" % cf)
        return 1 if bad else 0
    print(json.dumps(rp, indent=1)[:4000])
    return 1
