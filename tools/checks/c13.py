"""C13 — Output configuration changes only the encoding of the audio, not the music.

proof      : XmpProps.C13 over XmpModel.Downmix (all accumulator values, all admissible amplifications,
             all 8 formats) + the generated table Gen.SeqWriters (no kernel writer in mixer code)
tie        : translators gen_mixer_consts.py / gen_seq_writers.py (every run) and two correspondences with the
             native driver drv_c13: (a) the static downmix_int_8bit/16bit (TU inclusion of mixer.c) on random +
             boundary accumulators x amp 0..3 x 8/16 bit x signed/unsigned, compared by per-block hashes of the
             bytes written; (b) the final stage of libxmp_mixer_softmixer on accumulator buffers of real renders
             (format dispatch, sample count, offsets, buffer_size); (c) every real xmp_set_tempo_factor call of
             the lockstep contexts (`tfc` lines: format, rate, bpm, rrate, time_factor, argument as exact doubles) vs
             Xmp.C13Timeline.setTempoFactor (return value and stored time_factor)
search     : harness/c13_timeline.c — corpus modules and generated IT modules whose tempo / row clock is driven by per-tick
             channel effects (tools/c13_synth.py: tempo slides T0x/T1x/T00 on otherwise silent channels, Axx/Txx, pattern
             delays SEx/S6x, pattern loops, note delays / cuts) rendered in lockstep by 11 contexts that differ only in the
             output configuration - one of them at master volume 0 for the whole case, one with muted channels and
             per-channel volumes - and IT modules with embedded MIDI macros that set the filter from every macro variable
             (gen_c14_synth.macro_modules) and Protracker modules with several sequences, under a common control script that
             in one case of two restarts the player in mid-play (xmp_start_player without xmp_end_player: one half of the
             contexts with the configuration they already have, the other half with a new rate / format, often right after
             a jump into another sequence or inside a pattern loop); besides the timeline, every mixer voice of the
             context with the mono flag flipped must be in the same state as in the group, the pan apart (oracle voice_state) (position/seek/row/restart calls, injected tempo
             effects, xmp_set_tempo_factor with factors around the acceptance limit of one of the contexts, tiny /
             huge / zero / negative / infinite / NaN factors, xmp_set_player probes): return value of every control
             call (xmp_set_tempo_factor: among contexts of equal rate - the documented dependence on the sampling
             rate is allowed, a dependence on the sample format is not), per-frame timeline equality, buffer layout,
             unsigned/high-byte/amplification relations sample by sample, accumulator equality;
             harness/c13_downmix.c — the three encoding relations on every value fed to the correspondence
"""
import hashlib
import os
import re
import sys

import vlib

sys.path.insert(0, os.path.dirname(os.path.dirname(os.path.abspath(__file__))))
import gen_mixer_consts  # noqa: E402
import gen_seq_writers  # noqa: E402

LEVEL = "proof"
MANIFEST = dict(
    category="proof",
    text="Lean 4 theorems (XmpProps.C13) prove for ALL accumulator values and all amplification settings the API admits that, in the model "
         "of downmix_int_8bit/16bit and of the final stage of libxmp_mixer_softmixer, unsigned output = signed output + mid-scale offset "
         "(= top bit flipped), 8-bit output = high byte of 16-bit output (signed and unsigned, also byte-wise), each amplification step "
         "doubles the pre-clipping value (with the observable halving/clipping corollary), the downmix is monotone in every encoding "
         "(C13_downmix_monotone: a larger accumulator never gives a smaller sample, unsigned words included), saturating "
         "(C13_downmix_saturating: output = clamp of the floor-shifted accumulator, sticking at the limits beyond (HI+1)*2^shift / below "
         "LO*2^shift) and sign-preserving (C13_downmix_sign), a louder amplification never moves a sample towards zero (C13_amp_monotone), "
         "C13_tempo_factor_format_independent: the one control call whose acceptance looks at the output configuration, "
         "xmp_set_tempo_factor, is modelled exactly (XmpModel/C13Timeline.lean: libxmp_mixer_get_ticksize in IEEE double arithmetic as exact "
         "m*2^e values, the bound XMP_MAX_FRAMESIZE/4 recognised by the translator as a constant, tempo_factor_shape) and returns the same and "
         "leaves the same time_factor for any two contexts of equal sampling rate whatever their formats; C13_tempo_factor_accept_fits: an "
         "accepted factor passes the guard of libxmp_mixer_prepare unchanged, so the frame fits in all 8 formats; "
         "C13_tick_path_config_free (facts regenerated from player.c): xmp_play_frame reads no volume / output setting before the mixer "
         "and runs the per-tick channel update for every virtual channel unconditionally; "
         "and the format flags only select the layout "
         "(bytes written = ticksize*(2-mono)*(2-8bit) = buffer_size, within the allocations). C13_timeline proves configuration "
         "non-interference for a player of the shape of xmp_play_frame; C13_timeline_writers (decide over a table regenerated from src/*.c on "
         "every run) proves that no statement that may write p->ord,row,pos,frame,speed,bpm,loop_count,current_time,frame_time or p->flow.* "
         "lies in mixer.c, mix_all.c, mix_paula.c, filter.c or in a function reachable from libxmp_mixer_softmixer. The model is tied to the "
         "C on every run by two differential correspondences against the real objects (static downmix functions; final stage on real "
         "accumulator buffers) and by a direct oracle rendering corpus modules under many configuration pairs in lockstep.",
    note="Trusted: Lean kernel (axioms propext/Classical.choice/Quot.sound only), the hand-written model XmpModel/Downmix.lean, the two "
         "translators (gcc -E + regular expressions; pointer aliases other than address-of, and indirect calls other than the mixer tables "
         "covered by the file class, are not tracked), harness and differ. Modelled-not-verified: the sequencer itself (C16/C17 own it); "
         "that flow effects in read_event.c/effects.c/player.c do not *read* channel or voice state written by the mixer (sample-end flag, "
         "voice position) when updating the timeline is searched by the lockstep oracle on the corpus, not proved; "
         "libxmp_mixer_get_ticksize (double arithmetic) is a parameter of the layout theorem; C's >> on negative int32 is taken to be "
         "arithmetic (gcc/clang, x86-64). Correspondences are sampled (differential), not exhaustive.",
    technique="Lean 4 proofs (omega over shifts/clamps, bit-level xor lemma, decide over generated tables) + generated-table tie + "
              "differential correspondence + lockstep multi-configuration oracle",
    design_ref="DESIGN.md section 4 C13, appendix A.1",
)

P = "Xmp.Downmix."
REQUIRED = [P + n for n in (
    "C13_unsigned", "C13_unsigned_offsets", "C13_8_is_high_byte", "C13_amp_doubles", "C13_amp_doubles_observable",
    "C13_amp_api_range", "C13_downmix_monotone", "C13_downmix_saturating", "C13_downmix_sign", "C13_amp_monotone",
    "C13_buffer_layout", "C13_ticksize_guard", "C13_frame_encodings", "C13_timeline", "C13_timeline_writers",
    "cap_fits", "cap_assigned_is_guard", "seqWriters_outside_mixer", "seqWriters_scan_sane", "shifts_match_code", "offsets_match_code", "limits_consistent",
    "fmt_bits_distinct")] + ["Xmp.C13Timeline." + n for n in (
    "C13_tempo_factor_format_independent", "C13_tempo_factor_any_format", "C13_tempo_factor_refusal_keeps_state",
    "C13_tempo_factor_accept_fits", "tempo_factor_shape", "getTicksize_range", "C13_tick_path_config_free", "tick_path_config_free")]

# normalised-text fingerprints of the modelled C functions on the tree the model was written against;
# a change never alarms by itself, it multiplies the correspondence budget and is recorded
FINGERPRINTS = {
    "downmix_int_8bit": "6c2da066fddd",
    "downmix_int_16bit": "fb6113767bdc",
}

# cases that once failed (module relative to the repository, case seed, frames); run first on every tier
REGRESSION_CASES = [
    # endless module (scan time saturated at INT_MAX) + late seek: current_time passed INT_MAX and
    # xmp_get_frame_info converted it to int (UB) until "fix: xmp_get_frame_info saturates the reported time"
    ("test-dev/data/longest.med", 5, 400),
    ("test-dev/data/longest.med", 8, 400),
]

M64 = (1 << 64) - 1
KS = [0, 2, 3, 4, 4, 5, 6, 8, 10, 12, 16, 20]


def vrng_values(seed, count, k):
    st = (seed * 0x9E3779B97F4A7C15 + 0xD1B54A32D192ED03) & M64
    if st == 0:
        st = 1
    out = []
    for _ in range(count):
        x = st
        x ^= x >> 12
        x ^= (x << 25) & M64
        x ^= x >> 27
        st = x
        r = (x * 0x2545F4914F6CDD1D) & M64
        v = r >> 32
        if v >= 1 << 31:
            v -= 1 << 32
        out.append(v >> k)
    return out


def boundary_values(c):
    """All accumulators at which an output changes its clipping status, +-2 steps, for every
    amp/width, plus int32 corner values."""
    vals = set()
    lo32, hi32 = -(1 << 31), (1 << 31) - 1
    for amp in range(0, 4):
        for base, hi, lo in ((c["downmixShift"], c["lim16Hi"], c["lim16Lo"]),
                             (c["downmixShift"] + 8, c["lim8Hi"], c["lim8Lo"])):
            sh = base - amp
            for lim in (hi, lo, 0, -1, 1):
                for d in range(-2, 3):
                    v = lim + d
                    a, b = v << sh, ((v + 1) << sh) - 1
                    for x in (a, a + 1, b - 1, b, (a + b) // 2):
                        if lo32 <= x <= hi32:
                            vals.add(x)
    for k in range(0, 32):
        for d in (-1, 0, 1):
            for s in (1, -1):
                x = s * (1 << k) + d
                if lo32 <= x <= hi32:
                    vals.add(x)
    vals.update([lo32, lo32 + 1, hi32, hi32 - 1, 0])
    return sorted(vals)


def fingerprint(repo_src, fn):
    try:
        text = open(os.path.join(repo_src, "mixer.c"), errors="replace").read()
    except OSError:
        return None
    body = gen_mixer_consts.function_body(gen_mixer_consts.strip_comments(text), fn)
    if body is None:
        return None
    return hashlib.sha256(re.sub(r"\s+", "", body).encode()).hexdigest()[:12]


# ---------------------------------------------------------------------------------------------

def downmix_shard(args):
    exe, script, use_driver = args
    rc, out, err = vlib.run_exe(exe, [], script.encode(), timeout=1800)
    model = vlib.run_driver("drv_c13", script, timeout=1800) if use_driver else None
    return rc, out.decode("latin-1").splitlines(), err, model


def locate(exe, values, use_driver):
    """First accumulator on which real code and model differ (verbose `one` lines)."""
    script = "".join("one %d\n" % v for v in values)
    rc, out, err = vlib.run_exe(exe, [], script.encode(), timeout=600)
    real = [l for l in out.decode("latin-1").splitlines() if l.startswith("one ")]
    model = vlib.run_driver("drv_c13", script) if use_driver else real
    for r, m in zip(real, model):
        if r != m:
            return r, m
    return None


def run_downmix(ck, consts, budget_mul):
    exe = vlib.build_harness("c13_downmix", ["c13_downmix.c"])
    quick = ck.tier == "quick"
    total = (1200000 if quick else 24000000) * budget_mul
    blk = 50000 if quick else 250000
    nshards = vlib.NCPU
    bvals = boundary_values(consts)
    specs = [("vals", bvals)]
    nblocks = max(1, total // blk)
    for i in range(nblocks):
        specs.append(("rnd", (ck.seed * 1000003 + i * 7919 + 17) & 0xffffffff, blk, KS[i % len(KS)]))
    shards = [[] for _ in range(nshards)]
    for i, s in enumerate(specs):
        shards[i % nshards].append(s)
    shards = [s for s in shards if s]

    def text(spec):
        if spec[0] == "vals":
            return "vals %d %s\n" % (len(spec[1]), " ".join(str(v) for v in spec[1]))
        return "rnd %d %d %d\n" % spec[1:]

    results = vlib.pmap(downmix_shard, [(exe, "".join(text(s) for s in sh), ck.lean_ok) for sh in shards])
    st = {"downmix_values": 0, "downmix_blocks": 0, "downmix_boundary_values": len(bvals), "downmix_oracle_checks": 0,
          "downmix_clipped16": 0, "downmix_clipped8": 0, "downmix_blocks_agree": 0}
    for sh, (rc, real, err, model) in zip(shards, results):
        if rc != 0:
            sig = vlib.sanitizer_signature(err)
            ck.violation("harness-abort:downmix:" + sig, {"script": "".join(text(s) for s in sh)[:4000], "stderr": err[-3000:]},
                         "downmix harness aborted (rc=%d): %s" % (rc, sig))
            continue
        blks = [l for l in real if l.startswith("blk ")]
        fails = [l for l in real if l.startswith("oracle_fail")]
        for l in real:
            m = re.match(r"oracle (\d+) (\d+) clipped16=(\d+) clipped8=(\d+)", l)
            if m:
                st["downmix_oracle_checks"] += int(m.group(1))
                st["downmix_clipped16"] += int(m.group(3))
                st["downmix_clipped8"] += int(m.group(4))
        for f in fails[:3]:
            m = re.match(r"oracle_fail (\w+) x=(-?\d+) amp=(\d+)", f)
            kind, x = (m.group(1), int(m.group(2))) if m else ("?", 0)
            ck.violation("oracle:downmix:" + kind, {"kind": "downmix", "values": [x], "line": f},
                         "encoding relation '%s' fails on the real downmix functions: %s" % (kind, f))
        mblks = [l for l in (model or []) if l.startswith("blk ")]
        for i, spec in enumerate(sh):
            n = len(spec[1]) if spec[0] == "vals" else spec[2]
            st["downmix_values"] += n
            st["downmix_blocks"] += 1
            key = "dm:" + (("vals%d" % n) if spec[0] == "vals" else "rnd:%d:%d:%d" % spec[1:])
            ck.count(key, nontrivial=True, n=n)
            if model is None or i >= len(blks):
                continue
            if i < len(mblks) and blks[i] == mblks[i]:
                st["downmix_blocks_agree"] += 1
                ck.cov["traces_validated_against_impl"] += 1
                continue
            values = spec[1] if spec[0] == "vals" else vrng_values(spec[1], spec[2], spec[3])
            where = locate(exe, values, True)
            if fails:
                continue        # already reported as a violation of the property itself
            ck.unproved("correspondence Downmix.d8/d16 vs downmix_int_8bit/16bit",
                        "block %s: hashes differ; first differing accumulator: real=%s model=%s" % (
                            key, where[0] if where else "?", where[1] if where else "?"))
    # voiceless frames with an exactly computable tick size: ticksize refusal / minimum, the guard of
    # libxmp_mixer_prepare, the size cap and the format dispatch of the final stage vs the model
    mx = consts["maxFramesize"]
    cap = consts.get("ticksizeCap", mx // 4)
    fs = [-5, 0, 1, 7, 8, 9, 10, 441, 882, cap - 1, cap, cap + 1, 2 * cap, mx // 2 - 1, mx // 2, mx // 2 + 1, mx - 1, mx,
          mx + 1, 2 * mx, 100000,
          (1 << 31) - 1, (1 << 31) - 2]
    fs += [ck.rng.randint(1, mx) for _ in range(8 if quick else 200)]
    plines = ["prep %d %d %d" % (fmt, f, ck.rng.randint(0, 3)) for f in fs for fmt in range(8)]
    rc, real, err, model = downmix_shard((exe, "\n".join(plines) + "\n", ck.lean_ok))
    st["prep_frames"] = len(plines)
    st["prep_agree"] = 0
    if rc != 0:
        sig = vlib.sanitizer_signature(err)
        ck.violation("harness-abort:prep:" + sig, {"kind": "downmix", "values": [], "script": "\n".join(plines), "stderr": err[-3000:]},
                     "final mixer stage on a voiceless context aborted (rc=%d): %s" % (rc, sig))
    else:
        rp = [l for l in real if l.startswith("prep ")]
        for f in [l for l in real if l.startswith("oracle_fail")][:3]:
            m = re.match(r"oracle_fail (\w+) x=(-?\d+) amp=(\d+)", f)
            kind = m.group(1) if m else "?"
            ck.violation("oracle:voiceless:" + kind, {"kind": "downmix", "values": [], "script": "\n".join(plines), "line": f},
                         "frame rendered without voices (tick size x): relation '%s' fails: %s" % (kind, f))
        if model is not None:
            mp = [l for l in model if l.startswith("prep ")]
            for line, r, m in zip(plines, rp, mp):
                ck.count("prep:" + line, nontrivial=True)
                if r == m:
                    st["prep_agree"] += 1
                    ck.cov["traces_validated_against_impl"] += 1
                else:
                    ck.unproved("correspondence Downmix.prepareTicksize/ticksizeOf/renderBytes vs libxmp_mixer_prepare + final stage",
                                "%s: real=%s model=%s" % (line, r, m))
            if len(rp) != len(plines) or len(mp) != len(plines):
                ck.unproved("correspondence prep", "line counts differ: script %d real %d model %d" % (len(plines), len(rp), len(mp)))
    for k, v in st.items():
        ck.note(k, v)
    ck.sample({"downmix_block": text(specs[1]).strip() if len(specs) > 1 else "", "boundary_values": bvals[:6]}, limit=2)
    return exe


# ---------------------------------------------------------------------------------------------

def pick_modules(ck, n):
    files = [f for f in vlib.corpus_files() if os.path.getsize(f) < 400000]
    fixed = [f for f in files if "/test/test." in f]
    rest = [f for f in files if f not in fixed]
    ck.rng.shuffle(rest)
    return fixed + rest[:n]


def timeline_shard(args):
    exe, seed, ncases, maxframes, nsite, mods = args
    if seed is None:        # regression case: mods = [module], ncases = case seed
        rc, out, err = vlib.run_exe(exe, ["--one", mods[0], str(ncases), str(maxframes), str(nsite)], timeout=600)
        if rc not in (0, 3):
            err += "\n@@crash %s cseed=%d\n" % (mods[0], ncases)
        return 0, out.decode("latin-1"), err
    rc, out, err = vlib.run_exe(exe, [str(seed), str(ncases), str(maxframes), str(nsite)] + mods, timeout=2400)
    return rc, out.decode("latin-1"), err


def parse_timeline(text):
    cases, cur = [], None
    for line in text.splitlines():
        if line.startswith("begin "):
            m = re.match(r"begin (.*) cseed=(\d+) len=(-?\d+) chn=(\d+) ops=(\d+)$", line)
            cur = {"module": m.group(1), "cseed": int(m.group(2)), "ops": int(m.group(5)), "cfg": [], "sites": [],
                   "fails": [], "stat": {}, "begin": line}
        elif cur is None:
            continue
        elif line.startswith("cfg "):
            cur["cfg"].append(line[4:])
        elif line.startswith("site "):
            cur["sites"].append([line, None])
        elif line.startswith("siteout ") and cur["sites"]:
            cur["sites"][-1][1] = line.split()[1:]
        elif line.startswith("tfc "):
            cur.setdefault("tfc", []).append([line, None])
        elif line.startswith("tfe ") and cur.get("tfc"):
            cur["tfc"][-1][1] = line
        elif line.startswith("oracle_fail"):
            cur["fails"].append(line)
        elif line.startswith("stat "):
            cur["stat"] = {k: int(v) for k, v in (x.split("=") for x in line.split()[1:])}
        elif line == "end":
            cases.append(cur)
            cur = None
    return cases


def run_timeline(ck):
    exe = vlib.build_harness("c13_timeline", ["c13_timeline.c"])
    quick = ck.tier == "quick"
    nshards = vlib.NCPU
    import c13_synth
    synth = c13_synth.generate(os.path.join(vlib.OUT, "c13-synth"), ck.seed, 2 if quick else 6)
    ck.note("timeline_effect_modules", [os.path.basename(f) for f in synth])
    import gen_c14_synth
    macro = gen_c14_synth.macro_modules(os.path.join(vlib.OUT, "c14-synth"), ck.seed)
    if quick:       # one module per macro variable in thorough runs, a rotating half in quick runs
        macro = [f for i, f in enumerate(macro) if (i + ck.seed) % 2 == 0 or f.endswith(("_x.it", "_y.it"))]
    ck.note("midi_macro_modules", [os.path.basename(f) for f in macro])
    # Protracker modules with several sequences (sub-songs), written by the C12 check's generator: position control crosses
    # between sequences before the mid-play restarts
    sys.path.insert(0, os.path.dirname(os.path.abspath(__file__)))
    import c12
    subsong = c12.subsong_modules(ck, os.path.join(vlib.OUT, "c13-synth", "subsong"), 3 if quick else 8)
    ck.note("multi_sequence_modules", len(subsong))
    mods = synth + macro + subsong + pick_modules(ck, 100000)
    per = max(1, (len(mods) + nshards - 1) // nshards) * (1 if quick else 6)
    maxframes = 400 if quick else 1500
    nsite = 2 if quick else 3
    shards = []
    for i in range(nshards):
        sub = mods[i::nshards]
        if sub:
            shards.append((exe, ck.seed * 104729 + i, per, maxframes, nsite, sub))
    for rel, cseed, frames in REGRESSION_CASES:
        pth = os.path.join(vlib.REPO, rel)
        if os.path.exists(pth):
            shards.append((exe, None, cseed, frames, 1, [pth]))
    results = vlib.pmap(timeline_shard, shards)
    st = {"timeline_cases": 0, "timeline_frames": 0, "timeline_skipped_modules": 0, "timeline_control_calls_ok": 0,
          "timeline_reconfigurations": 0, "timeline_nonsilent_frames": 0, "timeline_clipped_samples": 0,
          "timeline_samples_compared": 0, "timeline_loops_seen": 0, "site_frames": 0, "site_agree": 0,
          "timeline_configs_per_case": 11, "timeline_crashes": 0,
          "timeline_novoice_ticks": 0, "timeline_clamped_ticks": 0, "timeline_cases_with_clamp": 0, "timeline_slow_cases": 0,
          "timeline_tempo_factor_rollbacks": 0, "tempo_factor_probes": 0, "tempo_factor_calls": 0, "tempo_factor_accepted": 0,
          "tempo_factor_refused": 0, "tempo_factor_same_rate_pairs_compared": 0, "setter_probes": 0,
          "tempo_factor_model_cases": 0, "tempo_factor_model_agree": 0, "timeline_frames_with_tempo_change": 0,
          "timeline_effect_module_tempo_changes": 0, "voice_states_compared_mono_vs_stereo": 0,
          "filtered_voice_states_compared_mono_vs_stereo": 0, "timeline_midplay_restarts": 0}
    site_lines, site_expect = [], []
    tf_lines, tf_expect = [], []
    fail_kinds = {}
    import collections
    hist = collections.Counter()
    for (rc, out, err), sh in zip(results, shards):
        st["timeline_skipped_modules"] += out.count("\nskip ") + (1 if out.startswith("skip ") else 0)
        cases = parse_timeline(out)
        if rc != 0:
            raise vlib.InfraError("c13_timeline driver process failed (rc=%d): %s" % (rc, err[-1500:]))
        # children that ended abnormally: the sanitizer report precedes the @@crash marker on stderr
        prev = 0
        for m in re.finditer(r"^@@crash (.*) cseed=(\d+)$", err, re.M):
            report = err[prev:m.start()]
            prev = m.end()
            sig = vlib.sanitizer_signature(report)
            st["timeline_crashes"] += 1
            ck.violation("harness-abort:timeline:" + sig,
                         {"kind": "timeline", "module": m.group(1), "cseed": int(m.group(2)), "maxframes": sh[3], "nsite": 0,
                          "stderr": report[-3000:]},
                         "rendering %s under several configurations aborted: %s" % (os.path.basename(m.group(1)), sig))
        for c in cases:
            s = c["stat"]
            st["timeline_cases"] += 1
            st["timeline_frames"] += s.get("frames", 0)
            st["timeline_control_calls_ok"] += s.get("opok", 0)
            st["timeline_reconfigurations"] += s.get("reconf", 0)
            st["timeline_nonsilent_frames"] += s.get("nonsilent", 0)
            st["timeline_clipped_samples"] += s.get("clipped", 0)
            st["timeline_samples_compared"] += s.get("samples", 0)
            st["timeline_loops_seen"] += 1 if s.get("loops", 0) > 0 else 0
            st["timeline_novoice_ticks"] += s.get("novoice", 0)
            st["timeline_clamped_ticks"] += s.get("clampticks", 0)
            st["timeline_cases_with_clamp"] += 1 if s.get("clampticks", 0) > 0 else 0
            st["timeline_slow_cases"] += s.get("slow", 0)
            st["timeline_tempo_factor_rollbacks"] += s.get("tfroll", 0)
            st["tempo_factor_probes"] += s.get("tfprobes", 0)
            st["tempo_factor_calls"] += s.get("tfcalls", 0)
            st["tempo_factor_accepted"] += s.get("tfaccept", 0)
            st["tempo_factor_refused"] += s.get("tfrefuse", 0)
            st["tempo_factor_same_rate_pairs_compared"] += s.get("tfpairs", 0)
            st["setter_probes"] += s.get("setprobes", 0)
            st["timeline_frames_with_tempo_change"] += s.get("bpmchg", 0)
            st["timeline_midplay_restarts"] += s.get("restarts", 0)
            st["voice_states_compared_mono_vs_stereo"] += s.get("voicecmp", 0)
            st["filtered_voice_states_compared_mono_vs_stereo"] += s.get("voicecmp_filter", 0)
            if "c13tl_" in c["module"]:
                st["timeline_effect_module_tempo_changes"] += s.get("bpmchg", 0)
            for line, exp in c.get("tfc", []):
                if exp is not None:
                    tf_lines.append(line)
                    tf_expect.append((exp, c))
            for cl in c["cfg"]:
                kv = dict(x.split("=") for x in cl.split()[1:])
                r = int(kv["rate"])
                hist["rate_%s" % ("4000-7999" if r < 8000 else "8000-15999" if r < 16000 else "16000-31999" if r < 32000
                                  else "32000-47999" if r < 48000 else "48000-49170")] += 1
                hist["fmt_" + kv["fmt"]] += 1
                hist["interp_" + kv["interp"]] += 1
                hist["amp_" + kv["amp"]] += 1
            nontrivial = s.get("rowchg", 0) >= 2 and s.get("nonsilent", 0) > 0
            ck.count("tl:%s:%d" % (os.path.basename(c["module"]), c["cseed"]), nontrivial=nontrivial,
                     n=max(1, s.get("frames", 0)) * 11)
            ck.sample({"timeline_case": c["begin"], "cfg0": c["cfg"][:1], "cfg_free": c["cfg"][8:], "stat": s}, limit=5)
            for f in c["fails"][:4]:
                m = re.match(r"oracle_fail (\w+) frame=(-?\d+) ctx=(\d+) vs=(\d+) field=(\w+)", f)
                kind, field = (m.group(1), m.group(5)) if m else ("?", "?")
                fail_kinds[kind] = fail_kinds.get(kind, 0) + 1
                ck.violation("oracle:%s:%s" % (kind, field),
                             {"kind": "timeline", "module": c["module"], "cseed": c["cseed"], "maxframes": sh[3], "nsite": 0,
                              "configs": c["cfg"], "fails": c["fails"][:12]},
                             "module %s rendered under different output configurations: %s" % (os.path.basename(c["module"]), f))
            if not c["fails"]:
                for line, exp in c["sites"]:
                    if exp is not None:
                        site_lines.append(line)
                        site_expect.append((exp, c))
    # correspondence of the call site (final stage of libxmp_mixer_softmixer) on real accumulator buffers
    if ck.lean_ok and site_lines:
        chunks = [site_lines[i::vlib.NCPU] for i in range(vlib.NCPU)]
        exps = [site_expect[i::vlib.NCPU] for i in range(vlib.NCPU)]
        outs = vlib.pmap(lambda ch: vlib.run_driver("drv_c13", "\n".join(ch) + "\n") if ch else [], chunks)
        fmts = {}
        for ch, ex, mo in zip(chunks, exps, outs):
            for line, (exp, c), m in zip(ch, ex, mo):
                st["site_frames"] += 1
                f = line.split(" ", 4)
                fmts[f[1]] = fmts.get(f[1], 0) + 1
                mf = m.split()
                ok = len(mf) == 4 and mf[1] == exp[0] and mf[2] == exp[0] and mf[3] == exp[1]
                if ok:
                    st["site_agree"] += 1
                    ck.cov["traces_validated_against_impl"] += 1
                else:
                    ck.unproved("correspondence Downmix.renderBytes/bufferSize vs final stage of libxmp_mixer_softmixer",
                                "module %s cseed=%d fmt=%s ticksize=%s amp=%s: real buffer_size=%s hash=%s ; model %s" % (
                                    c["module"], c["cseed"], f[1], f[2], f[3], exp[0], exp[1], m))
        ck.note("site_formats_seen", fmts)
    # correspondence of xmp_set_tempo_factor (real calls of the lockstep contexts) with Xmp.C13Timeline.setTempoFactor
    if ck.lean_ok and tf_lines:
        chunks = [tf_lines[i::vlib.NCPU] for i in range(vlib.NCPU)]
        exps = [tf_expect[i::vlib.NCPU] for i in range(vlib.NCPU)]
        outs = vlib.pmap(lambda ch: vlib.run_driver("drv_c13", "\n".join(ch) + "\n") if ch else [], chunks)
        seen = {}
        nbad = 0
        for ch, ex, mo in zip(chunks, exps, outs):
            if len(mo) != len(ch):
                ck.unproved("correspondence protocol", "drv_c13 answered %d lines for %d tfc cases" % (len(mo), len(ch)))
                continue
            for line, (exp, c), m in zip(ch, ex, mo):
                st["tempo_factor_model_cases"] += 1
                f = line.split()
                seen["fmt_%s_ret_%s" % (f[1], exp.split()[1])] = seen.get("fmt_%s_ret_%s" % (f[1], exp.split()[1]), 0) + 1
                ck.count("tfc:%s" % vlib.hash_str(line), nontrivial=f[9] == "pos")
                if m.split() == exp.split():
                    st["tempo_factor_model_agree"] += 1
                    ck.cov["traces_validated_against_impl"] += 1
                else:
                    nbad += 1
                    if nbad <= 3:
                        ck.unproved("correspondence C13Timeline.setTempoFactor vs xmp_set_tempo_factor",
                                    "module %s cseed=%d case: %s\nreal : %s\nmodel: %s" % (c["module"], c["cseed"], line, exp, m))
        ck.note("tempo_factor_formats_x_returns", dict(sorted(seen.items())))
    if st["timeline_midplay_restarts"] == 0:
        ck.unproved("timeline oracle coverage", "no case restarted the player in mid-play")
    if st["filtered_voice_states_compared_mono_vs_stereo"] == 0:
        ck.unproved("timeline oracle coverage", "no filtered voice was compared between the mono and the stereo context")
    if st["timeline_effect_module_tempo_changes"] == 0:
        ck.unproved("timeline oracle coverage", "the generated modules with per-tick tempo effects never changed the tempo during a case")
    for k, v in st.items():
        ck.note(k, v)
    ck.note("timeline_config_histogram", dict(sorted(hist.items())))
    if fail_kinds:
        ck.note("oracle_fail_kinds", fail_kinds)


# ---------------------------------------------------------------------------------------------

def run(ck):
    mc = gen_mixer_consts.generate()
    sw = gen_seq_writers.generate()
    by_file = {}
    for w in sw["writers"]:
        by_file[w[0]] = by_file.get(w[0], 0) + 1
    ck.note("gen_seq_writers", {"statements": len(sw["writers"]), "by_file": by_file, "files_scanned": len(sw["files"]),
                                "softmixer_reach": len(sw["reach"]), "not_macro_expanded": sw["unexpanded"]})
    ck.note("gen_mixer_consts", {"values": mc["values"], "shape_facts": mc["facts"],
                                 "shape_facts_recognised": sum(1 for v in mc["facts"].values() if v is not None)})
    src = os.path.join(vlib.REPO, "src")
    changed = [fn for fn, h in FINGERPRINTS.items() if fingerprint(src, fn) != h]
    ck.note("fingerprints", {fn: fingerprint(src, fn) for fn in FINGERPRINTS})
    ck.note("fingerprint_changed", changed)
    ck.proofs(["XmpProps.C13"], required=REQUIRED, drivers=["drv_c13"])
    try:
        run_downmix(ck, mc["values"], 3 if changed else 1)
        run_timeline(ck)
    except FileNotFoundError as e:
        # the shared build cache drops the directory of an older tree hash as soon as another check
        # builds a newer one: the libxmp tree changed while this run was in progress
        raise vlib.InfraError("build cache entry vanished during the run (libxmp tree changed meanwhile); re-run: %s" % e)
    ck.cov["rule"] = ("evaluations = accumulator values fed to both downmix functions in all 16 amp/width/sign combinations, plus "
                      "frames x 11 contexts of the lockstep renders; distinct cases = downmix blocks (boundary list or PRNG block "
                      "(seed,count,shift)) and timeline cases (module, case seed); a timeline case is non-trivial when the reference "
                      "timeline visits at least 2 rows and at least one frame has a non-zero accumulator (so the encoding relations "
                      "are exercised on real audio); downmix blocks are always non-trivial (each spans clipped and unclipped outputs)")
    ck.assumptions += [
        "int32 >> n on negative values is an arithmetic shift (gcc/clang on x86-64)",
        "amplification is within 0..3 as enforced by xmp_set_player (recognised from control.c, theorem C13_amp_api_range)",
        "the timeline's independence of channel/voice state written by the mixer is searched (lockstep oracle), not proved",
    ]


def replay(ck, rp):
    r = rp["replay"]
    if isinstance(r, list):        # unproved items
        for it in r:
            print("%s: %s" % (it.get("name"), it.get("detail")))
        return 1
    if r.get("kind") == "downmix":
        exe = vlib.build_harness("c13_downmix", ["c13_downmix.c"])
        script = "".join("one %d\n" % v for v in r.get("values", [])) + "vals %d %s\n" % (
            len(r.get("values", [])), " ".join(str(v) for v in r.get("values", [])))
        if r.get("script"):
            script = r["script"] + "\n"       # recorded prep lines (frames without voices)
        rc, out, err = vlib.run_exe(exe, [], script.encode())
        text = out.decode("latin-1")
        print(text[-3000:])
        print(err[-2000:])
        bad = rc != 0 or "oracle_fail" in text
    else:
        exe = vlib.build_harness("c13_timeline", ["c13_timeline.c"])
        rc, out, err = vlib.run_exe(exe, ["--one", r["module"], str(r["cseed"]), str(r["maxframes"]), str(r.get("nsite", 0))])
        text = out.decode("latin-1")
        print("\n".join(l for l in text.splitlines() if not l.startswith("site "))[-4000:])
        print(err[-2000:])
        bad = rc != 0 or "oracle_fail" in text
    if bad:
        print("VIOLATION property=C13 replay=(see above)")
    return 1 if bad else 0
