#!/usr/bin/env python3
"""C03 header tie: complete, otherwise valid MOD / S3M / XM / IT files whose header
counts (channels, patterns, orders, instruments, samples, rows, restart) take
valid, boundary and just-out-of-range values.

Every generator returns (bytes, hdr_line): `hdr_line` is the description of the
header for the Lean driver (drv_c03, `begin hdr` block), which answers with
`Hdr.modHeader` / `s3mHeader` / `xmHeader` / `itHeader`: refuse, or the counts and
pattern row counts the loader will leave.  The check loads the file through the
one real loader and compares.
"""
import struct


def pick(r, valid, edges, p_edge=0.45):
    return r.choice(edges) if r.random() < p_edge else valid()


# ---------------------------------------------------------------- MOD ------

MOD_MAGICS = [b"M.K.", b"M!K!", b"M&K!", b"N.T.", b"6CHN", b"8CHN", b"CD61", b"CD81", b"TDZ1", b"TDZ2", b"TDZ3", b"TDZ4",
              b"FA04", b"FA06", b"FA08", b"LARD", b"NSMS"]


def mod_guess_chn(magic):
    """only used to size the pattern data of the file"""
    table = {b"M.K.": 4, b"M!K!": 4, b"M&K!": 4, b"N.T.": 4, b"6CHN": 6, b"8CHN": 8, b"CD61": 6, b"CD81": 8, b"TDZ1": 1,
             b"TDZ2": 2, b"TDZ3": 3, b"TDZ4": 4, b"FA04": 4, b"FA06": 6, b"FA08": 8, b"LARD": 4, b"NSMS": 4}
    if magic in table:
        return table[magic]
    if magic[2:] == b"CH" and magic[:2].isdigit():
        return int(magic[:2])
    if magic[1:] == b"CHN" and magic[:1].isdigit():
        return int(magic[:1])
    return 4


def gen_mod(r):
    k = r.random()
    if k < 0.35:
        magic = r.choice(MOD_MAGICS)
    elif k < 0.70:
        n = r.choice([0, 1, 2, 9, 10, 11, 16, 31, 32, 33, 40, 63, 64, 65, 99])
        magic = b"%02dCH" % n
    elif k < 0.90:
        magic = b"%dCHN" % r.randint(0, 9)
    else:
        magic = r.choice([b"XXXX", b"M.K!", b"1CH0", b"CHN4", b"\0\0\0\0", b"9CH\0"])
    length = pick(r, lambda: r.randint(1, 128), [0, 1, 127, 128, 129, 200, 255])
    restart = pick(r, lambda: r.randint(0, max(0, length - 1)), [0, 1, length - 1 if length else 0, length, 0x78, 0x7e, 0x7f,
                                                                    0x80, 255])
    restart &= 0xff
    top = r.choice([0, 1, 2, 3, 5, 9, 20])
    if r.random() < 0.1:
        top = r.choice([63, 100, 127])
    orders = [r.randint(0, top) for _ in range(128)]
    if r.random() < 0.3:
        orders[r.randrange(128)] = r.choice([0x80, 0xff, 0xfe, 0x81])       # stops the pattern count
    if r.random() < 0.15:
        orders[r.randrange(128)] = 127
    npat = 1
    for x in orders:
        if x > 0x7f:
            break
        npat = max(npat, x + 1)
    chn = mod_guess_chn(magic)
    if chn > 64:
        npat_bytes = 0
    else:
        npat_bytes = npat * max(chn, 1) * 256
    if npat_bytes > 3 * 1024 * 1024:
        npat_bytes = 0
    name = b"c03 header tie".ljust(20, b"\0")
    ins = b""
    for _ in range(31):
        ins += b"\0" * 22 + struct.pack(">HBBHH", 0, 0, 0, 0, 0)
    extra = b"\0\x40\0\0" if magic[:2] == b"FA" else b""
    data = name + ins + bytes([length, restart]) + bytes(orders) + magic + extra + b"\0" * npat_bytes + b"\0" * 6
    # "1": no sample above 64k words, no FLEX trailer, not the Protracker song size: get_tracker_id may run
    line = "mod %d %d %d %d 0 1 %d %d %d %s" % (magic[0], magic[1], magic[2], magic[3], length, restart, 128,
                                              " ".join(str(x) for x in orders))
    return data, line


# ---------------------------------------------------------------- S3M ------

def gen_s3m(r):
    ffi = pick(r, lambda: r.choice([1, 2]), [0, 1, 2, 3], 0.1)
    ordnum = pick(r, lambda: r.randint(1, 40), [0, 1, 2, 254, 255, 256, 300])
    insnum = pick(r, lambda: r.randint(0, 6), [0, 1, 254, 255, 256], 0.25)
    patnum = pick(r, lambda: r.randint(1, 12), [0, 1, 254, 255, 256], 0.3)
    magic_ok = r.random() > 0.04
    chset = []
    used = r.choice([0, 1, 2, 4, 8, 16, 31, 32])
    for i in range(32):
        chset.append(r.choice([0, 1, 8, 9, 16, 0x80]) if i < used and r.random() < 0.9 else 255)
    if r.random() < 0.1:
        chset = [255] * 32
    top = max(1, min(patnum, 255))
    orders = []
    for _ in range(ordnum):
        k = r.random()
        orders.append(0xff if k < 0.1 else 0xfe if k < 0.2 else min(255, r.randint(0, top + 2)) if k < 0.3 else r.randint(0, top - 1))
    if r.random() < 0.08:
        orders = [r.choice([0xfe, 0xff]) for _ in range(ordnum)]      # no pattern at all
    body = build_s3m(ffi, ordnum, insnum, patnum, magic_ok, chset, orders, r.choice([0, 6, 255]), r.choice([0, 32, 125, 255]))
    line = "s3m %d %d %d %d %d 32 %s %d %s" % (ffi, ordnum, insnum, patnum, 1 if magic_ok else 0,
                                              " ".join(str(x) for x in chset), len(orders), " ".join(str(x) for x in orders))
    return body, line.rstrip()


def build_s3m(ffi, ordnum, insnum, patnum, magic_ok, chset, orders, speed, tempo):
    hdr = bytearray(96)
    hdr[0:14] = b"c03 header tie"
    hdr[28] = 0x1a
    hdr[29] = 0x10
    struct.pack_into("<HHHHHH", hdr, 32, ordnum & 0xffff, insnum & 0xffff, patnum & 0xffff, 0, 0x1320, ffi)
    hdr[44:48] = b"SCRM" if magic_ok else b"SCRN"
    hdr[48:54] = bytes([64, speed, tempo, 0xb0, 0, 0])
    hdr[64:96] = bytes(chset)
    body = bytes(hdr) + bytes(orders[:ordnum])
    table_len = 2 * insnum + 2 * patnum
    ins_off = len(body) + table_len
    ins_off = (ins_off + 15) // 16 * 16
    ipp = ins_off // 16
    body += struct.pack("<H", ipp & 0xffff) * insnum + b"\0\0" * patnum
    body += b"\0" * (ins_off - len(body)) + b"\0" * 96
    return body


def multiseq_s3m(groups):
    """an S3M whose order list is `groups` of pattern numbers separated by 0xff end markers: one sequence per group"""
    orders = []
    for g in groups:
        orders += list(g) + [0xff]
    orders = orders[:-1]
    if len(orders) % 2:
        orders.append(0xff)
    npat = max(max(g) for g in groups) + 1
    return build_s3m(2, len(orders), 1, npat, True, [0, 1, 8, 9] + [255] * 28, orders, 6, 125)


# ---------------------------------------------------------------- XM -------

def gen_xm(r):
    version = r.choice([0x0104, 0x0104, 0x0104, 0x0103, 0x0102])
    songlen = pick(r, lambda: r.randint(1, 40), [0, 1, 255, 256, 257, 1000])
    restart = pick(r, lambda: r.randint(0, max(0, songlen - 1)), [0, songlen - 1 if songlen else 0, songlen, songlen + 1, 65535])
    restart &= 0xffff
    channels = pick(r, lambda: r.choice([1, 2, 4, 8, 16, 32]), [0, 1, 63, 64, 65, 128], 0.35)
    patterns = pick(r, lambda: r.randint(1, 10), [0, 1, 255, 256, 257], 0.25)
    instruments = pick(r, lambda: r.randint(0, 6), [0, 1, 254, 255, 256], 0.25)
    tempo = pick(r, lambda: r.randint(1, 31), [0, 1, 31, 32, 100], 0.3)
    bpm = pick(r, lambda: r.randint(32, 255), [0, 31, 32, 999, 1000, 1001, 5000], 0.3)
    hlen = pick(r, lambda: 256, [0, 1, 255, 256, 257, 300, -1], 0.2)
    headersz = max(0, 20 + hlen)
    med2xm = r.random() < 0.12
    if channels * patterns > 4096:
        patterns = r.randint(1, 4)
    rows = []
    for _ in range(min(patterns, 300)):
        if version > 0x0102:
            rows.append(pick(r, lambda: r.choice([1, 16, 32, 64]), [0, 1, 2, 255, 256, 257, 1000], 0.05))
        else:
            rows.append(pick(r, lambda: r.choice([0, 15, 31, 63]), [0, 1, 254, 255], 0.05))
    top = max(1, patterns)
    orders = bytes(r.randint(0, min(255, top - 1)) for _ in range(256))
    head = b"Extended Module: " + b"c03 header tie".ljust(20, b" ") + b"\x1a"
    head += (b"MED2XM by J.Pynnone" if med2xm else b"FastTracker v2.00  ").ljust(20, b" ")[:20] + struct.pack("<H", version)
    assert len(head) == 60
    fields = struct.pack("<IHHHHHHHH", headersz, songlen & 0xffff, restart, channels & 0xffff, patterns & 0xffff,
                         instruments & 0xffff, 1, tempo & 0xffff, bpm & 0xffff)
    body = head + fields + orders[:max(0, headersz - 20)]
    body += b"\0" * max(0, 60 + headersz - len(body))
    pats = b""
    for rw in rows:
        if version > 0x0102:
            pats += struct.pack("<IBHH", 9, 0, rw & 0xffff, 0)
        else:
            pats += struct.pack("<IBBH", 8, 0, rw & 0xff, 0)
    inss = (struct.pack("<I", 33) + b"\0" * 22 + b"\0" + struct.pack("<H", 0) + struct.pack("<I", 0)) * min(instruments, 300)
    body = body[:60 + headersz] + (inss + pats if version <= 0x0103 else pats + inss)
    line = "xm %d %d %d %d %d %d %d %d %d %d %d %s" % (songlen, restart, channels, patterns, instruments, tempo, bpm, headersz,
                                                     1 if med2xm else 0, version, len(rows), " ".join(str(x) for x in rows))
    return body, line.rstrip()


# ---------------------------------------------------------------- IT -------

def gen_it(r):
    ordnum = pick(r, lambda: r.randint(1, 40), [0, 1, 255, 256, 257, 400])
    insnum = pick(r, lambda: r.randint(0, 5), [0, 1, 254, 255, 256], 0.25)
    smpnum = pick(r, lambda: r.randint(0, 5), [0, 1, 254, 255, 256], 0.25)
    patnum = pick(r, lambda: r.randint(1, 10), [0, 1, 254, 255, 256], 0.25)
    gv = pick(r, lambda: r.randint(0, 128), [0, 127, 128, 129, 255], 0.2)
    sample_mode = True          # instrument headers are not part of the header-count logic
    pats = []
    for _ in range(patnum):
        k = r.random()
        if k < 0.25:
            pats.append((0, 0, None))                       # offset 0: empty pattern
        else:
            rows = pick(r, lambda: r.choice([1, 8, 32, 64, 200]), [0, 1, 1024, 1025, 2000], 0.04)
            ch = r.choice([None, 0, 1, 3, 7, 15, 31, 62, 63]) if r.random() < 0.7 else None
            pats.append((1, rows, ch))
    max_ch = 0
    for present, rows, ch in pats:
        if present and 1 <= rows <= 1024 and ch is not None:
            max_ch = max(max_ch, ch)
    hdr = b"IMPM" + b"c03 header tie".ljust(26, b"\0") + struct.pack("<H", 0x1004)
    hdr += struct.pack("<HHHHHHHH", ordnum & 0xffff, insnum & 0xffff, smpnum & 0xffff, patnum & 0xffff, 0x0214, 0x0200,
                       0x09, 0)
    hdr += bytes([gv, 48, r.choice([0, 6, 255]), r.choice([0, 31, 125, 255]), 128, 0]) + struct.pack("<HII", 0, 0, 0)
    hdr += bytes([32] * 64) + bytes([64] * 64)
    assert len(hdr) == 192
    top = max(1, min(patnum, 255))
    orders = bytes(r.choice([0xff, 0xfe]) if r.random() < 0.1 else r.randint(0, top - 1) for _ in range(ordnum))
    tables_at = len(hdr) + len(orders)
    data_at = tables_at + 4 * (insnum + smpnum + patnum)
    smp_hdr = b"IMPS" + b"\0" * 76
    blob = smp_hdr
    smp_off = data_at
    pat_offs = []
    for present, rows, ch in pats:
        if not present:
            pat_offs.append(0)
            continue
        d = b""
        if ch is not None:
            d += bytes([(ch + 1) | 0x80, 0])
        d += b"\0" * min(rows, 2100)
        pat_offs.append(data_at + len(blob))
        blob += struct.pack("<HHI", len(d), rows & 0xffff, 0) + d
    body = hdr + orders + struct.pack("<I", smp_off) * insnum + struct.pack("<I", smp_off) * smpnum
    body += b"".join(struct.pack("<I", o) for o in pat_offs) + blob
    line = "it %d %d %d %d %d %d %d %d %s" % (ordnum, insnum, smpnum, patnum, gv, 1 if sample_mode else 0, max_ch, len(pats),
                                            " ".join("%d %d" % (pat_offs[i], pats[i][1]) for i in range(len(pats))))
    return body, line.rstrip()


GENS = {"mod": gen_mod, "s3m": gen_s3m, "xm": gen_xm, "it": gen_it}
