#!/usr/bin/env python3
"""Prints the markdown table of genuine defects repaired in /repo: every `fix:` commit since the
pinned commit, joined with known_findings.json (property, what failed)."""
import json, os, subprocess, sys
V = os.path.dirname(os.path.dirname(os.path.abspath(__file__)))
REPO = os.environ.get("XMP_REPO", "/repo")
PIN = "b5acd54"
kf = json.load(open(os.path.join(V, "known_findings.json")))["findings"]
by_commit = {}
for f in kf:
    if f.get("status") == "fixed" and f.get("commit"):
        by_commit.setdefault(f["commit"][:7], []).append(f)
log = subprocess.run(["git", "-C", REPO, "log", "--reverse", "--format=%h\t%s", PIN + "..HEAD"], capture_output=True, text=True).stdout
print("| commit | subject | properties | what failed (from known_findings.json) |")
print("|---|---|---|---|")
n = 0
for line in log.splitlines():
    h, subj = line.split("\t", 1)
    if not subj.startswith("fix:"):
        continue
    n += 1
    fs = by_commit.get(h[:7], [])
    props = sorted({f["property"] for f in fs})
    what = " / ".join(sorted({(f["what"].split(" ", 3)[3] if f["what"].startswith("fixed:") else f["what"]) for f in fs}))
    print("| %s | %s | %s | %s |" % (h, subj[4:].strip().replace("|", "\\|"), " ".join(props), what.replace("|", "\\|")[:400]))
print()
print("%d fix commits." % n)
