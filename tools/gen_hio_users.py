#!/usr/bin/env python3
"""Translator for C07: who looks inside an HIO_HANDLE, and which loader uses
stream operations whose result can differ between back-ends.

Reads /repo/src (current working tree; src/bitrot, src/hio.[ch] and the lhasa
depacker's unrelated `->handle` excluded) and writes
lean/XmpModel/Gen/HioUsers.lean:

  hioUsers      every use of HIO_HANDLE_TYPE / HIO_HANDLE_TYPE_* / hio_get_underlying_memory /
                `->handle.` outside hio.c, by file + function + kind + role
  hioUsers_known (decide): all of them belong to an allowed class
  divergentOps  per loader function: hio_eof calls, hio_read8s calls, seeks whose offset is not a constant
  formats       format name -> loader file (struct format_loader initialisers)
  companionLoaders  loader files that open companion files (hio_open / libxmp_find_instrument_file, one call level)

`generate()` returns the same data as python structures for the test generator.
Generated terms carry no line numbers and are sorted, so moving or reformatting
code does not change them.
"""
import os
import re
import sys

sys.path.insert(0, os.path.dirname(os.path.abspath(__file__)))
import vlib  # noqa: E402


def strip_c(src):
    """Remove comments, string and char literals (keeps newlines)."""
    out = []
    i, n = 0, len(src)
    while i < n:
        c = src[i]
        if src.startswith("/*", i):
            j = src.find("*/", i + 2)
            j = n if j < 0 else j + 2
            out.append("".join(ch if ch == "\n" else " " for ch in src[i:j]))
            i = j
        elif src.startswith("//", i):
            j = src.find("\n", i)
            j = n if j < 0 else j
            i = j
        elif c == '"' or c == "'":
            j = i + 1
            while j < n and src[j] != c:
                j += 2 if src[j] == "\\" else 1
            out.append(c + c)
            i = j + 1
        else:
            out.append(c)
            i += 1
    return "".join(out)


FUNC_RE = re.compile(r"^[A-Za-z_][\w \t\*]*?\b([A-Za-z_]\w*)\s*\([^;{}]*\)\s*\{", re.M)


def functions(src):
    """Yield (name, body) of top-level function definitions of comment-stripped source."""
    for m in FUNC_RE.finditer(src):
        name = m.group(1)
        if name in ("if", "while", "for", "switch", "return", "sizeof"):
            continue
        # only top level: brace depth before the match must be 0
        depth, i = 0, m.end()
        d0 = src.count("{", 0, m.start()) - src.count("}", 0, m.start())
        if d0 != 0:
            continue
        depth = 1
        while i < len(src) and depth:
            if src[i] == "{":
                depth += 1
            elif src[i] == "}":
                depth -= 1
            i += 1
        yield name, src[m.end():i]


def split_args(s):
    """Split a call's argument text at top-level commas; returns (args, end index) for text after '('."""
    args, depth, cur, i = [], 0, [], 0
    while i < len(s):
        c = s[i]
        if c in "([":
            depth += 1
        elif c in ")]":
            if depth == 0:
                args.append("".join(cur).strip())
                return args, i
            depth -= 1
        elif c == "," and depth == 0:
            args.append("".join(cur).strip())
            cur = []
            i += 1
            continue
        cur.append(c)
        i += 1
    return args, i


def is_constant_offset(e):
    """True when the seek offset cannot depend on file data: literals, `start`, sizeof, ALLCAPS macros."""
    e = re.sub(r"sizeof\s*\([^()]*\)", "0", e)
    for ident in re.findall(r"[A-Za-z_]\w*", e):
        if ident == "start" or ident.isupper() or re.fullmatch(r"0[xX][0-9a-fA-F]+|[0-9]+[uUlL]*", ident):
            continue
        if re.fullmatch(r"[A-Z][A-Z0-9_]*", ident):
            continue
        return False
    return True


def _stmt_before(body, pos):
    """(text of the statement that contains `pos` up to `pos`, text of the statement before it)"""
    i = pos
    depth = 0
    while i > 0:
        c = body[i - 1]
        if c == ")":
            depth += 1
        elif c == "(":
            if depth == 0:
                pass
            else:
                depth -= 1
        if c in ";{}" and depth == 0:
            break
        i -= 1
    head = body[i:pos]
    j = i - 1
    while j > 0 and body[j - 1] not in ";{}":
        j -= 1
    prev = body[j:i]
    return head, prev


READ_CALL = r"\bhio_read\w*\s*\("


def classify_eof_site(body, pos):
    """How is this hio_eof() call used?
      loopGuarded      loop condition; the loop body tests a read result or hio_error within its first statements
      loopUnguarded    loop condition without such a test in the body's first statements
      afterTestedRead  consulted right after a read whose return value is tested (a short read is detected anyway)
      afterUntestedRead consulted right after `x = hio_readNN(f);` — true from memory after a COMPLETE read that ends
                       at the last byte of the data (divergence D3)
      other"""
    head, prev = _stmt_before(body, pos)
    if re.search(r"\b(while|for)\s*\($|\b(while|for)\s*\(", head):
        # first statements of the loop body
        k = body.find("{", pos)
        first = body[k + 1:k + 400] if k >= 0 else ""
        stmts = re.split(r";", first)[:4]
        txt = ";".join(stmts)
        if re.search(r"\bhio_error\s*\(", txt) or re.search(r"\bif\s*\([^;]*" + READ_CALL, txt):
            return "loopGuarded"
        return "loopUnguarded"
    if re.search(READ_CALL, prev):
        if re.match(r"\s*(if|while)\b", prev) or re.search(READ_CALL + r"[^;]*\)\s*(!=|==|<|>)", prev):
            return "afterTestedRead"
        return "afterUntestedRead"
    return "other"


def role_of(func):
    if func.endswith("_test"):
        return "formatTest"
    if func.endswith("_load"):
        return "formatLoad"
    return "other"


def scan():
    src_root = os.path.join(vlib.REPO, "src")
    users, divs, formats, comp_funcs, calls, func_file = set(), {}, {}, set(), {}, {}
    eof_sites, iff_files = {}, set()
    var_reads = {}
    for root, dirs, files in os.walk(src_root):
        dirs.sort()
        rel_root = os.path.relpath(root, src_root)
        if rel_root.split(os.sep)[0] == "bitrot" or "lhasa" in rel_root.split(os.sep):
            dirs[:] = []
            continue
        for fn in sorted(files):
            if not fn.endswith((".c", ".h")):
                continue
            rel = os.path.normpath(os.path.join(rel_root, fn))
            if rel in ("hio.c", "hio.h"):
                continue
            text = strip_c(open(os.path.join(root, fn), errors="replace").read())
            in_loaders = rel.startswith("loaders" + os.sep)
            for m in re.finditer(r"const\s+struct\s+format_loader\s+(libxmp_loader_\w+)\s*=\s*\{", text):
                pass
            for name, body in functions(text):
                func_file.setdefault(name, rel)
                if re.search(r"\bHIO_HANDLE_TYPE\s*\(|\bHIO_HANDLE_TYPE_(FILE|MEMORY|CBFILE)\b", body):
                    users.add((rel, name, "handleType", role_of(name)))
                if re.search(r"\bhio_get_underlying_memory\s*\(", body):
                    users.add((rel, name, "underlyingMemory", role_of(name)))
                if re.search(r"(->|\.)\s*handle\s*(\.|\))", body):
                    users.add((rel, name, "handleField", role_of(name)))
                if rel.startswith(("loaders" + os.sep, "depackers" + os.sep)):
                    for em in re.finditer(r"\bhio_eof\s*\(", body):
                        kind = classify_eof_site(body, em.start())
                        eof_sites[(rel, name, kind)] = eof_sites.get((rel, name, kind), 0) + 1
                if in_loaders:
                    for rm in re.finditer(r"\bhio_read\s*\(", body):
                        args, _ = split_args(body[rm.end():])
                        if len(args) == 4 and not is_constant_offset(args[1]):
                            var_reads[(rel, name)] = var_reads.get((rel, name), 0) + 1
                if in_loaders and re.search(r"\blibxmp_iff_load\s*\(", body):
                    iff_files.add(rel)
                if rel.startswith("depackers"):
                    continue
                if in_loaders or os.sep not in rel:
                    n_eof = len(re.findall(r"\bhio_eof\s*\(", body))
                    n_r8s = len(re.findall(r"\bhio_read8s\s*\(", body))
                    if n_eof:
                        divs[(rel, name, "eofCall")] = n_eof
                    if n_r8s:
                        divs[(rel, name, "read8sCall")] = n_r8s
                    for sm in re.finditer(r"\bhio_seek\s*\(", body):
                        args, _ = split_args(body[sm.end():])
                        if len(args) != 3:
                            continue
                        wh = args[2].strip()
                        kind = {"SEEK_CUR": "dataSeekCur", "SEEK_SET": "dataSeekSet", "SEEK_END": "dataSeekEnd"}.get(wh)
                        if kind and not is_constant_offset(args[1]):
                            divs[(rel, name, kind)] = divs.get((rel, name, kind), 0) + 1
                if in_loaders:
                    if re.search(r"\bhio_open\s*\(|\blibxmp_find_instrument_file\s*\(", body):
                        comp_funcs.add((rel, name))
                    calls[(rel, name)] = set(re.findall(r"\b([A-Za-z_]\w*)\s*\(", body))
    # format names need the string literals: re-read loaders without stripping strings
    ldir = os.path.join(src_root, "loaders")
    for fn in sorted(os.listdir(ldir)):
        if not fn.endswith(".c"):
            continue
        raw = open(os.path.join(ldir, fn), errors="replace").read()
        for m in re.finditer(r"const\s+struct\s+format_loader\s+libxmp_loader_(\w+)\s*=\s*\{([^}]*)\}", raw):
            for nm in re.findall(r"\"((?:[^\"\\]|\\.)*)\"", m.group(2)):
                formats[nm] = (os.path.join("loaders", fn), m.group(1))
    # ProWizard sub-formats (struct pw_format): the test entry points report these names as the type
    pdir = os.path.join(ldir, "prowizard")
    for fn in sorted(os.listdir(pdir)):
        if not fn.endswith(".c"):
            continue
        raw = open(os.path.join(pdir, fn), errors="replace").read()
        for m in re.finditer(r"const\s+struct\s+pw_format\s+(pw_\w+)\s*=\s*\{\s*\"((?:[^\"\\]|\\.)*)\"", raw):
            formats.setdefault(m.group(2), (os.path.join("loaders", "prowizard", fn), m.group(1)))
    # companion-file loaders: files defining a function that opens files, plus files calling such a
    # function (one level: mmd_common.c helpers used by mmd1_load.c / mmd3_load.c)
    comp_names = {name for (_, name) in comp_funcs}
    changed = True
    while changed:          # callers of callers ... (mmd_common.c helpers used by the med/mmd loaders)
        changed = False
        for (rel, name), callees in calls.items():
            if name not in comp_names and callees & comp_names:
                comp_names.add(name)
                changed = True
    comp_files = {rel for (rel, name) in calls if name in comp_names}
    return users, divs, formats, sorted(comp_files), eof_sites, sorted(iff_files), var_reads


def lean_str(s):
    return '"' + s.replace("\\", "\\\\").replace('"', '\\"') + '"'


def generate():
    users, divs, formats, comp_files, eof_sites, iff_files, var_reads = scan()
    users = sorted(users)
    div_items = sorted(divs.items())
    L = []
    L.append("/-! GENERATED by tools/gen_hio_users.py from /repo/src — do not edit.")
    L.append("Who looks inside an `HIO_HANDLE` outside hio.c, and which loader functions use")
    L.append("stream operations whose result can differ between back-ends on damaged data. -/")
    L.append("namespace Xmp.Gen.HioUsers")
    L.append("")
    L.append("inductive UseKind where")
    L.append("  | handleType | underlyingMemory | handleField")
    L.append("  deriving DecidableEq, Repr")
    L.append("")
    L.append("inductive Role where")
    L.append("  | formatTest | formatLoad | other")
    L.append("  deriving DecidableEq, Repr")
    L.append("")
    L.append("structure HioUser where")
    L.append("  file : String")
    L.append("  func : String")
    L.append("  kind : UseKind")
    L.append("  role : Role")
    L.append("  deriving DecidableEq, Repr")
    L.append("")
    L.append("/-- every use of `HIO_HANDLE_TYPE`, `HIO_HANDLE_TYPE_*`, `hio_get_underlying_memory` or `->handle.`")
    L.append("outside hio.c / hio.h -/")
    L.append("def hioUsers : List HioUser := [")
    L.append(",\n".join("  { file := %s, func := %s, kind := .%s, role := .%s }" % (lean_str(f), lean_str(fn), k, r)
                        for (f, fn, k, r) in users))
    L.append("]")
    L.append("")
    L.append("/-- back-end dependent code that is known and accounted for: only the ProWizard memory fast path")
    L.append("(`pw_check`), which reads the same bytes directly instead of copying them.  (`mfp_test` used to ask for")
    L.append("the handle type — finding `entry:mfp:file-handle`, repaired; a format test or loader doing so again")
    L.append("breaks `hioUsers_known`.) -/")
    L.append("def allowed (u : HioUser) : Bool :=")
    L.append("  u.kind == .underlyingMemory && u.role == .other && u.file == \"loaders/prowizard/prowiz.c\"")
    L.append("")
    L.append("/-- \"loaders are `StreamProg`s\" is a checked premise with named exceptions: a new place that looks")
    L.append("inside a handle breaks this proof. -/")
    L.append("theorem hioUsers_known : hioUsers.all allowed = true := by decide")
    L.append("")
    L.append("/-- no format *loader* function looks inside the handle -/")
    L.append("theorem hioUsers_no_loader : hioUsers.all (fun u => u.role != .formatLoad) = true := by decide")
    L.append("")
    L.append("/-- nothing reaches into the union `h->handle` directly -/")
    L.append("theorem hioUsers_no_field : hioUsers.all (fun u => u.kind != .handleField) = true := by decide")
    L.append("")
    L.append("inductive EofUse where")
    L.append("  | loopGuarded | loopUnguarded | afterTestedRead | afterUntestedRead | other")
    L.append("  deriving DecidableEq, Repr")
    L.append("")
    L.append("structure EofSite where")
    L.append("  file : String")
    L.append("  func : String")
    L.append("  use : EofUse")
    L.append("  count : Nat")
    L.append("  deriving DecidableEq, Repr")
    L.append("")
    L.append("/-- every `hio_eof` call in src/loaders and src/depackers by file, function and kind of use:")
    L.append("`afterTestedRead` = right after a read whose return value is tested (inside the discipline of")
    L.append("`Xmp.Stream.EofGuarded`), `afterUntestedRead` = right after `x = hio_readNN(f);` (true from memory after a")
    L.append("complete read ending at the last byte: divergence D3), `loopGuarded`/`loopUnguarded` = loop condition")
    L.append("with/without a tested read or `hio_error` at the head of the loop body -/")
    L.append("def eofSites : List EofSite := [")
    L.append(",\n".join("  { file := %s, func := %s, use := .%s, count := %d }" % (lean_str(f), lean_str(fn), k, c)
                        for ((f, fn, k), c) in sorted(eof_sites.items())))
    L.append("]")
    L.append("")
    L.append("/-- the reviewed uses (file, function, kind, at most so many): a `hio_eof` call anywhere else, of another")
    L.append("kind, or one more of them in a listed function breaks `eofSites_known`.")
    L.append("* arch_test, med4_load: chunk loops whose body stops on `hio_error` / a tested header read;")
    L.append("* libxmp_iff_load: the body is `iff_chunk`, which tests every header read.")
    L.append("  (mmd1_load / mmd3_load used to test `hio_eof` right after `smplarr[i] = hio_read32b(f)`: finding")
    L.append("  `entry:mmd1:load-rc`, repaired; no `afterUntestedRead` use is allowed any more.) -/")
    L.append("def allowedEof : List (String × String × EofUse × Nat) := [")
    L.append("  (\"loaders/arch_load.c\", \"arch_test\", .loopGuarded, 1),")
    L.append("  (\"loaders/med4_load.c\", \"med4_load\", .loopGuarded, 1),")
    L.append("  (\"loaders/iff.c\", \"libxmp_iff_load\", .loopUnguarded, 1)]")
    L.append("")
    L.append("def eofAllowed (e : EofSite) : Bool :=")
    L.append("  allowedEof.any fun (f, fn, u, n) => f == e.file && fn == e.func && u == e.use && e.count ≤ n")
    L.append("")
    L.append("theorem eofSites_known : eofSites.all eofAllowed = true := by decide")
    L.append("")
    L.append("/-- no loader consults `hio_eof` right after a read whose result it does not test (divergence D3) -/")
    L.append("theorem eofSites_no_untested : eofSites.all (fun e => e.use != .afterUntestedRead) = true := by decide")
    L.append("")
    L.append("structure ReadSite where")
    L.append("  file : String")
    L.append("  func : String")
    L.append("  count : Nat")
    L.append("  deriving DecidableEq, Repr")
    L.append("")
    L.append("/-- every `hio_read(buf, SIZE, COUNT, f)` in src/loaders whose item SIZE is not a literal / sizeof / macro")
    L.append("constant, i.e. can be 0 at run time.  A read of items of size 0 is divergence D4: stdio records error -2,")
    L.append("which a later successful seek does not clear, memory and callbacks record EOF, which it clears.  The safe")
    L.append("form is a constant size (normally 1) and a variable COUNT. -/")
    L.append("def varSizeReads : List ReadSite := [")
    L.append(",\n".join("  { file := %s, func := %s, count := %d }" % (lean_str(f), lean_str(fn), c)
                        for ((f, fn), c) in sorted(var_reads.items())))
    L.append("]")
    L.append("")
    L.append("/-- the reviewed ones (file, function, at most so many); a new variable-size read anywhere else breaks")
    L.append("`readSites_item_size_known`.  far_load / mod_load: size is rows*64 resp. 64*4*channels with both factors")
    L.append("checked >= 1; xm_load: the result is tested at once (`!= 1` fails identically everywhere); the ProWizard")
    L.append("depackers copy tables / sample data whose size 0 is skipped or followed by no error test.")
    L.append("(dt_load.c get_d_t_ used to read the title as ONE item of name_len bytes: with an empty name that was")
    L.append("finding `entry:dt:load-rc`, repaired; it is no longer in the table.) -/")
    L.append("def allowedVarSizeReads : List (String × String × Nat) := [")
    L.append("  (\"loaders/far_load.c\", \"far_load\", 1),")
    L.append("  (\"loaders/mod_load.c\", \"mod_load\", 1),")
    L.append("  (\"loaders/xm_load.c\", \"xm_load\", 1),")
    L.append("  (\"loaders/prowizard/p61a.c\", \"depack_p61a\", 1),")
    L.append("  (\"loaders/prowizard/pm10c.c\", \"depack_p10c\", 1),")
    L.append("  (\"loaders/prowizard/pm18a.c\", \"depack_p18a\", 1),")
    L.append("  (\"loaders/prowizard/pp21.c\", \"depack_pp21_pp30\", 1),")
    L.append("  (\"loaders/prowizard/theplayer.c\", \"theplayer_depack\", 1)]")
    L.append("")
    L.append("theorem readSites_item_size_known :")
    L.append("    varSizeReads.all (fun r => allowedVarSizeReads.any fun (f, fn, n) => f == r.file && fn == r.func && r.count ≤ n) = true := by")
    L.append("  decide")
    L.append("")
    L.append("inductive DivKind where")
    L.append("  | eofCall | read8sCall | dataSeekCur | dataSeekSet | dataSeekEnd")
    L.append("  deriving DecidableEq, Repr")
    L.append("")
    L.append("structure DivOp where")
    L.append("  file : String")
    L.append("  func : String")
    L.append("  kind : DivKind")
    L.append("  count : Nat")
    L.append("  deriving Repr")
    L.append("")
    L.append("/-- steering data for the C07 test generator (not a proof premise): per function, `hio_eof` calls,")
    L.append("`hio_read8s` calls and seeks whose offset is not a constant expression -/")
    L.append("def divergentOps : List DivOp := [")
    L.append(",\n".join("  { file := %s, func := %s, kind := .%s, count := %d }" % (lean_str(f), lean_str(fn), k, c)
                        for ((f, fn, k), c) in div_items))
    L.append("]")
    L.append("")
    eof_files = sorted({f for ((f, _, k), _) in div_items if k == "eofCall"})
    L.append("def eofLoaders : List String := [" + ", ".join(lean_str(f) for f in eof_files) + "]")
    L.append("")
    L.append("/-- loader files that open companion files (multi-file formats) -/")
    L.append("def companionLoaders : List String := [" + ", ".join(lean_str(f) for f in comp_files) + "]")
    L.append("")
    L.append("end Xmp.Gen.HioUsers")
    text = "\n".join(L) + "\n"
    vlib.write_if_changed(os.path.join(vlib.LEAN, "XmpModel", "Gen", "HioUsers.lean"), text)
    by_file = {}
    for ((f, fn, k), c) in div_items:
        by_file.setdefault(f, {}).setdefault(k, 0)
        by_file[f][k] += c
    return {
        "hio_users": [dict(file=f, func=fn, kind=k, role=r) for (f, fn, k, r) in users],
        "divergent_ops": [dict(file=f, func=fn, kind=k, count=c) for ((f, fn, k), c) in div_items],
        "by_file": by_file,
        "eof_files": eof_files,
        "data_seek_files": sorted({f for ((f, _, k), _) in div_items if k.startswith("dataSeek")}),
        "read8s_files": sorted({f for ((f, _, k), _) in div_items if k == "read8sCall"}),
        "formats": formats,            # format name -> (loader file, loader id)
        "companion_files": comp_files,
        "eof_sites": [dict(file=f, func=fn, use=k, count=c) for ((f, fn, k), c) in sorted(eof_sites.items())],
        "iff_files": iff_files,
        "var_size_reads": [dict(file=f, func=fn, count=c) for ((f, fn), c) in sorted(var_reads.items())],
        "var_size_read_files": sorted({f for (f, _) in var_reads}),
    }


if __name__ == "__main__":
    r = generate()
    print("hio users:", r["hio_users"])
    print("divergent ops: %d entries; eof files: %s" % (len(r["divergent_ops"]), r["eof_files"]))
    print("read8s files:", r["read8s_files"])
    print("data-seek files: %d" % len(r["data_seek_files"]))
    print("companion files:", r["companion_files"])
    print("eof sites:", r["eof_sites"])
    print("iff files:", r["iff_files"])
    print("variable-size reads:", r["var_size_reads"])
    print("formats: %d" % len(r["formats"]))
