#!/usr/bin/env python3
"""Translator for C08: regenerates lean/XmpModel/Gen/Depackers.lean from the working tree.

Extracted facts (all by regular expressions / a tiny C expression parser, see DESIGN.md 2.1 T):
  * depacker_list order (src/depackers/depacker.c, entries under #if are skipped when the guard is
    an Amiga-only one) and, for every entry, its `test` function translated into a `Magic` term;
  * the sniffing limits of libxmp_decrunch (buffer size, minimum file size);
  * the exclude globs of libxmp_exclude_match;
  * gzip flag bits (gunzip.c), XZ_MAX_DICT (unxz.c), BUFLEN of set_md5sum (load.c);
  * the method lists of is_arc_archive / arc_method_is_supported (arc.c, arc_unpack.h);
  * the 64 MD5STEP lines and the initial state of md5.c.
A construct the parser does not know raises TranslatorError (reported by the check as an unproved
tie, not silently ignored).
"""
import os
import re
import sys

sys.path.insert(0, os.path.dirname(os.path.abspath(__file__)))
import vlib  # noqa: E402


class TranslatorError(Exception):
    pass


def strip_comments(s):
    s = re.sub(r"/\*.*?\*/", " ", s, flags=re.S)
    return re.sub(r"//[^\n]*", " ", s)


def read(rel):
    return open(os.path.join(vlib.REPO, rel), encoding="latin-1").read()


# ---------------------------------------------------------------- C literals
def c_string_bytes(lit):
    """bytes of a C string literal (without the quotes)"""
    out = []
    i = 0
    while i < len(lit):
        c = lit[i]
        if c != "\\":
            out.append(ord(c))
            i += 1
            continue
        i += 1
        c = lit[i]
        if c == "x":
            j = i + 1
            while j < len(lit) and j < i + 3 and lit[j] in "0123456789abcdefABCDEF":
                j += 1
            out.append(int(lit[i + 1:j], 16))
            i = j
        elif c in "01234567":
            j = i
            while j < len(lit) and j < i + 3 and lit[j] in "01234567":
                j += 1
            out.append(int(lit[i:j], 8))
            i = j
        else:
            out.append({"n": 10, "t": 9, "r": 13, "0": 0, "\\": 92, "'": 39, '"': 34, "?": 63, "a": 7}[c])
            i += 1
    return out


TOK = re.compile(r"""\s*(?:(0[xX][0-9a-fA-F]+|\d+)[uUlL]*|'((?:\\.|[^'\\])+)'|"((?:\\.|[^"\\])*)"|([A-Za-z_]\w*)|(==|!=|<=|>=|&&|\|\||[-!()\[\]+,<>?:*&]))""")


def tokenize(s):
    pos = 0
    out = []
    s = s.strip()
    while pos < len(s):
        m = TOK.match(s, pos)
        if not m:
            raise TranslatorError("cannot tokenize %r" % s[pos:pos + 30])
        pos = m.end()
        if m.group(1) is not None:
            out.append(("num", int(m.group(1), 0)))
        elif m.group(2) is not None:
            b = c_string_bytes(m.group(2))
            out.append(("num", b[0]))
        elif m.group(3) is not None:
            out.append(("str", c_string_bytes(m.group(3))))
        elif m.group(4) is not None:
            out.append(("id", m.group(4)))
        else:
            out.append(("op", m.group(5)))
    return out


class Parser:
    """return-expression of a depacker test function -> Magic term (nested tuples)"""

    def __init__(self, toks, buf, arrays, funcs):
        self.t = toks
        self.i = 0
        self.buf = buf
        self.arrays = arrays      # name -> list of byte values
        self.funcs = funcs        # name -> callable(parser, args) -> term

    def peek(self):
        return self.t[self.i] if self.i < len(self.t) else (None, None)

    def eat(self, kind=None, val=None):
        k, v = self.peek()
        if (kind and k != kind) or (val is not None and v != val):
            raise TranslatorError("expected %s %s, got %s %s" % (kind, val, k, v))
        self.i += 1
        return v

    def parse(self):
        e = self.p_or()
        if self.i != len(self.t):
            raise TranslatorError("trailing tokens %r" % (self.t[self.i:],))
        return e

    def p_or(self):
        e = self.p_and()
        while self.peek() == ("op", "||"):
            self.eat()
            e = ("or", e, self.p_and())
        return e

    def p_and(self):
        e = self.p_un()
        while self.peek() == ("op", "&&"):
            self.eat()
            e = ("and", e, self.p_un())
        return e

    def p_un(self):
        if self.peek() == ("op", "!"):
            self.eat()
            return self.negate(self.p_un())
        if self.peek() == ("op", "("):
            self.eat()
            e = self.p_or()
            self.eat("op", ")")
            return e
        return self.p_cmp()

    @staticmethod
    def negate(e):
        if e[0] == "memcmp":          # !memcmp(...)
            return ("memEq", e[1], e[2])
        if e[0] == "not":
            return e[1]
        return ("not", e)

    def p_cmp(self):
        a = self.p_term()
        k, v = self.peek()
        if k == "op" and v in ("==", "!=", "<=", ">=", "<", ">"):
            self.eat()
            b = self.p_term()
            return self.mk_cmp(a, v, b)
        if a[0] in ("memcmp", "byte", "num"):
            # C truth value of a bare term
            if a[0] == "memcmp":
                return ("not", ("memEq", a[1], a[2]))
            raise TranslatorError("bare term %r" % (a,))
        return a

    def mk_cmp(self, a, op, b):
        if a[0] == "num" and b[0] != "num":
            a, b = b, a
            op = {"<=": ">=", ">=": "<=", "<": ">", ">": "<"}.get(op, op)
        if a[0] == "byte" and b[0] == "num":
            off, v = a[1], b[1]
            if op == "==":
                return ("byteEq", off, v)
            if op == "!=":
                return ("not", ("byteEq", off, v))
            if op == "<=":
                return ("byteLe", off, v)
            if op == "<":
                if v == 0:
                    return ("ff",)
                return ("byteLe", off, v - 1)
            if op == ">=":
                if v == 0:
                    return ("tt",)
                return ("not", ("byteLe", off, v - 1))
            if op == ">":
                return ("not", ("byteLe", off, v))
        if a[0] == "memcmp" and b == ("num", 0):
            if op == "==":
                return ("memEq", a[1], a[2])
            if op == "!=":
                return ("not", ("memEq", a[1], a[2]))
        if a[0] == "call01" and b == ("num", 0) and op == "==":
            return a[1]
        raise TranslatorError("unsupported comparison %r %s %r" % (a, op, b))

    def p_bufexpr(self):
        """b | b + N  -> offset"""
        self.eat("id", self.buf)
        off = 0
        if self.peek() == ("op", "+"):
            self.eat()
            off = self.eat("num")
        return off

    def p_term(self):
        k, v = self.peek()
        if k == "num":
            self.eat()
            return ("num", v)
        if k == "op" and v == "(":
            # a cast such as (int)
            self.eat()
            self.eat("id")
            self.eat("op", ")")
            return self.p_term()
        if k == "id" and v == self.buf:
            self.eat()
            self.eat("op", "[")
            off = self.eat("num")
            self.eat("op", "]")
            return ("byte", off)
        if k == "id" and v == "memcmp":
            self.eat()
            self.eat("op", "(")
            off = self.p_bufexpr()
            self.eat("op", ",")
            k2, v2 = self.peek()
            if k2 == "str":
                self.eat()
                data = v2 + [0]           # the literal's terminating NUL is addressable
                name = None
            else:
                name = self.eat("id")
                if name not in self.arrays:
                    raise TranslatorError("unknown array %s" % name)
                data = self.arrays[name]
            self.eat("op", ",")
            k3, v3 = self.peek()
            if k3 == "num":
                self.eat()
                n = v3
            else:
                self.eat("id", "sizeof")
                self.eat("op", "(")
                nm = self.eat("id")
                self.eat("op", ")")
                n = len(self.arrays[nm])
            self.eat("op", ")")
            if n > len(data):
                raise TranslatorError("memcmp length exceeds literal")
            return ("memcmp", off, data[:n])
        if k == "id" and v in self.funcs:
            self.eat()
            self.eat("op", "(")
            self.eat("id", self.buf)
            self.eat("op", ")")
            return self.funcs[v]
        raise TranslatorError("unsupported term at %r" % (self.t[self.i:self.i + 4],))


def func_body(src, name):
    m = re.search(r"\b%s\s*\(([^)]*)\)\s*\{" % re.escape(name), src)
    if not m:
        raise TranslatorError("function %s not found" % name)
    i = m.end()
    depth = 1
    while depth and i < len(src):
        if src[i] == "{":
            depth += 1
        elif src[i] == "}":
            depth -= 1
        i += 1
    return m.group(1), src[m.end():i - 1]


def byte_arrays(src):
    out = {}
    for m in re.finditer(r"static\s+const\s+(?:uint8|unsigned char|char)\s+(\w+)\s*\[\s*\]\s*=\s*\{([^}]*)\}", src):
        vals = []
        for tok in m.group(2).split(","):
            tok = tok.strip()
            if not tok:
                continue
            t = tokenize(tok)
            if len(t) != 1 or t[0][0] != "num":
                vals = None
                break
            vals.append(t[0][1])
        if vals is not None:
            out[m.group(1)] = vals
    return out


def enum_and_defines(*srcs):
    env = {}
    for src in srcs:
        for m in re.finditer(r"#define\s+(\w+)\s+(0[xX][0-9a-fA-F]+|\d+)\s*$", src, re.M):
            env[m.group(1)] = int(m.group(2), 0)
        for m in re.finditer(r"enum\s+\w*\s*\{([^}]*)\}", src, re.S):
            nxt = 0
            for item in m.group(1).split(","):
                item = item.strip()
                if not item:
                    continue
                mm = re.match(r"(\w+)\s*(?:=\s*(0[xX][0-9a-fA-F]+|\d+))?$", item)
                if not mm:
                    continue
                if mm.group(2) is not None:
                    nxt = int(mm.group(2), 0)
                env[mm.group(1)] = nxt
                nxt += 1
    return env


def case_labels(body, env):
    vals = []
    for m in re.finditer(r"\bcase\s+([^:]+):", body):
        t = m.group(1).strip()
        if t in env:
            vals.append(env[t])
        else:
            try:
                vals.append(int(t, 0))
            except ValueError:
                raise TranslatorError("unknown case label %s" % t)
    return vals


# ---------------------------------------------------------------- Lean rendering
def lean_magic(e):
    k = e[0]
    if k in ("tt", "ff", "arcTest"):
        return "." + k
    if k == "byteEq":
        return "(.byteEq %d %d)" % (e[1], e[2])
    if k == "byteLe":
        return "(.byteLe %d %d)" % (e[1], e[2])
    if k == "memEq":
        return "(.memEq %d [%s])" % (e[1], ", ".join(str(x) for x in e[2]))
    if k == "not":
        return "(.not %s)" % lean_magic(e[1])
    if k in ("and", "or"):
        return "(.%s %s %s)" % (k, lean_magic(e[1]), lean_magic(e[2]))
    raise TranslatorError("cannot render %r" % (e,))


def lean_bytes(bs):
    return "[" + ", ".join(str(b) for b in bs) + "]"


def extract():
    dep = strip_comments(read("src/depackers/depacker.c"))
    facts = {}
    # depacker_list, dropping entries inside Amiga-only #if blocks
    m = re.search(r"depacker_list\s*\[\s*\]\s*=\s*\{(.*?)\};", dep, re.S)
    if not m:
        raise TranslatorError("depacker_list not found")
    names = []
    skip = 0
    for line in m.group(1).splitlines():
        ls = line.strip()
        if ls.startswith("#if"):
            skip += 1
            continue
        if ls.startswith("#endif"):
            skip -= 1
            continue
        mm = re.match(r"&libxmp_depacker_(\w+)\s*,", ls)
        if mm and not skip:
            names.append(mm.group(1))
    if not names:
        raise TranslatorError("empty depacker_list")
    # locate definitions
    ddir = os.path.join(vlib.REPO, "src", "depackers")
    defs = {}
    srcs = {}
    for fn in sorted(os.listdir(ddir)):
        if not fn.endswith(".c"):
            continue
        s = strip_comments(open(os.path.join(ddir, fn), encoding="latin-1").read())
        for mm in re.finditer(r"const\s+struct\s+depacker\s+libxmp_depacker_(\w+)\s*=\s*\{\s*(\w+)\s*,\s*(\w+)\s*,\s*(\w+)\s*\}", s):
            defs[mm.group(1)] = (fn, mm.group(2), mm.group(3), mm.group(4))
            srcs[fn] = s
    arc_h = strip_comments(read("src/depackers/arc_unpack.h"))
    entries = []
    for n in names:
        if n not in defs:
            raise TranslatorError("definition of libxmp_depacker_%s not found" % n)
        fn, test, test_hio, depack = defs[n]
        if test_hio != "NULL":
            raise TranslatorError("depacker %s uses test_hio (not modelled)" % n)
        if test == "NULL":
            entries.append((n, fn, ("ff",)))
            continue
        s = srcs[fn]
        args, body = func_body(s, test)
        buf = re.search(r"(\w+)\s*$", args).group(1)
        mret = re.search(r"return\s+(.*?);", body, re.S)
        if not mret:
            raise TranslatorError("no return in %s" % test)
        funcs = {}
        if "is_arc_archive" in body:
            funcs["is_arc_archive"] = ("arcTest",)
        if "arcfs_check_magic" in body:
            a2, b2 = func_body(s, "arcfs_check_magic")
            buf2 = re.search(r"(\w+)\s*$", a2).group(1)
            m2 = re.search(r"return\s+(memcmp\s*\(.*?\))\s*\?\s*-1\s*:\s*0\s*;", b2, re.S)
            if not m2:
                raise TranslatorError("arcfs_check_magic shape changed")
            t2 = Parser(tokenize(m2.group(1)), buf2, byte_arrays(s), {}).p_term()
            funcs["arcfs_check_magic"] = ("call01", ("memEq", t2[1], t2[2]))
        term = Parser(tokenize(mret.group(1)), buf, byte_arrays(s), funcs).parse()
        entries.append((n, fn, term))
    facts["entries"] = entries
    # sniffing limits
    m = re.search(r"unsigned\s+char\s+b\s*\[\s*(\d+)\s*\]", dep)
    m2 = re.search(r"headersize\s*=\s*hio_read\s*\(\s*b\s*,\s*1\s*,\s*(\d+)", dep)
    if not m or not m2 or m.group(1) != m2.group(1):
        raise TranslatorError("sniff buffer of libxmp_decrunch not recognised")
    facts["sniff"] = int(m.group(1))
    m = re.search(r"if\s*\(\s*headersize\s*<\s*(\d+)\s*\)\s*\{?\s*return\s+0\s*;", dep)
    facts["minsize"] = int(m.group(1)) if m else None
    if m is None:
        m = re.search(r"if\s*\(\s*headersize\s*<=\s*0\s*\)", dep)
        facts["minsize"] = 1 if m else 0
    # exclude globs
    a, body = func_body(dep, "libxmp_exclude_match")
    m = re.search(r"exclude\s*\[\s*\]\s*=\s*\{(.*?)NULL\s*\}", body, re.S)
    if not m:
        raise TranslatorError("exclude[] not found")
    globs = [c_string_bytes(x) for x in re.findall(r'"((?:\\.|[^"\\])*)"', m.group(1))]
    for g in globs:
        if 0x5b in g:
            raise TranslatorError("bracket expression in exclude glob (not modelled)")
        if g and g[-1] == 0x5c and (len(g) < 2 or g[-2] != 0x5c):
            raise TranslatorError("trailing backslash in exclude glob")
    if not re.search(r"fnmatch\s*\(\s*exclude\s*\[\s*i\s*\]\s*,\s*name\s*,\s*0\s*\)", body):
        raise TranslatorError("fnmatch flags changed")
    facts["globs"] = globs
    # gzip flags
    gz = strip_comments(read("src/depackers/gunzip.c"))
    flags = {mm.group(1): 1 << int(mm.group(2)) for mm in re.finditer(r"#define\s+FLAG_(\w+)\s+\(1\s*<<\s*(\d+)\)", gz)}
    for k in ("FTEXT", "FHCRC", "FEXTRA", "FNAME", "FCOMMENT"):
        if k not in flags:
            raise TranslatorError("gzip flag %s not found" % k)
    facts["gzflags"] = flags
    # MMCMP bit-width tables and flag bits
    mm = strip_comments(read("src/depackers/mmcmp.c"))
    tabs = {}
    for nm in ("cmd_8bits", "fetch_8bit", "cmd_16bit", "fetch_16bit"):
        m = re.search(r"static\s+const\s+uint32\s+%s\s*\[\s*(\d+)\s*\]\s*=\s*\{(.*?)\}" % nm, mm, re.S)
        if not m:
            raise TranslatorError("mmcmp table %s not found" % nm)
        vals = [int(x, 0) for x in re.findall(r"0x[0-9a-fA-F]+|\d+", m.group(2))]
        if len(vals) != int(m.group(1)):
            raise TranslatorError("mmcmp table %s: %d values, declared %s" % (nm, len(vals), m.group(1)))
        tabs[nm] = vals
    if len(tabs["cmd_8bits"]) != 8 or len(tabs["fetch_8bit"]) != 8 or len(tabs["cmd_16bit"]) != 16 or len(tabs["fetch_16bit"]) != 16:
        raise TranslatorError("mmcmp tables: unexpected sizes")
    facts["mmcmp_tables"] = tabs
    mmflags = {k: int(v, 0) for k, v in re.findall(r"#define\s+MMCMP_(\w+)\s+(0x[0-9a-fA-F]+)", mm)}
    for k in ("COMP", "DELTA", "16BIT", "ABS16"):
        if k not in mmflags:
            raise TranslatorError("MMCMP_%s not found" % k)
    facts["mmcmp_flags"] = mmflags
    # LHA "new" decoders (-lh4- .. -lh7-): the history ring starts filled with one byte value; copy threshold
    lhn = strip_comments(read("src/depackers/lhasa/lh_new_decoder.c"))
    try:
        body = func_body(lhn, "init_ring_buffer")[1]
    except TranslatorError:
        raise TranslatorError("lh_new_decoder.c: init_ring_buffer not found")
    m = re.search(r"memset\s*\(\s*decoder->ringbuf\s*,\s*('(?:\\.|[^'])'|0x[0-9a-fA-F]+|\d+)\s*,\s*RING_BUFFER_SIZE\s*\)", body)
    if not m:
        raise TranslatorError("init_ring_buffer: the memset that fills the whole history ring was not found")
    lit = m.group(1)
    if lit.startswith("'"):
        inner = lit[1:-1]
        fill = ord(inner) if len(inner) == 1 else {"\\0": 0, "\\n": 10, "\\t": 9, "\\\\": 92}.get(inner)
        if fill is None:
            raise TranslatorError("init_ring_buffer: fill character %s not understood" % lit)
    else:
        fill = int(lit, 0)
    m = re.search(r"#define\s+COPY_THRESHOLD\s+(\d+)", lhn)
    if not m:
        raise TranslatorError("lh_new_decoder.c: COPY_THRESHOLD not found")
    facts["lh_new"] = {"fill": fill, "threshold": int(m.group(1))}
    hb = {}
    for nm in ("lh5", "lh6", "lh7"):
        src = strip_comments(read("src/depackers/lhasa/%s_decoder.c" % nm))
        m1 = re.search(r"#define\s+HISTORY_BITS\s+(\d+)", src)
        m2 = re.search(r"#define\s+OFFSET_BITS\s+(\d+)", src)
        if not m1 or not m2:
            raise TranslatorError("%s_decoder.c: HISTORY_BITS / OFFSET_BITS not found" % nm)
        hb[nm] = (int(m1.group(1)), int(m2.group(1)))
    facts["lh_new"]["bits"] = hb
    # ARC squeeze: tree size limit and its comparison, lookup width, window of the two-stage methods
    au = strip_comments(read("src/depackers/arc_unpack.c"))
    sq = {}
    for k in ("HUFFMAN_TREE_MAX", "LOOKUP_BITS", "ARC_BUFFER_SIZE"):
        m = re.search(r"#define\s+%s\s+(\d+)" % k, au)
        if not m:
            raise TranslatorError("arc_unpack.c: %s not found" % k)
        sq[k] = int(m.group(1))
    body = func_body(au, "arc_huffman_init")[1]
    m = re.search(r"if\s*\(\s*!\s*arc->num_huffman\s*\|\|\s*arc->num_huffman\s*(>=|>)\s*HUFFMAN_TREE_MAX\s*\)", body)
    if not m:
        raise TranslatorError("arc_huffman_init: node count test not recognised")
    sq["inclusive"] = (m.group(1) == ">")
    facts["squeeze"] = sq
    # xz dictionary cap
    xz = strip_comments(read("src/depackers/unxz.c"))
    m = re.search(r"#define\s+XZ_MAX_DICT\s+\(\s*(\d+)\s*<<\s*(\d+)\s*\)", xz)
    facts["xzdict"] = (int(m.group(1)) << int(m.group(2))) if m else 0
    # md5 loop buffer
    ld = strip_comments(read("src/load.c"))
    m = re.search(r"#define\s+BUFLEN\s+(\d+)", ld)
    facts["md5buf"] = int(m.group(1)) if m else 0
    # ARC method lists
    arc = srcs.get("arc.c") or strip_comments(read("src/depackers/arc.c"))
    env = enum_and_defines(arc_h, arc)
    a, body = func_body(arc, "is_arc_archive")
    parts = re.split(r"switch\s*\(", body)
    if len(parts) != 3:
        raise TranslatorError("is_arc_archive: expected two switch statements")
    if not parts[1].lstrip().startswith("buf[1])") or "0x80" not in parts[2].split(")")[1] + parts[2][:40]:
        raise TranslatorError("is_arc_archive: switch subjects changed")
    facts["arc_plain"] = sorted(set(case_labels(parts[1], env)))
    facts["arc_spark"] = sorted(set(case_labels(parts[2], env)))
    a, body = func_body(arc_h, "arc_method_is_supported")
    facts["arc_supported"] = sorted(set(case_labels(body, env)))
    facts["arc_env"] = {k: env[k] for k in ("ARC_HEADER_SIZE", "SPARK_HEADER_EXTRA", "ARC_END_OF_ARCHIVE", "ARC_6_DIR",
                                            "ARC_6_END_OF_DIR", "ARC_M_UNPACKED_OLD", "ARC_M_UNPACKED", "ARC_M_PACKED")}
    # md5
    md5 = strip_comments(read("src/md5.c"))
    steps = []
    role = {"a": 0, "b": 1, "c": 2, "d": 3}
    for mm in re.finditer(r"MD5STEP\(\s*F(\d)\s*,\s*(\w)\s*,\s*(\w)\s*,\s*(\w)\s*,\s*(\w)\s*,\s*in\[\s*(\d+)\s*\]\s*\+\s*(0x[0-9a-fA-F]+)\s*,\s*(\d+)\s*\)", md5):
        steps.append((int(mm.group(1)), role[mm.group(2)], role[mm.group(3)], role[mm.group(4)], role[mm.group(5)],
                      int(mm.group(6)), int(mm.group(7), 16), int(mm.group(8))))
    if len(steps) != 64:
        raise TranslatorError("expected 64 MD5STEP lines, found %d" % len(steps))
    facts["md5steps"] = steps
    a, body = func_body(md5, "MD5Init")
    init = [int(x, 16) for x in re.findall(r"state\[\d\]\s*=\s*(0x[0-9a-fA-F]+)", body)]
    if len(init) != 4:
        raise TranslatorError("MD5Init shape changed")
    facts["md5init"] = init
    fdefs = {}
    for mm in re.finditer(r"#define\s+F(\d)\(x, y, z\)\s+(.*)", md5):
        fdefs[int(mm.group(1))] = re.sub(r"\s+", "", mm.group(2))
    expect = {1: "(z^(x&(y^z)))", 2: "F1(z,x,y)", 3: "(x^y^z)", 4: "(y^(x|~z))"}
    if fdefs != expect:
        raise TranslatorError("MD5 round functions F1..F4 changed: %r" % fdefs)
    if not re.search(r"w\s*\+=\s*f\(x, y, z\)\s*\+\s*data,\s*w\s*=\s*w<<s\s*\|\s*w>>\(32-s\),\s*w\s*\+=\s*x", md5):
        raise TranslatorError("MD5STEP macro changed")
    return facts


def render(f):
    L = []
    L.append("/- GENERATED by tools/gen_depackers.py from the libxmp working tree — do not edit.")
    L.append("   depacker_list order + magic tests, sniff limits, exclude globs (src/depackers/depacker.c and the")
    L.append("   depacker sources), gzip flag bits, XZ_MAX_DICT, BUFLEN of set_md5sum, ARC method lists, MD5 step table. -/")
    L.append("namespace Xmp.Gen.Depackers")
    L.append("")
    L.append("/-- shape of a depacker `test(unsigned char *b)` function over the sniff buffer -/")
    L.append("inductive Magic where")
    L.append("  | tt | ff")
    L.append("  | byteEq (off v : Nat)        -- b[off] == v")
    L.append("  | byteLe (off v : Nat)        -- b[off] <= v")
    L.append("  | memEq (off : Nat) (bytes : List Nat)   -- memcmp(b + off, bytes, n) == 0")
    L.append("  | not (a : Magic) | and (a b : Magic) | or (a b : Magic)")
    L.append("  | arcTest                     -- is_arc_archive(b), modelled by hand over the generated method lists")
    L.append("  deriving Repr, DecidableEq")
    L.append("")
    L.append("/-- `depacker_list` in dispatch order: (name, source file, test) -/")
    L.append("def depackerList : List (String × String × Magic) := [")
    for i, (n, fn, t) in enumerate(f["entries"]):
        L.append("  (\"%s\", \"%s\", %s)%s" % (n, fn, lean_magic(t), "," if i + 1 < len(f["entries"]) else ""))
    L.append("]")
    L.append("")
    L.append("/-- size of the sniff buffer of libxmp_decrunch -/")
    L.append("def sniffSize : Nat := %d" % f["sniff"])
    L.append("/-- files with fewer bytes in the sniff buffer are reported as not packed -/")
    L.append("def minHeaderSize : Nat := %d" % f["minsize"])
    L.append("")
    L.append("/-- exclude globs of libxmp_exclude_match (fnmatch flags 0), as bytes -/")
    L.append("def excludeGlobs : List (List UInt8) := [")
    for i, g in enumerate(f["globs"]):
        txt = "".join(chr(b) if 32 <= b < 127 else "." for b in g)
        L.append("  %s%s   -- %s" % (lean_bytes(g), "," if i + 1 < len(f["globs"]) else "", txt))
    L.append("]")
    L.append("")
    for k in ("FTEXT", "FHCRC", "FEXTRA", "FNAME", "FCOMMENT"):
        L.append("def gz%s : Nat := %d" % (k, f["gzflags"][k]))
    L.append("")
    L.append("def xzMaxDict : Nat := %d" % f["xzdict"])
    L.append("def md5ReadChunk : Nat := %d" % f["md5buf"])
    L.append("")
    L.append("def arcTestPlain : List Nat := %s" % lean_bytes(f["arc_plain"]))
    L.append("def arcTestSpark : List Nat := %s" % lean_bytes(f["arc_spark"]))
    L.append("def arcSupported : List Nat := %s" % lean_bytes(f["arc_supported"]))
    e = f["arc_env"]
    L.append("def arcHeaderSize : Nat := %d" % e["ARC_HEADER_SIZE"])
    L.append("def sparkHeaderExtra : Nat := %d" % e["SPARK_HEADER_EXTRA"])
    L.append("def arcEndOfArchive : Nat := %d" % e["ARC_END_OF_ARCHIVE"])
    L.append("def arc6Dir : Nat := %d" % e["ARC_6_DIR"])
    L.append("def arc6EndOfDir : Nat := %d" % e["ARC_6_END_OF_DIR"])
    L.append("def arcUnpackedOld : Nat := %d" % e["ARC_M_UNPACKED_OLD"])
    L.append("def arcUnpacked : Nat := %d" % e["ARC_M_UNPACKED"])
    L.append("def arcPacked : Nat := %d" % e["ARC_M_PACKED"])
    L.append("")
    t = f["mmcmp_tables"]
    L.append("/-- MMCMP bit coder: escape thresholds and number of extra bits per code width (mmcmp.c) -/")
    L.append("def mmCmd8 : List Nat := %s" % lean_bytes(t["cmd_8bits"]))
    L.append("def mmFetch8 : List Nat := %s" % lean_bytes(t["fetch_8bit"]))
    L.append("def mmCmd16 : List Nat := %s" % lean_bytes(t["cmd_16bit"]))
    L.append("def mmFetch16 : List Nat := %s" % lean_bytes(t["fetch_16bit"]))
    mf = f["mmcmp_flags"]
    L.append("def mmFlagComp : Nat := %d" % mf["COMP"])
    L.append("def mmFlagDelta : Nat := %d" % mf["DELTA"])
    L.append("def mmFlag16Bit : Nat := %d" % mf["16BIT"])
    L.append("def mmFlagAbs16 : Nat := %d" % mf["ABS16"])
    L.append("")
    ln = f["lh_new"]
    L.append("/-- LHA -lh4-..-lh7- (lh_new_decoder.c): `init_ring_buffer` fills the history with this byte; first copy length -/")
    L.append("def lhNewFill : Nat := %d" % ln["fill"])
    L.append("def lhCopyThreshold : Nat := %d" % ln["threshold"])
    L.append("/-- (HISTORY_BITS, OFFSET_BITS) of lh5 (also lh4), lh6, lh7 -/")
    L.append("def lhNewBits : List (Nat × Nat) := [%s]" % ", ".join("(%d, %d)" % ln["bits"][k] for k in ("lh5", "lh6", "lh7")))
    sq = f["squeeze"]
    L.append("/-- ARC squeeze (arc_unpack.c): `num_huffman > HUFFMAN_TREE_MAX` refuses (inclusive = the limit itself is accepted) -/")
    L.append("def sqTreeMax : Nat := %d" % sq["HUFFMAN_TREE_MAX"])
    L.append("def sqTreeMaxInclusive : Bool := %s" % ("true" if sq["inclusive"] else "false"))
    L.append("def sqLookupBitsC : Nat := %d" % sq["LOOKUP_BITS"])
    L.append("def arcBufferSizeC : Nat := %d" % sq["ARC_BUFFER_SIZE"])
    L.append("")
    L.append("/-- MD5Init state -/")
    L.append("def md5Init : List UInt32 := [%s]" % ", ".join("0x%08x" % x for x in f["md5init"]))
    L.append("/-- the 64 MD5STEP lines: (F index, w, x, y, z as positions in (a,b,c,d), in[] index, constant, shift) -/")
    L.append("def md5Steps : List (Nat × Nat × Nat × Nat × Nat × Nat × UInt32 × Nat) := [")
    for i, s in enumerate(f["md5steps"]):
        L.append("  (%d, %d, %d, %d, %d, %d, 0x%08x, %d)%s" % (s + ("," if i < 63 else "",)))
    L.append("]")
    L.append("")
    L.append("end Xmp.Gen.Depackers")
    return "\n".join(L) + "\n"


def generate():
    facts = extract()
    text = render(facts)
    changed = vlib.write_if_changed(os.path.join(vlib.LEAN, "XmpModel", "Gen", "Depackers.lean"), text)
    return facts, changed


if __name__ == "__main__":
    f, ch = generate()
    print("entries:", [(n, t) for n, _, t in f["entries"]])
    print("minsize", f["minsize"], "sniff", f["sniff"], "globs", len(f["globs"]), "changed", ch)
