#!/usr/bin/env python3
"""Rewrites the generated tables of DESIGN.md in place (between <!-- GEN:name --> … <!-- /GEN:name -->):
fixes (tools/gen_fix_table.py) and seeded (tools/gen_seeded_table.py)."""
import os, re, subprocess, sys
V = os.path.dirname(os.path.dirname(os.path.abspath(__file__)))
p = os.path.join(V, "DESIGN.md")
s = open(p).read()
for name, tool in (("fixes", "gen_fix_table.py"), ("seeded", "gen_seeded_table.py")):
    out = subprocess.run([sys.executable, os.path.join(V, "tools", tool)], capture_output=True, text=True).stdout.rstrip()
    pat = re.compile(r"(<!-- GEN:%s -->\n).*?(\n<!-- /GEN:%s -->)" % (name, name), re.S)
    if not pat.search(s):
        print("marker for", name, "missing")
        continue
    s = pat.sub(lambda m: m.group(1) + out + m.group(2), s)
open(p, "w").write(s)
print("DESIGN.md tables regenerated")
