"""C08 sub-check: the DEFLATE decoder of libxmp (src/miniz_tinfl.c) against the Lean model XmpModel.Inflate.

proof : XmpProps.C08Inflate (round trips of the Lean encoders through the model decoder, canonical Huffman
        decoding, work bound, gzip/zip pipelines without a decoder hypothesis for Lean-encodable streams)
tie   : harness/c08_inflate.c runs the REAL libxmp_tinfl_decompress the way decrunch_gzip
        (tinfl_decompress_mem_to_heap) and miniz_zip.c (chunked input, HAS_MORE_INPUT, exact output buffer)
        call it, plus the real decrunch_gzip / decrunch_zip on wrapped streams; drv_c08i runs
        Xmp.Inflate.inflateE on the same streams.  Compared two-sided: status class (ok / fail / trunc),
        output (length + FNV-1a 64), input consumption.  Streams: python zlib (levels, strategies, memLevel,
        wbits, flush modes), an independent python bit writer (crafted edge cases: code sets tinfl accepts or
        rejects, repeat codes, symbols 286/287, distance codes 30/31, far distances, stored LEN/NLEN, ...),
        the Lean encoder of the theorems (driver `enc`), and mutations of all of them.
        python zlib's inflate serves as a third opinion: a stream zlib decodes but tinfl does not (or
        differently) is a VIOLATION (legal encoder output mis-decoded); the converse (tinfl laxer than zlib)
        is only counted.
Called from tools/checks/c08.py (`run(ck)`); never edits shared state other than through `ck`.
"""
import os
import random
import struct
import zlib

import vlib

MODULE = "XmpProps.C08Inflate"
DRIVER = "drv_c08i"
OWN_MODULES = {"XmpModel.Inflate", "XmpProofs.InflateHuff", "XmpProofs.Inflate", "XmpProofs.InflateBlocks",
               "XmpProofs.InflateDyn", "XmpProofs.InflateDynG", "XmpProofs.InflateStream", "XmpProofs.InflateBound", "XmpProofs.InflateCheck", "XmpProps.C08Inflate"}

REQUIRED = [
    "Inflate.C08_inflate_huffman", "Inflate.C08_inflate_prefix_free",
    "Inflate.C08_inflate_blocks", "Inflate.C08_inflate_stored", "Inflate.C08_inflate_fixed", "Inflate.C08_inflate_dynamic",
    "Inflate.C08_inflate_dynamic_general", "Inflate.C08_inflate_blocks_checked",
    "Inflate.C08_fixed_tok_ok", "Inflate.C08_inflate_fixed_lz77",
    "Inflate.C08_gzip_roundtrip_deflate", "Inflate.C08_gzip_roundtrip_stored", "Inflate.C08_gzip_roundtrip_fixed",
    "Inflate.C08_pipeline_gzip_deflate", "Inflate.C08_pipeline_zip_deflate", "Inflate.C08_zlib_roundtrip_deflate",
    "Inflate.C08_inflate_symbol_progress", "Inflate.C08_inflate_block_progress", "Inflate.C08_inflate_never_out_of_fuel",
    "Inflate.C08_inflate_fuel_irrelevant", "Inflate.C08_inflate_bounds",
    "Inflate.C09_gate_gzip_inflate", "Inflate.C09_gate_zip_inflate",
]

ASAN_ENV = {"ASAN_OPTIONS": "detect_leaks=0:abort_on_error=0:allocator_may_return_null=1:max_allocation_size_mb=2048",
            "UBSAN_OPTIONS": "print_stacktrace=1:halt_on_error=1"}

CORR = "correspondence Inflate.inflate vs libxmp_tinfl_decompress"


def fnv(b):
    h = 0xcbf29ce484222325
    for x in b:
        h = ((h ^ x) * 0x100000001b3) & 0xFFFFFFFFFFFFFFFF
    return "%016x" % h


def hx(b):
    return b.hex() or "-"


# --------------------------------------------------------------------------
# independent bit writer (RFC 1951 packing) and crafted blocks
# --------------------------------------------------------------------------

LEN_BASE = [3, 4, 5, 6, 7, 8, 9, 10, 11, 13, 15, 17, 19, 23, 27, 31, 35, 43, 51, 59, 67, 83, 99, 115, 131, 163, 195, 227, 258]
LEN_EXTRA = [0, 0, 0, 0, 0, 0, 0, 0, 1, 1, 1, 1, 2, 2, 2, 2, 3, 3, 3, 3, 4, 4, 4, 4, 5, 5, 5, 5, 0]
DIST_BASE = [1, 2, 3, 4, 5, 7, 9, 13, 17, 25, 33, 49, 65, 97, 129, 193, 257, 385, 513, 769, 1025, 1537, 2049, 3073,
             4097, 6145, 8193, 12289, 16385, 24577]
DIST_EXTRA = [0, 0, 0, 0, 1, 1, 2, 2, 3, 3, 4, 4, 5, 5, 6, 6, 7, 7, 8, 8, 9, 9, 10, 10, 11, 11, 12, 12, 13, 13]
ORDER = [16, 17, 18, 0, 8, 7, 9, 6, 10, 5, 11, 4, 12, 3, 13, 2, 14, 1, 15]
FIXED_LL = [8] * 144 + [9] * 112 + [7] * 24 + [8] * 8
FIXED_DL = [5] * 32


class BW:
    def __init__(self):
        self.bits = []

    def put(self, v, n):
        for i in range(n):
            self.bits.append((v >> i) & 1)

    def code(self, c, n):
        for i in range(n - 1, -1, -1):
            self.bits.append((c >> i) & 1)

    def align(self):
        while len(self.bits) % 8:
            self.bits.append(0)

    def raw(self, data):
        for b in data:
            self.put(b, 8)

    def bytes(self):
        b = self.bits + [0] * (-len(self.bits) % 8)
        return bytes(sum(b[i + k] << k for k in range(8)) for i in range(0, len(b), 8))


def canon(lens):
    """RFC 1951 3.2.2 code assignment (codes may overflow their length for invalid sets: masked)."""
    cnt = [0] * 17
    for l in lens:
        if l:
            cnt[l] += 1
    nxt = [0] * 17
    for l in range(2, 17):
        nxt[l] = (nxt[l - 1] + cnt[l - 1]) << 1
    out = {}
    for s, l in enumerate(lens):
        if l:
            out[s] = (nxt[l] & ((1 << l) - 1), l)
            nxt[l] += 1
    return out


def random_complete(rng, k, maxlen):
    """k code lengths (multiset) of a complete prefix code, depth <= maxlen"""
    if k == 1:
        return [1]
    leaves = [0]
    while len(leaves) < k:
        cand = [i for i, d in enumerate(leaves) if d < maxlen]
        i = rng.choice(cand)
        d = leaves.pop(i)
        leaves += [d + 1, d + 1]
    rng.shuffle(leaves)
    return leaves


def assign_lens(rng, nsyms, used, maxlen):
    """code length list of nsyms entries in which exactly the symbols `used` have a code (complete set)"""
    used = sorted(set(used))
    ls = random_complete(rng, len(used), maxlen)
    lens = [0] * nsyms
    for s, l in zip(used, ls):
        lens[s] = l
    return lens


def len_sym(n):
    i = max(j for j in range(29) if LEN_BASE[j] <= n)
    if n == 258:
        i = 28
    return i, n - LEN_BASE[i]


def dist_sym(d):
    i = max(j for j in range(30) if DIST_BASE[j] <= d)
    return i, d - DIST_BASE[i]


def put_tokens(bw, llc, dlc, toks, eob=True):
    """toks: ('L', byte) | ('M', len, dist) | ('RL', sym) raw literal/length symbol | ('RM', lsym, lextra, dsym, dextra)"""
    for t in toks:
        if t[0] == 'L':
            bw.code(*llc[t[1]])
        elif t[0] == 'RL':
            bw.code(*llc[t[1]])
        elif t[0] == 'M':
            li, le = len_sym(t[1])
            di, de = dist_sym(t[2])
            bw.code(*llc[257 + li])
            bw.put(le, LEN_EXTRA[li])
            bw.code(*dlc[di])
            bw.put(de, DIST_EXTRA[di])
        elif t[0] == 'RM':
            _, ls, le, ds, de = t
            bw.code(*llc[ls])
            bw.put(le, ([0] * 257 + LEN_EXTRA + [0, 0])[ls])
            if ds in dlc:
                bw.code(*dlc[ds])
            bw.put(de, (DIST_EXTRA + [0, 0])[ds])
    if eob:
        bw.code(*llc[256])


def cl_tokens(rng, seq, rle):
    """code-length-code tokens for the length sequence: (sym, extra_value)"""
    out = []
    i = 0
    while i < len(seq):
        v = seq[i]
        run = 1
        while i + run < len(seq) and seq[i + run] == v:
            run += 1
        if rle and v == 0 and run >= 3 and rng.random() < 0.9:
            r = min(run, 138)
            if r >= 11 and rng.random() < 0.8:
                out.append((18, r - 11))
            else:
                r = min(r, 10)
                out.append((17, r - 3))
            i += r
        elif rle and v != 0 and run >= 4 and out and rng.random() < 0.9:
            out.append((v, 0))
            r = min(run - 1, 6)
            out.append((16, r - 3))
            i += 1 + r
        elif rle and i > 0 and seq[i - 1] == v and run >= 3 and rng.random() < 0.9:
            r = min(run, 6)
            out.append((16, r - 3))
            i += r
        else:
            out.append((v, 0))
            i += 1
    return out


def put_dyn_header(bw, rng, ll, dl, rle=True, cl_lens=None, hclen=None, cltoks=None):
    seq = list(ll) + list(dl)
    toks = cltoks if cltoks is not None else cl_tokens(rng, seq, rle)
    if cl_lens is None:
        used = sorted({t[0] for t in toks})
        if len(used) == 1 and rng.random() < 0.5:
            used = sorted(set(used + [rng.randrange(19)]))
        cl_lens = assign_lens(rng, 19, used, 7)
    clc = canon(cl_lens)
    if hclen is None:
        last = max([i for i in range(19) if cl_lens[ORDER[i]]] + [3])
        hclen = max(last + 1, 4)
        if rng.random() < 0.2:
            hclen = rng.randint(hclen, 19)
    bw.put(len(ll) - 257, 5)
    bw.put(len(dl) - 1, 5)
    bw.put(hclen - 4, 4)
    for i in range(hclen):
        bw.put(cl_lens[ORDER[i]], 3)
    for s, e in toks:
        if s in clc:
            bw.code(*clc[s])
        if s >= 16:
            bw.put(e, {16: 2, 17: 3, 18: 7}[s])


def rand_tokens(rng, n, hist, maxdist=32768, bad_dist=False):
    toks = []
    size = hist
    for _ in range(n):
        if size == 0 or rng.random() < 0.5:
            toks.append(('L', rng.choice([0, 65, 66, 255, rng.randrange(256)])))
            size += 1
        else:
            ln = rng.choice([3, 4, 10, 11, 12, 18, 19, 66, 67, 130, 227, 257, 258, rng.randint(3, 258)])
            d = rng.choice([1, 2, size, max(1, size - 1), rng.randint(1, size)])
            d = min(d, maxdist, size)
            if bad_dist and rng.random() < 0.3:
                d = min(size + rng.randint(1, 3), 32768)
            toks.append(('M', ln, d))
            size += ln
    return toks, size


def tok_syms(toks):
    ls, ds = {256}, set()
    for t in toks:
        if t[0] == 'L':
            ls.add(t[1])
        elif t[0] == 'M':
            ls.add(257 + len_sym(t[1])[0])
            ds.add(dist_sym(t[2])[0])
    return ls, ds


def crafted_stream(rng, kind=None):
    """one raw deflate stream from the python writer; returns (bytes, label)"""
    bw = BW()
    nblocks = rng.choice([1, 1, 1, 2, 3])
    size = 0
    labels = []
    for bi in range(nblocks):
        final = 1 if bi == nblocks - 1 else 0
        k = kind or rng.choice(["stored", "fixed", "dyn", "dyn", "dyn-single-dist", "dyn-no-dist", "dyn-bad-set",
                                "fixed-286", "fixed-dist30", "dyn-hlit288", "dyn-hdist32", "dyn-rep16-first",
                                "dyn-rep-overflow", "dyn-empty-cl", "dyn-single-lit", "dyn-single-cl", "type3",
                                "stored-bad-nlen", "fixed-far", "dyn-no-eob", "dyn-single-long", "dyn-single-dist-long"])
        labels.append(k)
        if k == "type3":
            bw.put(final, 1)
            bw.put(3, 2)
            bw.put(rng.getrandbits(16), 16)
            continue
        if k in ("stored", "stored-bad-nlen"):
            bw.put(final, 1)
            bw.put(0, 2)
            if rng.random() < 0.2:
                bw.put(rng.getrandbits(5), (-len(bw.bits)) % 8)   # garbage in the padding bits
            bw.align()
            n = rng.choice([0, 1, 2, 7, rng.randint(0, 300)])
            data = bytes(rng.getrandbits(8) for _ in range(n))
            bw.put(n, 16)
            bw.put((n ^ 0xFFFF) if k == "stored" else (n ^ 0xFFFF ^ (1 << rng.randrange(16))), 16)
            bw.raw(data)
            size += n
            continue
        if k.startswith("fixed"):
            bw.put(final, 1)
            bw.put(1, 2)
            llc, dlc = canon(FIXED_LL), canon(FIXED_DL)
            toks, size = rand_tokens(rng, rng.randint(0, 30), size, bad_dist=(k == "fixed-far"))
            if k == "fixed-286" and size > 0:
                toks.append(('RM', rng.choice([286, 287]), 0, rng.randrange(0, 4), 0))
                t2, size = rand_tokens(rng, 3, size)
                toks += t2
            if k == "fixed-dist30" and size > 0:
                toks.append(('RM', 257 + rng.randrange(8), 0, rng.choice([30, 31]), 0))
            put_tokens(bw, llc, dlc, toks)
            continue
        # dynamic
        bw.put(final, 1)
        bw.put(2, 2)
        toks, nsize = rand_tokens(rng, rng.randint(0, 40), size)
        ls, ds = tok_syms(toks)
        nlit = rng.choice([257, 286, max(ls) + 1, rng.randint(max(max(ls) + 1, 257), 286)])
        nlit = max(nlit, max(ls) + 1, 257)
        ndist = rng.choice([1, 30, rng.randint(1, 30)])
        ndist = max(ndist, (max(ds) + 1) if ds else 1)
        if k == "dyn-hlit288":
            nlit = rng.choice([287, 288])
        if k == "dyn-hdist32":
            ndist = rng.choice([31, 32])
        extra_l = set(rng.sample(range(nlit), min(nlit, rng.choice([0, 1, 5, 40]))))
        extra_d = set(rng.sample(range(ndist), min(ndist, rng.choice([0, 1, 3]))))
        ll = assign_lens(rng, nlit, ls | extra_l, 15)
        dset = ds | extra_d
        if k == "dyn-no-dist":
            toks = [t for t in toks if t[0] == 'L']
            ls, ds = tok_syms(toks)
            ll = assign_lens(rng, nlit, ls | extra_l, 15)
            dl = [0] * ndist
        elif k in ("dyn-single-dist", "dyn-single-dist-long"):
            one = rng.randrange(ndist)
            dl = [0] * ndist
            dl[one] = 1 if k == "dyn-single-dist" else rng.randint(2, 15)
            toks2 = []
            for t in toks:
                if t[0] == 'M':
                    # the distance symbol is forced: pick a distance inside its range when possible
                    toks2.append(('RM', 257 + len_sym(t[1])[0], len_sym(t[1])[1], one, rng.getrandbits(DIST_EXTRA[one] if one < 30 else 0)))
                else:
                    toks2.append(t)
            toks = toks2
        else:
            dl = assign_lens(rng, ndist, dset, 15) if dset else [0] * ndist
        if k == "dyn-bad-set":
            which = rng.choice(["ll", "dl", "ll"])
            tgt = ll if which == "ll" else dl
            nz = [i for i, v in enumerate(tgt) if v]
            if nz:
                i = rng.choice(nz)
                tgt[i] = max(1, min(15, tgt[i] + rng.choice([-1, 1])))
        if k == "dyn-single-lit":
            s = rng.choice([256, 256, 0, 65])
            ll = [0] * nlit
            ll[s] = rng.choice([1, 1, 2, 9, 10, 11, 15])
            toks = []
            llc = canon(ll)
            put_dyn_header(bw, rng, ll, dl)
            # a few code words of the single symbol, then random bits
            for _ in range(rng.randint(0, 3)):
                bw.code(*llc[s])
            bw.put(rng.getrandbits(24), 24)
            continue
        if k == "dyn-single-long":
            # one used literal/length symbol (EOB) with a long code, one used distance symbol with a long code
            ll = [0] * nlit
            ll[256] = rng.randint(11, 15)
            dl = [0] * ndist
            dl[rng.randrange(ndist)] = rng.randint(11, 15)
            put_dyn_header(bw, rng, ll, dl)
            bw.put(rng.choice([0, 0, rng.getrandbits(20)]), 20)
            bw.put(rng.getrandbits(16), 16)
            continue
        if k == "dyn-no-eob":
            ll2 = list(ll)
            ll2[256] = 0
            # keep the set complete if possible: give the EOB length to an unused symbol
            free = [i for i, v in enumerate(ll2) if v == 0 and i != 256]
            if free:
                ll2[rng.choice(free)] = ll[256]
            put_dyn_header(bw, rng, ll2, dl)
            put_tokens(bw, canon(ll2), canon(dl), toks, eob=False)
            bw.put(rng.getrandbits(16), 16)
            continue
        if k == "dyn-rep16-first":
            put_dyn_header(bw, rng, ll, dl, cltoks=[(16, rng.randrange(4))] + cl_tokens(rng, (ll + dl)[3:], True),
                           cl_lens=assign_lens(rng, 19, range(19), 7))
            put_tokens(bw, canon(ll), canon(dl), toks)
            continue
        if k == "dyn-rep-overflow":
            seq = ll + dl
            cut = rng.randint(max(1, len(seq) - 8), len(seq) - 1)
            ct = cl_tokens(rng, seq[:cut], True) + [rng.choice([(18, rng.randint(0, 127)), (17, rng.randrange(8)), (16, 3)])]
            put_dyn_header(bw, rng, ll, dl, cltoks=ct, cl_lens=assign_lens(rng, 19, range(19), 7))
            put_tokens(bw, canon(ll), canon(dl), toks)
            continue
        if k == "dyn-empty-cl":
            put_dyn_header(bw, rng, ll, dl, cltoks=[], cl_lens=[0] * 19, hclen=rng.choice([4, 19]))
            bw.put(rng.getrandbits(32), 32)
            continue
        if k == "dyn-single-cl":
            s = rng.randrange(19)
            cll = [0] * 19
            cll[s] = rng.randint(1, 7)
            put_dyn_header(bw, rng, ll, dl, cltoks=[(s, 0)] * rng.randint(1, 40), cl_lens=cll)
            bw.put(rng.getrandbits(32), 32)
            continue
        put_dyn_header(bw, rng, ll, dl, rle=rng.random() < 0.8)
        put_tokens(bw, canon(ll), canon(dl), toks)
        size = nsize
    s = bw.bytes()
    if rng.random() < 0.3:
        s += bytes(rng.getrandbits(8) for _ in range(rng.randint(1, 9)))
    return s, "+".join(labels)


# --------------------------------------------------------------------------
# payloads and zlib streams
# --------------------------------------------------------------------------

def payload(rng, size):
    kind = rng.randrange(7)
    if kind == 0:
        return bytes(rng.getrandbits(8) for _ in range(size))                      # incompressible
    if kind == 1:
        return bytes([rng.randrange(256)]) * size                                  # one run
    if kind == 2:
        w = [bytes(rng.getrandbits(8) for _ in range(rng.randint(1, 12))) for _ in range(rng.randint(1, 20))]
        out = b""
        while len(out) < size:
            out += rng.choice(w)
        return out[:size]                                                          # phrase soup
    if kind == 3:
        return bytes((i * rng.randint(1, 7)) & 0xff for i in range(size))          # ramps
    if kind == 4:
        out = bytearray()
        while len(out) < size:
            out += bytes([rng.randrange(4)]) * rng.randint(1, 300)
        return bytes(out[:size])                                                   # long runs, few symbols
    if kind == 5:
        base = bytes(rng.getrandbits(8) for _ in range(max(1, size // 3)))
        return (base + bytes(rng.getrandbits(8) for _ in range(size // 5)) + base + base)[:size]   # far matches
    return bytes(rng.choice(b"abcdefgh \n") for _ in range(size))                  # small alphabet


def zlib_stream(rng, data):
    level = rng.choice([0, 1, 2, 3, 4, 5, 6, 7, 8, 9, -1])
    strategy = rng.choice([zlib.Z_DEFAULT_STRATEGY, zlib.Z_FILTERED, zlib.Z_HUFFMAN_ONLY, zlib.Z_RLE, zlib.Z_FIXED])
    mem = rng.randint(1, 9)
    wbits = rng.randint(9, 15)
    co = zlib.compressobj(level, zlib.DEFLATED, -wbits, mem, strategy)
    out = b""
    pos = 0
    nflush = rng.choice([0, 0, 1, 2, 5])
    cuts = sorted(rng.randint(0, len(data)) for _ in range(nflush))
    for c in cuts:
        out += co.compress(data[pos:c])
        out += co.flush(rng.choice([zlib.Z_SYNC_FLUSH, zlib.Z_FULL_FLUSH, zlib.Z_PARTIAL_FLUSH, zlib.Z_BLOCK]))
        pos = c
    out += co.compress(data[pos:]) + co.flush()
    return out, "zlib:l%d:s%d:m%d:w%d:f%d" % (level, strategy, mem, wbits, nflush)


def mutate(rng, s):
    if not s:
        return bytes([rng.getrandbits(8)]), "mut:ins"
    b = bytearray(s)
    k = rng.randrange(6)
    if k == 0:
        i = rng.randrange(min(len(b), 40) * 8)
        b[i // 8] ^= 1 << (i % 8)
        return bytes(b), "mut:flip-head"
    if k == 1:
        i = rng.randrange(len(b) * 8)
        b[i // 8] ^= 1 << (i % 8)
        return bytes(b), "mut:flip"
    if k == 2:
        return bytes(b[:rng.randrange(len(b))]), "mut:trunc"
    if k == 3:
        i = rng.randrange(min(len(b), 24))
        b[i] = rng.getrandbits(8)
        return bytes(b), "mut:subst-head"
    if k == 4:
        i = rng.randrange(len(b))
        b[i] = rng.getrandbits(8)
        return bytes(b), "mut:subst"
    n = rng.randint(1, 4)
    for _ in range(n):
        i = rng.randrange(len(b) * 8)
        b[i // 8] ^= 1 << (i % 8)
    return bytes(b), "mut:flips"


def zlib_opinion(s):
    """('ok', out, consumed) | ('err', msg) | ('inc',) from python zlib (raw inflate, 32 KiB window)"""
    d = zlib.decompressobj(-15)
    try:
        out = d.decompress(s)
    except zlib.error as e:
        return ("err", str(e))
    if not d.eof:
        return ("inc",)
    return ("ok", out, len(s) - len(d.unused_data))


# --------------------------------------------------------------------------
# Lean-encoder cases (driver `enc`)
# --------------------------------------------------------------------------

def lean_tok(t):
    return "L%02x" % t[1] if t[0] == 'L' else "M%d,%d" % (t[1], t[2])


def lean_block_specs(rng):
    """a list of block specs for the Lean encoder `deflate` + python's expectation of the expansion"""
    specs = []
    out = bytearray()
    for _ in range(rng.choice([1, 1, 2, 3, 4])):
        k = rng.choice(["s", "f", "f", "d", "g", "g"])
        if k == "s":
            n = rng.choice([0, 1, 5, rng.randint(0, 200)])
            d = bytes(rng.getrandbits(8) for _ in range(n))
            specs.append("s:" + hx(d))
            out += d
            continue
        toks, _ = rand_tokens(rng, rng.randint(0, 40), len(out))
        for t in toks:
            if t[0] == 'L':
                out.append(t[1])
            else:
                for _ in range(t[1]):
                    out.append(out[len(out) - t[2]])
        ts = ".".join(lean_tok(t) for t in toks) or "-"
        if k == "f":
            specs.append("f:" + ts)
        else:
            ls, ds = tok_syms(toks)
            nlit = max(max(ls) + 1, rng.choice([257, 270, 286, 288]))
            ndist = max((max(ds) + 1) if ds else 1, rng.choice([1, 2, 30, 32]))
            ll = assign_lens(rng, nlit, ls | set(rng.sample(range(nlit), rng.choice([1, 3, 30]))), 15)
            dsel = ds | set(rng.sample(range(ndist), min(ndist, rng.choice([2, 2, 5]))))
            if len(dsel) < 2:
                ndist = max(ndist, 2)
                dsel = dsel | {0, 1}
            dl = assign_lens(rng, ndist, dsel, 15)
            if k == "d":
                specs.append("d:%s:%s:%s" % (",".join(map(str, ll)), ",".join(map(str, dl)), ts))
            else:
                # general header: run-length coded lengths, own complete code-length code
                ct = cl_tokens(rng, ll + dl, True)
                used = {t[0] for t in ct}
                while len(used) < 2:
                    used.add(rng.randrange(19))
                used |= set(rng.sample(range(19), rng.choice([0, 0, 3, 19])))
                cll = assign_lens(rng, 19, used, 7)
                lt = ["l%d" % sy if sy < 16 else "r%d" % (e + 3) if sy == 16 else "z%d" % (e + 3) if sy == 17 else "z%d" % (e + 11)
                      for sy, e in ct]
                specs.append("g:%s:%s:%d:%s" % (",".join(map(str, cll)), ".".join(lt), nlit, ts))
    return specs, bytes(out)


# --------------------------------------------------------------------------
# wrappers for the end-to-end calls (real decrunch_gzip / decrunch_zip)
# --------------------------------------------------------------------------

def gzip_wrap(rng, stream, out):
    flg = 0
    extra = b""
    if rng.random() < 0.3:
        flg |= 8
        extra += b"name.mod\0"
    garbage = bytes(rng.getrandbits(8) for _ in range(rng.choice([0, 0, 3])))
    return (b"\x1f\x8b\x08" + bytes([flg]) + b"\0\0\0\0\0\x03" + extra + stream + garbage +
            struct.pack("<II", zlib.crc32(out) & 0xffffffff, len(out) & 0xffffffff))


def zip_wrap(stream, out, name=b"m.mod"):
    crc = zlib.crc32(out) & 0xffffffff
    lh = struct.pack("<IHHHHHIIIHH", 0x04034b50, 20, 0, 8, 0, 0, crc, len(stream), len(out), len(name), 0) + name
    cd = struct.pack("<IHHHHHHIIIHHHHHII", 0x02014b50, 20, 20, 0, 8, 0, 0, crc, len(stream), len(out), len(name), 0, 0, 0, 0, 0, 0) + name
    eocd = struct.pack("<IHHHHIIH", 0x06054b50, 0, 0, 1, 1, len(cd), len(lh) + len(stream), 0)
    return lh + stream + cd + eocd


# --------------------------------------------------------------------------
# the check
# --------------------------------------------------------------------------

def build_harness():
    return vlib.build_harness("c08_inflate", ["c08_inflate.c"])


def replay(ck, rp):
    """re-run one recorded stream ({"inflate_stream_hex": ...} or {"zlib_stream_hex": ...}) on the real decoder and the model"""
    r = rp.get("replay", rp)
    exe = build_harness()
    os.makedirs(vlib.OUT, exist_ok=True)
    cf = os.path.join(vlib.OUT, "c08-inflate-replay.txt")
    if r.get("zlib_stream_hex") is not None:
        h = r["zlib_stream_hex"]
        open(cf, "w").write("l %s\n" % h)
        drv = "zinf %s\n" % h
    else:
        h = r["inflate_stream_hex"]
        n = max(1, len(h) // 2)
        open(cf, "w").write("d %s\nh %s\nz 1 %d %s\nz 65536 %d %s\n" % (h, h, 1032 * n + 1024, h, 1032 * n + 1024, h))
        drv = "inf %s\n" % h
    rc, out, err = vlib.run_exe(exe, [cf], timeout=120, env=ASAN_ENV)
    print("real  :", out.decode("ascii", "replace").strip().replace("\n", " | "), "(rc=%s)" % rc)
    if err.strip():
        print(err[-2000:])
    print("model :", " | ".join(vlib.run_driver(DRIVER, drv)))
    if r.get("inflate_stream_hex") is not None:
        print("zlib  :", zlib_opinion(bytes.fromhex(h) if h != "-" else b"")[:1])


def gen_streams(ck, rng, quick):
    """list of (label, stream)"""
    streams = []
    n_zlib = 700 if quick else 6000
    n_craft = 1200 if quick else 12000
    n_lean = 300 if quick else 3000
    sizes = [0, 1, 2, 3, 10, 64, 257, 1000, 4000] if quick else [0, 1, 2, 3, 10, 64, 257, 1000, 4000, 20000, 70000, 200000]
    for i in range(n_zlib):
        sz = rng.choice(sizes)
        sz = rng.randint(0, sz) if rng.random() < 0.5 else sz
        data = payload(rng, sz)
        s, lab = zlib_stream(rng, data)
        if rng.random() < 0.25:
            s += bytes(rng.getrandbits(8) for _ in range(rng.randint(1, 12)))
            lab += ":tail"
        streams.append((lab, s))
    if quick:
        # always a few large ones: > 64 KiB compressed (zip read-buffer refills) and > 65535-byte stored blocks
        big = payload(random.Random(ck.seed), 150000)
        streams.append(("zlib:big-stored", zlib.compress(big, 0)[2:-4]))
        streams.append(("zlib:big-l1", zlib.compress(bytes(random.Random(ck.seed + 1).getrandbits(8) for _ in range(90000)), 1)[2:-4]))
    for i in range(n_craft):
        s, lab = crafted_stream(rng)
        streams.append(("craft:" + lab, s))
    # Lean-encoder streams
    specs = []
    for i in range(n_lean):
        sp, exp = lean_block_specs(rng)
        if rng.random() < 0.08:
            # a match reaching beyond everything produced so far: BlocksOk fails
            sp = sp + ["f:L41.M%d,%d" % (rng.randint(3, 258), len(exp) + 1 + rng.randint(1, 9))]
            exp = None
        specs.append((sp, exp))
    lines = vlib.run_driver(DRIVER, "".join("enc %s\n" % " ".join(sp) for sp, _ in specs))
    lean_expect = {}
    for (sp, exp), ln in zip(specs, lines):
        f = ln.split()
        if len(f) != 5 or f[0] != "E":
            ck.unproved(CORR, "driver enc answered %r for %r" % (ln, " ".join(sp)[:200]))
            continue
        s = bytes.fromhex(f[1]) if f[1] != "-" else b""
        if exp is None:
            # deliberately outside the theorems' domain: the checker must say so; the stream is still compared
            if f[4] != "0":
                ck.unproved("Inflate.blocksOkB", "accepts a block list with a match beyond the output: %s" % " ".join(sp)[:300])
            streams.append(("lean-invalid:" + "".join(x[0] for x in sp), s))
            continue
        if f[4] != "1":
            ck.unproved("Inflate.blocksOkB", "rejects a block list the generator built to satisfy BlocksOk: %s" % " ".join(sp)[:300])
            continue
        if (int(f[2]), f[3]) != (len(exp), fnv(exp)):
            ck.unproved("correspondence Inflate.expand vs python expansion of the token list",
                        "blocks %s: Lean expand = (%s, %s), python = (%d, %s)" % (" ".join(sp)[:300], f[2], f[3], len(exp), fnv(exp)))
            continue
        lean_expect[s] = exp
        streams.append(("lean:" + "".join(x[0] for x in sp), s))
    # the three witnesses of tinfl's laxness (proposed_fixes/c09-tinfl-strict-deflate.diff): always exercised
    for h in ("4b1c034900", "fdc0310d00000080a03f26fd4bd8c409", "0dc0d9050000004021f7ff8aedbfc47b1c0000"):
        streams.append(("craft:lax-witness", bytes.fromhex(h)))
    # mutations of everything so far
    base = [s for _, s in streams if len(s) < 3000]
    n_mut = 1500 if quick else 20000
    for i in range(n_mut):
        s, lab = mutate(rng, rng.choice(base))
        streams.append((lab, s))
    return streams, lean_expect


def run_shard(args):
    exe, shard, workdir, idx = args
    # model
    drv = vlib.run_driver(DRIVER, "".join("inf %s\n" % hx(s) for _, s in shard), timeout=1200)
    model = []
    for ln in drv:
        f = ln.split()
        model.append(tuple(f[1:]))
    # harness lines
    cf = os.path.join(workdir, "inflate-%d.txt" % idx)
    plan = []
    rng = random.Random(idx * 7919 + 17)
    with open(cf, "w") as fh:
        for ci, ((lab, s), m) in enumerate(zip(shard, model)):
            fh.write("d %s\n" % hx(s))
            plan.append((ci, "d", None))
            fh.write("h %s\n" % hx(s))
            plan.append((ci, "h", None))
            chunk = rng.choice([1, 2, 3, 5, 64, 65536, max(1, len(s) - 1), max(1, len(s))])
            if m and m[0] == "ok":
                n = int(m[2])
                cap = rng.choice([n, n, n + 5, max(0, n - 1)])
            else:
                cap = min(1032 * len(s) + 1024, 1 << 26)
            fh.write("z %d %d %s\n" % (chunk, cap, hx(s)))
            plan.append((ci, "z", (chunk, cap)))
            if len(s) > 65536 and m and m[0] == "ok":
                # miniz_zip.c's own read-buffer size: the refill path (HAS_MORE_INPUT, coroutine resume)
                fh.write("z 65536 %d %s\n" % (int(m[2]), hx(s)))
                plan.append((ci, "z", (65536, int(m[2]))))
    rc, out, err = vlib.run_exe(exe, [cf], timeout=1200, env=ASAN_ENV)
    return shard, model, plan, rc, out.decode("ascii", "replace").splitlines(), err, cf


def run(ck):
    import time
    t_start = time.time()
    try:
        _run(ck)
    finally:
        ck.note("inflate_seconds", round(time.time() - t_start, 1))


def _run(ck):
    quick = ck.tier != "thorough"
    # ---- proofs: build, kernel check, axiom audit of this sub-check's own modules; the numbers are ADDED to the
    # parent check's (the audit lists the import closure, which contains XmpProps.C08/C09: those are not re-counted)
    import re
    ok, out = vlib.lean_build([MODULE, DRIVER])
    ck.cov["checker_cmd"] = (ck.cov.get("checker_cmd", "") + " ; cd lean && lake build %s %s && lake env lean --run Audit.lean %s" % (
        MODULE, DRIVER, MODULE)).lstrip(" ;")
    if not ok:
        errs = re.findall(r"error: (\S+?):(\d+):\d+: (.*)", out)
        ck.unproved("lake build " + MODULE, "; ".join("%s:%s %s" % e for e in errs[:3]) or out[-600:])
        return
    au = vlib.lean_audit([MODULE])
    mine = [t for t in au["theorems"] if t["module"] in OWN_MODULES]
    names = {t["name"] for t in mine}
    req = ["Xmp." + r for r in REQUIRED]
    ck.cov["obligations"] = ck.cov.get("obligations", 0) + len(mine) + len(req)
    ck.cov["discharged"] = ck.cov.get("discharged", 0) + len([t for t in mine if set(t["axioms"]) <= vlib.ALLOWED_AXIOMS])
    for r in req:
        if r in names:
            ck.cov["discharged"] += 1
        else:
            ck.unproved("theorem " + r, "required property theorem is missing from the built modules")
    for b in au["bad"]:
        if any(m.replace(".", "/") in b or m in b for m in OWN_MODULES) or "forbidden token" not in b:
            ck.unproved("audit", b)
    ck.note("inflate_theorems", sorted(n for n in names if n.split(".")[-1].startswith(("C08", "C09"))))
    ck.note("inflate_lean_modules", sorted(OWN_MODULES))
    for k, v in (("property_theorems", sorted(n for n in names if n.split(".")[-1].startswith(ck.prop))),
                 ("lean_modules", sorted(OWN_MODULES))):
        ck.notes[k] = sorted(set(ck.notes.get(k) or []) | set(v))
    if ck.tier == "thorough":
        ok2, o2 = vlib.leanchecker(MODULE)
        ck.note("leanchecker_" + MODULE, "ok" if ok2 else o2[-400:])
        if not ok2:
            ck.unproved("leanchecker " + MODULE, o2[-400:])
    if not os.path.exists(vlib.lean_driver(DRIVER)):
        return
    exe = build_harness()
    import shutil
    import tempfile
    os.makedirs(vlib.OUT, exist_ok=True)
    workdir = tempfile.mkdtemp(prefix="c08-inflate-", dir=vlib.OUT)   # private: concurrent runs (seeds) do not clobber
    try:
        _run_tie(ck, exe, workdir, quick)
    finally:
        shutil.rmtree(workdir, ignore_errors=True)


def _run_tie(ck, exe, workdir, quick):
    rng = random.Random((ck.seed * 1000003) ^ 0xC08F1A7E)
    streams, lean_expect = gen_streams(ck, rng, quick)
    nsh = max(1, min(vlib.NCPU, len(streams) // 200))
    shards = [streams[i::nsh] for i in range(nsh)]
    results = vlib.pmap(run_shard, [(exe, sh, workdir, i) for i, sh in enumerate(shards)])
    stats = {}

    def bump(k):
        stats[k] = stats.get(k, 0) + 1

    mism = 0
    for shard, model, plan, rc, lines, err, cf in results:
        if rc != 0 or len(lines) != len(plan) or len(model) != len(shard):
            # the first case without an answer is the culprit
            ci = plan[min(len(lines), len(plan) - 1)][0] if plan else 0
            lab, s = shard[ci]
            if "Sanitizer" in err or "runtime error" in err:
                ck.violation("inflate:" + vlib.sanitizer_signature(err), {"inflate_stream_hex": hx(s), "label": lab},
                             "sanitizer report inside libxmp_tinfl_decompress on a %d-byte stream (%s): %s" % (len(s), lab, err[-1500:]))
            else:
                ck.unproved(CORR, "harness rc=%s, %d/%d answers, model %d/%d (%s): %s" % (rc, len(lines), len(plan), len(model), len(shard), cf, err[-600:]))
            continue
        for (ci, mode, par), ln in zip(plan, lines):
            lab, s = shard[ci]
            m = model[ci]
            f = tuple(ln.split())
            if mode == "d":
                ck.count(hx(s)[:64] + str(len(s)), nontrivial=True)
                ck.cov["traces_validated_against_impl"] += 1
                bump("class:" + lab.split(":")[0])
                if lab.startswith("lean:"):
                    for kk in set(lab[5:]):
                        bump("lean-block-kind:" + kk)
                bump("model:" + (m[0] if m else "?"))
                exp = ("D",) + m
                if m and m[0] == "fuel":
                    ck.unproved("Inflate fuel", "model ran out of fuel on %s" % hx(s)[:400])
                # third opinion
                z = zlib_opinion(s)
                if z[0] == "ok":
                    if not (f[:2] == ("D", "ok") and (int(f[3]), f[4]) == (len(z[1]), fnv(z[1]))) and not lab.startswith("zlib:"):
                        # a crafted / mutated stream that zlib's inflate tolerates and tinfl does not: not the output of
                        # a legal encoder, so no C08 violation by itself (a model/tinfl difference is reported below)
                        bump("zlib-accepts-tinfl-rejects:" + lab.split(":")[0])
                        ck.sample({"zlib_accepts_tinfl_rejects": hx(s)[:400], "label": lab, "tinfl": ln})
                    elif not (m and m[0] == "ok" and f[:2] == ("D", "ok") and (int(f[3]), f[4]) == (len(z[1]), fnv(z[1]))):
                        ck.violation("inflate:rejects-or-misdecodes-valid:" + lab.split(":")[0],
                                     {"inflate_stream_hex": hx(s), "label": lab, "tinfl": ln, "zlib_len": len(z[1])},
                                     "zlib inflates this %d-byte raw deflate stream to %d bytes, libxmp's tinfl answers %r" % (len(s), len(z[1]), ln))
                    elif int(f[2]) != z[2]:
                        bump("consumed-differs-from-zlib")
                    else:
                        bump("agree-with-zlib-ok")
                elif f[:2] == ("D", "ok"):
                    bump("tinfl-accepts-zlib-rejects:" + (z[1].split(":")[-1].strip() if z[0] == "err" else "incomplete"))
                else:
                    bump("agree-with-zlib-reject")
                if s in lean_expect and not (f[:2] == ("D", "ok") and (int(f[3]), f[4]) == (len(lean_expect[s]), fnv(lean_expect[s]))):
                    ck.unproved(CORR, "stream of the Lean encoder %s: tinfl answers %r, expansion is %d bytes %s" % (hx(s)[:400], ln, len(lean_expect[s]), fnv(lean_expect[s])))
            elif mode == "h":
                if m and m[0] == "ok" and int(m[2]) > 0:
                    exp = ("H", "ok", m[2], m[3])
                else:
                    exp = ("H", "null")
            else:
                chunk, cap = par
                if m and m[0] == "ok":
                    n = int(m[2])
                    exp = ("Z", "ok", m[2], m[3]) if n <= cap else ("Z", "more")
                else:
                    exp = ("Z",) + m
                bump("zip-style-chunk:%s" % ("1" if chunk == 1 else "small" if chunk < 64 else "big"))
            if f != exp:
                mism += 1
                if mism <= 5:
                    ck.unproved(CORR, "mode %s%s label %s: real %r, model %r, stream %s" % (mode, par or "", lab, ln, " ".join(exp), hx(s)[:1200]))
    # ---- end to end: the real decrunch_gzip / decrunch_zip on wrapped streams ----
    e2e = []
    ok_cases = []
    for shard, model, plan, rc, lines, err, cf in results:
        for (lab, s), m in zip(shard, model):
            if m and m[0] == "ok" and int(m[2]) > 0 and len(s) < 20000:
                ok_cases.append((lab, s, m))
    rng.shuffle(ok_cases)
    ok_cases = ok_cases[:400 if quick else 4000]
    cf = os.path.join(workdir, "inflate-e2e.txt")
    with open(cf, "w") as fh:
        for lab, s, m in ok_cases:
            z = zlib_opinion(s)
            # the output is needed for the CRC: from zlib when it agrees, else from the Lean encoder's expansion
            out = z[1] if z[0] == "ok" else lean_expect.get(s)
            if out is None or (len(out), fnv(out)) != (int(m[2]), m[3]):
                continue
            fh.write("g %s\n" % hx(gzip_wrap(rng, s, out)))
            e2e.append(("G", lab, s, m))
            fh.write("k %s\n" % hx(zip_wrap(s[:int(m[1])], out)))
            e2e.append(("K", lab, s, m))
    rc, out, err = vlib.run_exe(exe, [cf], timeout=1200, env=ASAN_ENV)
    lines = out.decode("ascii", "replace").splitlines()
    if rc != 0 or len(lines) != len(e2e):
        ck.unproved(CORR, "end-to-end harness run rc=%s %d/%d answers: %s" % (rc, len(lines), len(e2e), err[-600:]))
    else:
        for (tag, lab, s, m), ln in zip(e2e, lines):
            bump("e2e-" + tag)
            if tuple(ln.split()) != (tag, "ok", m[2], m[3]):
                ck.violation("inflate:e2e:%s" % ("gzip" if tag == "G" else "zip"),
                             {"inflate_stream_hex": hx(s), "label": lab},
                             "the real %s refuses / mis-decodes a member whose deflate stream (%s) decodes to %s bytes: %r" % (
                                 "decrunch_gzip" if tag == "G" else "decrunch_zip", lab, m[2], ln))
    # ---- the zlib wrapper (TINFL_FLAG_PARSE_ZLIB_HEADER, muse_load.c's call) vs inflateZlib ----
    zcases = []
    for i in range(150 if quick else 1500):
        data = payload(rng, rng.choice([0, 1, 5, 100, 2000]))
        z = zlib.compress(data, rng.choice([0, 1, 6, 9]))
        if rng.random() < 0.3:
            co = zlib.compressobj(rng.randint(0, 9), zlib.DEFLATED, rng.randint(9, 15))
            z = co.compress(data) + co.flush()
        k = rng.randrange(8)
        if k == 0:
            z = bytes([z[0] ^ (1 << rng.randrange(8))]) + z[1:]
        elif k == 1:
            z = z[:1] + bytes([z[1] ^ (1 << rng.randrange(8))]) + z[2:]
        elif k == 2:
            i2 = len(z) - 1 - rng.randrange(4)
            z = z[:i2] + bytes([z[i2] ^ (1 << rng.randrange(8))]) + z[i2 + 1:]
        elif k == 3:
            z = z[:rng.randrange(len(z))]
        elif k == 4:
            z = mutate(rng, z)[0]
        elif k == 5:
            z += bytes(rng.getrandbits(8) for _ in range(rng.randint(1, 5)))
        zcases.append(z)
    zl = vlib.run_driver(DRIVER, "".join("zinf %s\n" % hx(z) for z in zcases))
    cfz = os.path.join(workdir, "inflate-zlib.txt")
    with open(cfz, "w") as fh:
        for z in zcases:
            fh.write("l %s\n" % hx(z))
    rc, out, err = vlib.run_exe(exe, [cfz], timeout=600, env=ASAN_ENV)
    lines = out.decode("ascii", "replace").splitlines()
    if rc != 0 or len(lines) != len(zcases) or len(zl) != len(zcases):
        if "Sanitizer" in err or "runtime error" in err:
            ck.violation("inflate:zlib:" + vlib.sanitizer_signature(err), {"case_file": cfz}, "sanitizer report in tinfl with the zlib flag: " + err[-1200:])
        else:
            ck.unproved(CORR, "zlib-wrapper run rc=%s %d/%d answers: %s" % (rc, len(lines), len(zcases), err[-600:]))
    else:
        for z, m, ln in zip(zcases, zl, lines):
            mf = m.split()
            exp = ("L", "ok", mf[3], mf[4]) if mf[1] == "ok" and int(mf[3]) > 0 else ("L", "null")
            bump("zlib-wrapper:" + mf[1])
            ck.count("z" + hx(z)[:64], nontrivial=True)
            d = zlib.decompressobj()
            try:
                o = d.decompress(z)
                zok = d.eof
            except zlib.error:
                o, zok = b"", False
            if zok and len(o) > 0 and tuple(ln.split()) != ("L", "ok", str(len(o)), fnv(o)):
                ck.violation("inflate:zlib-wrapper:rejects-valid", {"zlib_stream_hex": hx(z)},
                             "python zlib decodes this zlib stream to %d bytes, tinfl (PARSE_ZLIB_HEADER) answers %r" % (len(o), ln))
            if tuple(ln.split()) != exp:
                mism += 1
                if mism <= 5:
                    ck.unproved("correspondence Inflate.inflateZlib vs tinfl_decompress_mem_to_heap(PARSE_ZLIB_HEADER)",
                                "real %r, model %r, stream %s" % (ln, m, hx(z)[:1200]))
    ck.note("inflate_streams", len(streams))
    ck.note("inflate_stats", dict(sorted(stats.items())))
    ck.note("inflate_mismatches", mism)
    ck.note("inflate_manifest_note",
            "inflate is no longer a parameter of the gzip/zip pipelines for streams the Lean encoders can write (stored, fixed, dynamic "
            "with any complete codes and any run-length coded header, any mixture of blocks): XmpModel.Inflate mirrors miniz_tinfl.c, "
            "tied two-sidedly by tools/c08_inflate.py (status class, output, consumed bytes; three calling styles + real decrunch_gzip/zip). "
            "NOT proved: that python-zlib / arbitrary third-party streams decode to their payload (correspondence + zlib as third opinion only); "
            "the look-up-table / tree construction of tinfl is modelled by its meaning (canonical decoding, zero entries, lone codes), not line by line.")
    ck.assumptions += [
        "inflate sub-check: the coroutine plumbing of tinfl (suspend/resume, bit-buffer look-ahead and push-back) is covered by the "
        "correspondence (three calling styles incl. 1-byte input pieces), not by the model",
    ]
