#!/usr/bin/env python3
"""Translator for C14: regenerates lean/XmpModel/Gen/MixLinearConsts.lean from /repo's
working tree (constants of the volume/pan stage, the anticlick ramp and the mute rule).

Macros are evaluated by the C preprocessor + compiler on the real headers
(`gcc -E` of a probe that includes common.h / mixer.h and the #defines private to
mixer.c), never copied from a table here.  The literal divisors of the player's
volume/pan tail (`/ 100`) are recognised from the code shape; if the shape is not
recognised the generated value is `none` and the theorems that need it fail to
re-check (reported as *unproved*, never silently assumed)."""
import os
import re
import subprocess
import sys

sys.path.insert(0, os.path.dirname(os.path.abspath(__file__)))
import vlib

OUTFILE = os.path.join(vlib.LEAN, "XmpModel", "Gen", "MixLinearConsts.lean")

MACROS = [  # (lean name, C expression, doc)
    ("panSurround", "PAN_SURROUND", "`PAN_SURROUND` (mixer.h)"),
    ("anticlickShift", "ANTICLICK_SHIFT", "`ANTICLICK_SHIFT` (mixer.h)"),
    ("anticlickFpShift", "ANTICLICK_FPSHIFT", "`ANTICLICK_FPSHIFT` (mixer.c)"),
    ("smixShift", "SMIX_SHIFT", "`SMIX_SHIFT` (mixer.h)"),
    ("downmixShift", "DOWNMIX_SHIFT", "`DOWNMIX_SHIFT` (mixer.c)"),
    ("lim16Hi", "LIM16_HI", "`LIM16_HI` (mixer.c)"),
    ("lim16Lo", "LIM16_LO", "`LIM16_LO` (mixer.c)"),
    ("lim8Hi", "LIM8_HI", "`LIM8_HI` (mixer.c)"),
    ("lim8Lo", "LIM8_LO", "`LIM8_LO` (mixer.c)"),
    ("maxChannels", "XMP_MAX_CHANNELS", "`XMP_MAX_CHANNELS` (xmp.h): size of `channel_mute[]`"),
    ("defaultMix", "DEFAULT_MIX", "`DEFAULT_MIX` (common.h)"),
    ("flagAnticlick", "ANTICLICK", "voice flag `ANTICLICK` (mixer.h)"),
    ("fmtMono", "XMP_FORMAT_MONO", "`XMP_FORMAT_MONO`"),
    ("fmt8bit", "XMP_FORMAT_8BIT", "`XMP_FORMAT_8BIT`"),
    ("fmtUnsigned", "XMP_FORMAT_UNSIGNED", "`XMP_FORMAT_UNSIGNED`"),
    ("interpNearest", "XMP_INTERP_NEAREST", "`XMP_INTERP_NEAREST`"),
]


def private_defines(src):
    """#define lines of mixer.c that precede its first function (object-like, numeric)."""
    out = []
    for m in re.finditer(r"^#define[ \t]+([A-Z_0-9]+)[ \t]+(-?[ \t]*[0-9][0-9a-fx]*)[ \t]*$", src, re.M):
        out.append("#define %s %s" % (m.group(1), m.group(2).replace(" ", "")))
    return "\n".join(out)


def eval_macros():
    mixer_c = open(os.path.join(vlib.REPO, "src", "mixer.c")).read()
    probe = ['#include "common.h"', '#include "mixer.h"', private_defines(mixer_c)]
    for name, expr, _ in MACROS:
        probe.append("VERIF_VALUE %s = (%s);" % (name, expr))
    p = subprocess.run(["gcc", "-E", "-P", "-I" + os.path.join(vlib.REPO, "include"),
                        "-I" + os.path.join(vlib.REPO, "src"), "-x", "c", "-"],
                       input="\n".join(probe).encode(), stdout=subprocess.PIPE, stderr=subprocess.PIPE)
    if p.returncode != 0:
        raise vlib.InfraError("gen_mixlinear: preprocessor failed: " + p.stderr.decode()[-1500:])
    vals = {}
    for m in re.finditer(r"VERIF_VALUE (\w+) = \((.*?)\);", p.stdout.decode()):
        expr = m.group(2)
        if not re.fullmatch(r"[-+*/()<>x0-9a-fA-F \t]*", expr):
            raise vlib.InfraError("gen_mixlinear: macro %s did not reduce to a constant: %r" % (m.group(1), expr))
        expr = re.sub(r"\b0[xX]([0-9a-fA-F]+)\b", lambda h: str(int(h.group(1), 16)), expr)
        vals[m.group(1)] = int(eval(expr.replace("/", "//"), {"__builtins__": {}}))
    return vals


def shape(src, pattern):
    m = re.search(pattern, src)
    return int(m.group(1)) if m else None


def generate():
    vals = eval_macros()
    player = open(os.path.join(vlib.REPO, "src", "player.c")).read()
    virt = open(os.path.join(vlib.REPO, "src", "virtual.c")).read()
    shapes = [
        ("masterDiv", shape(player, r"finalvol\s*=\s*finalvol\s*\*\s*p->master_vol\s*/\s*(\d+)\s*;"),
         "divisor in `finalvol = finalvol * p->master_vol / N` (player.c)"),
        ("smixDiv", shape(player, r"finalvol\s*=\s*finalvol\s*\*\s*p->smix_vol\s*/\s*(\d+)\s*;"),
         "divisor in `finalvol = finalvol * p->smix_vol / N` (player.c)"),
        ("chanVolDiv", shape(player, r"finalvol\s*=\s*finalvol\s*\*\s*get_channel_vol\(ctx,\s*chn\)\s*/\s*(\d+)\s*;"),
         "divisor in `finalvol = finalvol * get_channel_vol(ctx, chn) / N` (player.c)"),
        ("mixDiv", shape(player, r"finalpan\s*=\s*\(finalpan\s*-\s*0x80\)\s*\*\s*s->mix\s*/\s*(\d+)\s*;"),
         "divisor in `finalpan = (finalpan - 0x80) * s->mix / N` (player.c)"),
        ("muteForcesZero", 1 if re.search(r"p->channel_mute\[root\]\)\s*\{\s*vol\s*=\s*0\s*;", virt) else None,
         "1 when libxmp_virt_setvol has the shape `if (root < XMP_MAX_CHANNELS && p->channel_mute[root]) { vol = 0; }`"),
    ]
    # which voices does the master volume reach?  (finding F6)
    cond = re.search(r"if\s*\(([^{;]*?)\)\s*\{\s*finalvol\s*=\s*finalvol\s*\*\s*p->master_vol", player)
    ctext = re.sub(r"\s+", "", cond.group(1)) if cond else ""
    if ctext == "chn<m->mod.chn":
        nna_rule, nna_doc = "false", "the test is `chn < m->mod.chn`: background (NNA) voices get smix_vol"
    elif ctext == "chn<m->mod.chn||(chn>=p->virt.num_tracks&&libxmp_virt_getroot(ctx,chn)<m->mod.chn)":
        nna_rule, nna_doc = "true", "background voices whose root is a module channel get master_vol"
    else:
        nna_rule, nna_doc = "false", "UNRECOGNISED shape %r — assumed old rule; the twin correspondence decides" % ctext[:120]
    L = ["/-! GENERATED by tools/gen_mixlinear.py from src/mixer.c, src/mixer.h, src/common.h, include/xmp.h,",
         "src/player.c, src/virtual.c of the libxmp working tree — do not edit. -/",
         "namespace Xmp.Gen.MixLinearConsts", ""]
    for name, _, doc in MACROS:
        v = vals[name]
        L.append("/-- %s -/" % doc)
        L.append("def %s : Nat := %d" % (name, v) if v >= 0 else "def %s : Int := (%d)" % (name, v))
    L.append("")
    for name, v, doc in shapes:
        L.append("/-- %s (recognised from the code shape; `none` = not recognised) -/" % doc)
        L.append("def %s : Option Nat := %s" % (name, "none" if v is None else "some %d" % v))
    L.append("/-- master-volume rule of process_volume: %s -/" % nna_doc)
    L.append("def nnaRootRule : Bool := %s" % nna_rule)
    L += ["", "end Xmp.Gen.MixLinearConsts", ""]
    return vlib.write_if_changed(OUTFILE, "\n".join(L))


if __name__ == "__main__":
    print("changed" if generate() else "unchanged")
