#!/usr/bin/env python3
"""Translator for C14: regenerates lean/XmpModel/Gen/MixLinearConsts.lean from /repo's
working tree (constants of the volume/pan stage, the anticlick ramp and the mute rule).

Macros are evaluated by the C preprocessor + compiler on the real headers
(`gcc -E` of a probe that includes common.h / mixer.h and the #defines private to
mixer.c), never copied from a table here.  The literal divisors of the player's
volume/pan tail (`/ 100`) are recognised from the code shape; if the shape is not
recognised the generated value is `none` and the theorems that need it fail to
re-check (reported as *unproved*, never silently assumed)."""
import os
import re
import subprocess
import sys

sys.path.insert(0, os.path.dirname(os.path.abspath(__file__)))
import vlib

OUTFILE = os.path.join(vlib.LEAN, "XmpModel", "Gen", "MixLinearConsts.lean")

MACROS = [  # (lean name, C expression, doc)
    ("panSurround", "PAN_SURROUND", "`PAN_SURROUND` (mixer.h)"),
    ("anticlickShift", "ANTICLICK_SHIFT", "`ANTICLICK_SHIFT` (mixer.h)"),
    ("anticlickFpShift", "ANTICLICK_FPSHIFT", "`ANTICLICK_FPSHIFT` (mixer.c)"),
    ("smixShift", "SMIX_SHIFT", "`SMIX_SHIFT` (mixer.h)"),
    ("downmixShift", "DOWNMIX_SHIFT", "`DOWNMIX_SHIFT` (mixer.c)"),
    ("lim16Hi", "LIM16_HI", "`LIM16_HI` (mixer.c)"),
    ("lim16Lo", "LIM16_LO", "`LIM16_LO` (mixer.c)"),
    ("lim8Hi", "LIM8_HI", "`LIM8_HI` (mixer.c)"),
    ("lim8Lo", "LIM8_LO", "`LIM8_LO` (mixer.c)"),
    ("maxChannels", "XMP_MAX_CHANNELS", "`XMP_MAX_CHANNELS` (xmp.h): size of `channel_mute[]`"),
    ("defaultMix", "DEFAULT_MIX", "`DEFAULT_MIX` (common.h)"),
    ("flagAnticlick", "ANTICLICK", "voice flag `ANTICLICK` (mixer.h)"),
    ("fmtMono", "XMP_FORMAT_MONO", "`XMP_FORMAT_MONO`"),
    ("fmt8bit", "XMP_FORMAT_8BIT", "`XMP_FORMAT_8BIT`"),
    ("fmtUnsigned", "XMP_FORMAT_UNSIGNED", "`XMP_FORMAT_UNSIGNED`"),
    ("interpNearest", "XMP_INTERP_NEAREST", "`XMP_INTERP_NEAREST`"),
]


def private_defines(src):
    """#define lines of mixer.c that precede its first function (object-like, numeric)."""
    out = []
    for m in re.finditer(r"^#define[ \t]+([A-Z_0-9]+)[ \t]+(-?[ \t]*[0-9][0-9a-fx]*)[ \t]*$", src, re.M):
        out.append("#define %s %s" % (m.group(1), m.group(2).replace(" ", "")))
    return "\n".join(out)


def eval_macros():
    mixer_c = open(os.path.join(vlib.REPO, "src", "mixer.c")).read()
    probe = ['#include "common.h"', '#include "mixer.h"', private_defines(mixer_c)]
    for name, expr, _ in MACROS:
        probe.append("VERIF_VALUE %s = (%s);" % (name, expr))
    p = subprocess.run(["gcc", "-E", "-P", "-I" + os.path.join(vlib.REPO, "include"),
                        "-I" + os.path.join(vlib.REPO, "src"), "-x", "c", "-"],
                       input="\n".join(probe).encode(), stdout=subprocess.PIPE, stderr=subprocess.PIPE)
    if p.returncode != 0:
        raise vlib.InfraError("gen_mixlinear: preprocessor failed: " + p.stderr.decode()[-1500:])
    vals = {}
    for m in re.finditer(r"VERIF_VALUE (\w+) = \((.*?)\);", p.stdout.decode()):
        expr = m.group(2)
        if not re.fullmatch(r"[-+*/()<>x0-9a-fA-F \t]*", expr):
            raise vlib.InfraError("gen_mixlinear: macro %s did not reduce to a constant: %r" % (m.group(1), expr))
        expr = re.sub(r"\b0[xX]([0-9a-fA-F]+)\b", lambda h: str(int(h.group(1), 16)), expr)
        vals[m.group(1)] = int(eval(expr.replace("/", "//"), {"__builtins__": {}}))
    return vals


def shape(src, pattern):
    m = re.search(pattern, src)
    return int(m.group(1)) if m else None


def generate():
    vals = eval_macros()
    player = open(os.path.join(vlib.REPO, "src", "player.c")).read()
    virt = open(os.path.join(vlib.REPO, "src", "virtual.c")).read()
    shapes = [
        ("masterDiv", shape(player, r"finalvol\s*=\s*finalvol\s*\*\s*p->master_vol\s*/\s*(\d+)\s*;"),
         "divisor in `finalvol = finalvol * p->master_vol / N` (player.c)"),
        ("smixDiv", shape(player, r"finalvol\s*=\s*finalvol\s*\*\s*p->smix_vol\s*/\s*(\d+)\s*;"),
         "divisor in `finalvol = finalvol * p->smix_vol / N` (player.c)"),
        ("chanVolDiv", shape(player, r"finalvol\s*=\s*finalvol\s*\*\s*get_channel_vol\(ctx,\s*chn\)\s*/\s*(\d+)\s*;"),
         "divisor in `finalvol = finalvol * get_channel_vol(ctx, chn) / N` (player.c)"),
        ("mixDiv", shape(player, r"finalpan\s*=\s*\(finalpan\s*-\s*0x80\)\s*\*\s*s->mix\s*/\s*(\d+)\s*;"),
         "divisor in `finalpan = (finalpan - 0x80) * s->mix / N` (player.c)"),
        ("muteForcesZero", 1 if re.search(r"p->channel_mute\[root\]\)\s*\{\s*vol\s*=\s*0\s*;", virt) else None,
         "1 when libxmp_virt_setvol has the shape `if (root < XMP_MAX_CHANNELS && p->channel_mute[root]) { vol = 0; }`"),
    ]
    # volume translation table of process_volume (PTM, Archimedes Tracker, Coconizer):
    #   finalvol = m->volbase == 0xff ? m->vol_table[finalvol >> A] << A : m->vol_table[finalvol >> B] << B;
    # its place in the statement order (before the master / effects-mixer scaling) and the length of the installed tables
    def table_len(path, name):
        try:
            src = open(os.path.join(vlib.REPO, "src", "loaders", path)).read()
        except OSError:
            return None
        m = re.search(r"\b%s\s*\[\s*\]\s*=\s*\{(.*?)\}\s*;" % re.escape(name), src, re.S)
        if not m:
            return None
        body = re.sub(r"/\*.*?\*/", " ", m.group(1), flags=re.S)
        return len(re.findall(r"-?(?:0[xX][0-9a-fA-F]+|\d+)", body))
    pv = re.search(r"static\s+void\s+process_volume\s*\(.*?\n\}\n", player, re.S)
    pvb = pv.group(0) if pv else ""
    mt = re.search(r"finalvol\s*=\s*m->volbase\s*==\s*0xff\s*\?\s*m->vol_table\s*\[\s*finalvol\s*>>\s*(\d+)\s*\]\s*<<\s*(\d+)\s*:"
                   r"\s*m->vol_table\s*\[\s*finalvol\s*>>\s*(\d+)\s*\]\s*<<\s*(\d+)\s*;", pvb)
    sh_ff = sh_el = order = None
    if mt and mt.group(1) == mt.group(2) and mt.group(3) == mt.group(4):
        sh_ff, sh_el = int(mt.group(1)), int(mt.group(3))
        mm = re.search(r"finalvol\s*\*\s*p->master_vol", pvb)
        ms = re.search(r"finalvol\s*\*\s*p->smix_vol", pvb)
        if mm and ms and mt.start() < mm.start() and mt.start() < ms.start() and len(re.findall(r"vol_table\s*\[", pvb)) == 2:
            order = 1
    lens = [table_len("voltable.c", "libxmp_arch_vol_table"), table_len("ptm_load.c", "ptm_vol")]
    shapes += [
        ("volTableShiftFF", sh_ff, "shift of the volume-table lookup of process_volume when `m->volbase == 0xff`"),
        ("volTableShiftElse", sh_el, "shift of the volume-table lookup otherwise"),
        ("volTableBeforeMaster", order, "1 when the volume-table lookup of process_volume stands before both the master_vol and the smix_vol "
                                        "scaling (and is the only use of m->vol_table there)"),
        ("volTableLenArch", lens[0], "number of entries of libxmp_arch_vol_table[] (volbase 0xff formats: Archimedes Tracker, Coconizer)"),
        ("volTableLenPtm", lens[1], "number of entries of ptm_vol[] (PTM)"),
    ]
    # which voices does the master volume reach?  (finding F6)
    cond = re.search(r"if\s*\(([^{;]*?)\)\s*\{\s*finalvol\s*=\s*finalvol\s*\*\s*p->master_vol", player)
    ctext = re.sub(r"\s+", "", cond.group(1)) if cond else ""
    if ctext == "chn<m->mod.chn":
        nna_rule, nna_doc = "false", "the test is `chn < m->mod.chn`: background (NNA) voices get smix_vol"
    elif ctext == "chn<m->mod.chn||(chn>=p->virt.num_tracks&&libxmp_virt_getroot(ctx,chn)<m->mod.chn)":
        nna_rule, nna_doc = "true", "background voices whose root is a module channel get master_vol"
    else:
        nna_rule, nna_doc = "false", "UNRECOGNISED shape %r — assumed old rule; the twin correspondence decides" % ctext[:120]
    L = ["/-! GENERATED by tools/gen_mixlinear.py from src/mixer.c, src/mixer.h, src/common.h, include/xmp.h,",
         "src/player.c, src/virtual.c of the libxmp working tree — do not edit. -/",
         "namespace Xmp.Gen.MixLinearConsts", ""]
    for name, _, doc in MACROS:
        v = vals[name]
        L.append("/-- %s -/" % doc)
        L.append("def %s : Nat := %d" % (name, v) if v >= 0 else "def %s : Int := (%d)" % (name, v))
    L.append("")
    for name, v, doc in shapes:
        L.append("/-- %s (recognised from the code shape; `none` = not recognised) -/" % doc)
        L.append("def %s : Option Nat := %s" % (name, "none" if v is None else "some %d" % v))
    L.append("/-- master-volume rule of process_volume: %s -/" % nna_doc)
    L.append("def nnaRootRule : Bool := %s" % nna_rule)
    L += ["", "end Xmp.Gen.MixLinearConsts", ""]
    return vlib.write_if_changed(OUTFILE, "\n".join(L))


# ---------------------------------------------------------------------------------------------
# Kernel constants and the cubic spline table (XmpModel/Gen/MixKernelConsts.lean, used by
# XmpModel/MixKernel.lean): every constant the kernels of src/mix_all.c use.
# ---------------------------------------------------------------------------------------------

KOUTFILE = os.path.join(vlib.LEAN, "XmpModel", "Gen", "MixKernelConsts.lean")

KMACROS = [  # (lean name, C expression, doc)
    ("smixShift", "SMIX_SHIFT", "`SMIX_SHIFT` (mixer.h): fractional bits of the sample position"),
    ("smixMask", "SMIX_MASK", "`SMIX_MASK` (mixer.h)"),
    ("filterShift", "FILTER_SHIFT", "`FILTER_SHIFT` (mixer.h)"),
    ("preampBits", "PREAMP_BITS", "`PREAMP_BITS` (mix_all.c)"),
    ("filterMin", "FILTER_MIN", "`FILTER_MIN` (mix_all.c)"),
    ("filterMax", "FILTER_MAX", "`FILTER_MAX` (mix_all.c)"),
    ("splineShift", "SPLINE_SHIFT", "`SPLINE_SHIFT` (mix_all.c)"),
    ("flag16Bits", "FLAG_16_BITS", "`FLAG_16_BITS` (mixer.c): bit of the kernel table index"),
    ("flagStereo", "FLAG_STEREO", "`FLAG_STEREO` (mixer.c)"),
    ("flagStereoOut", "FLAG_STEREOOUT", "`FLAG_STEREOOUT` (mixer.c)"),
    ("flagFilter", "FLAG_FILTER", "`FLAG_FILTER` (mixer.c)"),
    ("smixNumVoc", "SMIX_NUMVOC", "`SMIX_NUMVOC` (mixer.h): default number of mixer voices"),
    ("interpLinear", "XMP_INTERP_LINEAR", "`XMP_INTERP_LINEAR`"),
    ("interpSpline", "XMP_INTERP_SPLINE", "`XMP_INTERP_SPLINE`"),
]


def object_defines(src):
    """object-like one-line #defines of a C file (no parameters, no continuation)"""
    out = []
    for m in re.finditer(r"^#define[ \t]+([A-Za-z_0-9]+)[ \t]+([^\\\n]+?)[ \t]*$", src, re.M):
        if "/*" in m.group(2):
            body = m.group(2).split("/*")[0].strip()
        else:
            body = m.group(2)
        if body:
            out.append("#define %s %s" % (m.group(1), body))
    return "\n".join(out)


def eval_kernel_macros():
    mixer_c = open(os.path.join(vlib.REPO, "src", "mixer.c")).read()
    mix_all = open(os.path.join(vlib.REPO, "src", "mix_all.c")).read()
    probe = ['#include "common.h"', '#include "mixer.h"', private_defines(mixer_c),
             "\n".join(l for l in object_defines(mixer_c).splitlines() if re.match(r"#define (FLAG_|FIDX_)", l)),
             "\n".join(l for l in object_defines(mix_all).splitlines()
                       if re.match(r"#define (PREAMP_BITS|FILTER_MIN|FILTER_MAX|SPLINE_QUANTBITS|SPLINE_SHIFT) ", l))]
    for name, expr, _ in KMACROS:
        probe.append("VERIF_VALUE %s = (%s);" % (name, expr))
    p = subprocess.run(["gcc", "-E", "-P", "-I" + os.path.join(vlib.REPO, "include"),
                        "-I" + os.path.join(vlib.REPO, "src"), "-x", "c", "-"],
                       input="\n".join(probe).encode(), stdout=subprocess.PIPE, stderr=subprocess.PIPE)
    if p.returncode != 0:
        raise vlib.InfraError("gen_mixlinear(kernel): preprocessor failed: " + p.stderr.decode()[-1500:])
    vals = {}
    for m in re.finditer(r"VERIF_VALUE (\w+) = \((.*?)\);", p.stdout.decode()):
        expr = m.group(2)
        if not re.fullmatch(r"[-+*/()<>x0-9a-fA-F \t]*", expr):
            raise vlib.InfraError("gen_mixlinear(kernel): macro %s did not reduce to a constant: %r" % (m.group(1), expr))
        expr = re.sub(r"\b0[xX]([0-9a-fA-F]+)\b", lambda h: str(int(h.group(1), 16)), expr)
        vals[m.group(1)] = int(eval(expr.replace("/", "//"), {"__builtins__": {}}))
    return vals


def spline_tables():
    src = open(os.path.join(vlib.REPO, "src", "precomp_lut.h")).read()
    t = {}
    for m in re.finditer(r"static\s+const\s+int16\s+cubic_spline_lut(\d)\[(\d+)\]\s*=\s*\{(.*?)\};", src, re.S):
        vals = [int(x) for x in re.findall(r"-?\d+", m.group(3))]
        if len(vals) != int(m.group(2)):
            raise vlib.InfraError("gen_mixlinear(kernel): cubic_spline_lut%s has %d entries, declared %s" % (m.group(1), len(vals), m.group(2)))
        t[int(m.group(1))] = vals
    if sorted(t) != [0, 1, 2, 3] or len({len(v) for v in t.values()}) != 1:
        raise vlib.InfraError("gen_mixlinear(kernel): the four cubic spline tables were not recognised in precomp_lut.h")
    return t


def generate_kernel():
    vals = eval_kernel_macros()
    mix_all = open(os.path.join(vlib.REPO, "src", "mix_all.c")).read()
    t = spline_tables()
    # code shapes of the interpolation macros: the literal shifts
    shapes = [
        ("splineFracShift", shape(mix_all, r"#define SPLINE_16BIT\(smp_in, off\) do \{ \\\n\s*int f = frac >> (\d+);"),
         "`int f = frac >> N` of SPLINE_16BIT / SPLINE_8BIT (mix_all.c): index into the spline tables"),
        ("spline8Shift", shape(mix_all, r"#define SPLINE_8BIT(?:.*\\\n)+?.*>> \(SPLINE_SHIFT - (\d+)\);"),
         "N of `>> (SPLINE_SHIFT - N)` in SPLINE_8BIT (mix_all.c)"),
        ("nearest8Shift", shape(mix_all, r"#define NEAREST_8BIT(?:.*\\\n)+?.*\(int16\)sptr\[pos \+ \(off\)\] << (\d+)\)"),
         "N of `(int16)sptr[pos + (off)] << N` in NEAREST_8BIT / LINEAR_8BIT (mix_all.c)"),
        ("rampLevelShift", shape(mix_all, r"MIX_OUT\(\(smp_in\), old_vl >> (\d+)\)"),
         "N of `old_vl >> N` in MIX_MONO_AC / MIX_STEREO_AC (mix_all.c)"),
    ]
    n = len(t[0])
    L = ["/-! GENERATED by tools/gen_mixlinear.py from src/mix_all.c, src/mixer.c, src/mixer.h, src/precomp_lut.h of the",
         "libxmp working tree — do not edit. -/",
         "namespace Xmp.Gen.MixKernelConsts", ""]
    for name, _, doc in KMACROS:
        v = vals[name]
        L.append("/-- %s -/" % doc)
        L.append("def %s : Nat := %d" % (name, v) if v >= 0 else "def %s : Int := (%d)" % (name, v))
    L.append("")
    for name, v, doc in shapes:
        L.append("/-- %s (recognised from the code shape; `none` = not recognised) -/" % doc)
        L.append("def %s : Option Nat := %s" % (name, "none" if v is None else "some %d" % v))
    L.append("")
    L.append("/-- number of entries of each `cubic_spline_lutN[]` (precomp_lut.h) -/")
    L.append("def splineLutLen : Nat := %d" % n)
    rows = ["(%d, %d, %d, %d)" % (t[0][f], t[1][f], t[2][f], t[3][f]) for f in range(n)]
    CH = 32     # the list literal is written in chunks (one long literal exhausts the elaborator's budget)
    nch = (n + CH - 1) // CH
    for c in range(nch):
        L.append("def splineRowsChunk%d : List (Int × Int × Int × Int) := [" % c)
        L.append("  " + ",\n  ".join(rows[c * CH:(c + 1) * CH]))
        L.append("]")
    L.append("/-- row `f` = `(cubic_spline_lut0[f], cubic_spline_lut1[f], cubic_spline_lut2[f], cubic_spline_lut3[f])` -/")
    L.append("def splineRows : List (Int × Int × Int × Int) :=")
    L.append("  " + " ++ ".join("splineRowsChunk%d" % c for c in range(nch)))
    L += ["", "end Xmp.Gen.MixKernelConsts", ""]
    return vlib.write_if_changed(KOUTFILE, "\n".join(L))


# ---------------------------------------------------------------------------------------------
# Paula simulator constants and the BLEP table (XmpModel/Gen/MixKernelPaulaConsts.lean)
# ---------------------------------------------------------------------------------------------

POUTFILE = os.path.join(vlib.LEAN, "XmpModel", "Gen", "MixKernelPaulaConsts.lean")

PMACROS = [
    ("paulaHz", "PAULA_HZ", "`PAULA_HZ` (paula.h)"),
    ("minimumInterval", "MINIMUM_INTERVAL", "`MINIMUM_INTERVAL` (paula.h)"),
    ("blepScale", "BLEP_SCALE", "`BLEP_SCALE` (paula.h)"),
    ("blepSize", "BLEP_SIZE", "`BLEP_SIZE` (paula.h)"),
    ("maxBleps", "MAX_BLEPS", "`MAX_BLEPS` (paula.h)"),
]


def generate_paula():
    probe = ['#include "common.h"', '#include "mixer.h"', '#include "paula.h"']
    for name, expr, _ in PMACROS:
        probe.append("VERIF_VALUE %s = (%s);" % (name, expr))
    p = subprocess.run(["gcc", "-E", "-P", "-DLIBXMP_PAULA_SIMULATOR", "-I" + os.path.join(vlib.REPO, "include"),
                        "-I" + os.path.join(vlib.REPO, "src"), "-x", "c", "-"],
                       input="\n".join(probe).encode(), stdout=subprocess.PIPE, stderr=subprocess.PIPE)
    if p.returncode != 0:
        raise vlib.InfraError("gen_mixlinear(paula): preprocessor failed: " + p.stderr.decode()[-1500:])
    vals = {}
    for m in re.finditer(r"VERIF_VALUE (\w+) = \((.*?)\);", p.stdout.decode()):
        expr = m.group(2)
        if not re.fullmatch(r"[-+*/()<>x0-9a-fA-F \t]*", expr):
            raise vlib.InfraError("gen_mixlinear(paula): macro %s did not reduce to a constant: %r" % (m.group(1), expr))
        vals[m.group(1)] = int(eval(expr.replace("/", "//"), {"__builtins__": {}}))
    src = open(os.path.join(vlib.REPO, "src", "precomp_blep.h")).read()
    m = re.search(r"winsinc_integral\[(\d+)\]\[(\d+)\]\s*=\s*\{(.*)\};", src, re.S)
    if not m:
        raise vlib.InfraError("gen_mixlinear(paula): winsinc_integral not recognised in precomp_blep.h")
    ntab, nent = int(m.group(1)), int(m.group(2))
    tabs = [[int(x) for x in re.findall(r"-?\d+", t)] for t in re.findall(r"\{([^{}]*)\}", m.group(3))]
    if len(tabs) != ntab or ntab != 2 or any(len(t) != nent for t in tabs):
        raise vlib.InfraError("gen_mixlinear(paula): winsinc_integral has an unexpected shape")
    mp = open(os.path.join(vlib.REPO, "src", "mix_paula.c")).read()
    shapes = [
        ("paulaLevelShift", shape(mp, r"vl <<= (\d+)"), "N of `vl <<= N` / `vr <<= N` in VAR_PAULA (mix_paula.c)"),
    ]
    L = ["/-! GENERATED by tools/gen_mixlinear.py from src/paula.h, src/precomp_blep.h, src/mix_paula.c of the libxmp working",
         "tree — do not edit. -/",
         "namespace Xmp.Gen.MixKernelPaulaConsts", ""]
    for name, _, doc in PMACROS:
        L.append("/-- %s -/" % doc)
        L.append("def %s : Nat := %d" % (name, vals[name]))
    for name, v, doc in shapes:
        L.append("/-- %s (recognised from the code shape; `none` = not recognised) -/" % doc)
        L.append("def %s : Option Nat := %s" % (name, "none" if v is None else "some %d" % v))
    L.append("")
    rows = ["(%d, %d)" % (tabs[0][i], tabs[1][i]) for i in range(nent)]
    CH = 64
    nch = (nent + CH - 1) // CH
    for c in range(nch):
        L.append("def blepRowsChunk%d : List (Int × Int) := [" % c)
        L.append("  " + ",\n  ".join(", ".join(rows[c * CH + k:c * CH + k + 8]) for k in range(0, CH, 8) if rows[c * CH + k:c * CH + k + 8]))
        L.append("]")
    L.append("/-- row `age` = `(winsinc_integral[0][age], winsinc_integral[1][age])` (A500 filter off, on) -/")
    L.append("def blepRows : List (Int × Int) :=")
    L.append("  " + " ++ ".join("blepRowsChunk%d" % c for c in range(nch)))
    L += ["", "end Xmp.Gen.MixKernelPaulaConsts", ""]
    return vlib.write_if_changed(POUTFILE, "\n".join(L))


# ---------------------------------------------------------------------------------------------
# Members of struct mixer_voice (XmpModel/Gen/MixKernelVoiceMembers.lean + harness/c14_voice_members.h):
# parsed from the preprocessed src/mixer.h so that a new member cannot be forgotten by the reset model.
# ---------------------------------------------------------------------------------------------

VOUTFILE = os.path.join(vlib.LEAN, "XmpModel", "Gen", "MixKernelVoiceMembers.lean")
VHEADER = os.path.join(vlib.VERIF, "harness", "c14_voice_members.h")


def _struct_body(text, name):
    m = re.search(r"struct\s+%s\s*\{" % re.escape(name), text)
    if not m:
        return None
    i, depth = m.end(), 1
    while i < len(text) and depth:
        depth += {"{": 1, "}": -1}.get(text[i], 0)
        i += 1
    return text[m.end():i - 1]


def _members(body, prefix=""):
    """leaf members of a struct body: [(dotted name, kind)] with kind int / double / ptr; nested anonymous structs are flattened"""
    out, i = [], 0
    body = re.sub(r"/\*.*?\*/", " ", body, flags=re.S)
    while i < len(body):
        m = re.compile(r"\s*struct\s*\{").match(body, i)
        if m:
            j, depth = m.end(), 1
            while j < len(body) and depth:
                depth += {"{": 1, "}": -1}.get(body[j], 0)
                j += 1
            inner = body[m.end():j - 1]
            m2 = re.compile(r"\s*(\w+)\s*;").match(body, j)
            if not m2:
                raise vlib.InfraError("gen_mixlinear(voice): unnamed nested struct in struct mixer_voice")
            out += _members(inner, prefix + m2.group(1) + ".")
            i = m2.end()
            continue
        m = re.compile(r"\s*([^;{}]+?)\s*;").match(body, i)
        if not m:
            break
        decl = m.group(1).strip()
        i = m.end()
        if not decl:
            continue
        md = re.fullmatch(r"(.*?)(\**)\s*(\w+)\s*(\[[^\]]*\])?", decl, re.S)
        if not md or md.group(4):
            raise vlib.InfraError("gen_mixlinear(voice): member declaration not understood: %r" % decl)
        typ, stars, name = md.group(1).strip(), md.group(2), md.group(3)
        if stars or typ.endswith("*"):
            kind = "ptr"
        elif re.fullmatch(r"(signed |unsigned )?(int|long|short|char)|int8|int16|int32|uint8|uint16|uint32", typ):
            kind = "int"
        elif typ in ("double", "float"):
            kind = "double"
        else:
            raise vlib.InfraError("gen_mixlinear(voice): member type not understood: %r" % decl)
        out.append((prefix + name, kind))
    return out


def voice_members():
    probe = '#include "common.h"\n#include "mixer.h"\n'
    p = subprocess.run(["gcc", "-E", "-P", "-I" + os.path.join(vlib.REPO, "include"), "-I" + os.path.join(vlib.REPO, "src"),
                        "-x", "c", "-"], input=probe.encode(), stdout=subprocess.PIPE, stderr=subprocess.PIPE)
    if p.returncode != 0:
        raise vlib.InfraError("gen_mixlinear(voice): preprocessor failed: " + p.stderr.decode()[-1500:])
    body = _struct_body(p.stdout.decode(), "mixer_voice")
    if body is None:
        raise vlib.InfraError("gen_mixlinear(voice): struct mixer_voice not found")
    return _members(body)


def generate_voice():
    mem = voice_members()
    L = ["/-! GENERATED by tools/gen_mixlinear.py from the preprocessed src/mixer.h of the libxmp working tree — do not edit. -/",
         "namespace Xmp.Gen.MixKernelVoiceMembers", "",
         "/-- every leaf member of `struct mixer_voice` (nested structs flattened, in declaration order) with its kind -/",
         "def voiceMembers : List (String × String) := ["]
    L.append(",\n".join('  ("%s", "%s")' % (n, k) for n, k in mem))
    L += ["]", "", "end Xmp.Gen.MixKernelVoiceMembers", ""]
    a = vlib.write_if_changed(VOUTFILE, "\n".join(L))
    H = ["/* GENERATED by tools/gen_mixlinear.py from the preprocessed src/mixer.h - do not edit.",
         " * X-macro over every leaf member of struct mixer_voice: I(member) int-like, D(member) floating, P(member) pointer. */",
         "#define C14_VOICE_MEMBERS(I, D, P) \\"]
    H.append(" \\\n".join("\t%s(%s)" % ({"int": "I", "double": "D", "ptr": "P"}[k], n) for n, k in mem))
    H.append("")
    b = vlib.write_if_changed(VHEADER, "\n".join(H))
    return a or b


def generate_all():
    a = generate()
    b = generate_kernel()
    c = generate_paula()
    d = generate_voice()
    return a or b or c or d


if __name__ == "__main__":
    print("changed" if generate_all() else "unchanged")
