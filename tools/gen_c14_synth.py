#!/usr/bin/env python3
"""Synthetic modules for C14 (written from scratch, deterministic in the seed):

* S3M files with 8 channels, tiny sample loops (1..4 frames, 8- and 16-bit), one-shots shorter
  than a tick, retriggers (Qxy), offsets, slides and S8x pans, channel pans 0x00 … 0xF0:
  many voices whose spans are 1..3 frames long, i.e. the loop / end-of-sample / anticlick
  paths of libxmp_mixer_softmixer run several times per tick on several voices at once;
* M.K. MOD files (default Amiga pans exactly 0 and 255) with 4-frame loops, high notes and
  E9x retriggers: 1-frame spans at low output rates, hard-left/right pans for the separation
  mirror at exactly +-100, Paula kernels in A500 mode.
"""
import os
import random
import struct


def _pad16(b):
    return b + bytes((-len(b)) % 16)


def s3m(rng):
    nchn, nins, npat = 8, 7, 2
    orders = bytes([0, 1, 0, 1])
    smp = []
    shapes = [  # (length, loopbeg, loopend, 16bit, c2spd, volume)
        (8, 5, 8, 0, 8363), (4, 3, 4, 0, 16726), (16, 10, 12, 0, 4181), (5, 0, 0, 0, 22050),
        (12, 8, 10, 1, 8363), (64, 0, 64, 0, 33452), (9, 2, 6, 1, 11025)]
    for (ln, lb, le, w16, c2) in shapes:
        if w16:
            data = b"".join(struct.pack("<H", rng.randrange(0, 65536)) for _ in range(ln))
        else:
            data = bytes(rng.randrange(0, 256) for _ in range(ln))
        smp.append((ln, lb, le, w16, c2, rng.choice([64, 48, 33, 20]), data))
    pats = []
    for _ in range(npat):
        rows = bytearray()
        for r in range(64):
            for c in range(nchn):
                if r == 0 or rng.random() < 0.45:
                    what = c | 0x20
                    note = (rng.randrange(2, 8) << 4) | rng.randrange(0, 12)
                    if rng.random() < 0.05:
                        note = 254
                    ev = bytearray([0, note, rng.randrange(1, nins + 1)])
                    if rng.random() < 0.5:
                        what |= 0x40
                        ev.append(rng.choice([64, 63, 40, 17, 1, 0]))
                    if rng.random() < 0.6:
                        what |= 0x80
                        fx = rng.choice([(17, rng.choice([0x01, 0x02, 0x13, 0x91, 0xE2])),      # Qxy retrigger
                                         (19, 0x80 | rng.choice([0, 0, 15, 15, 8, 3, 12])),     # S8x pan
                                         (4, rng.choice([0x01, 0x10, 0xF1, 0x1F, 0x20])),      # Dxy volume slide
                                         (6, rng.choice([0x01, 0x10, 0x40, 0xF2])),            # Fxx portamento up
                                         (5, rng.choice([0x02, 0x20, 0xE3])),                  # Exx portamento down
                                         (15, rng.choice([0, 1])),                             # Oxx offset
                                         (8, 0x4F)])                                           # Hxy vibrato
                        ev += bytes(fx)
                    ev[0] = what
                    rows += ev
            rows.append(0)
        pats.append(struct.pack("<H", len(rows) + 2) + bytes(rows))
    chset = bytes([0, 8, 1, 9, 2, 10, 3, 11]) + bytes([255] * 24)
    pans = bytes([0x20 | p for p in (0x0, 0xF, 0x8, 0x0, 0xF, 0x3, 0xC, 0x7)]) + bytes(24)
    head_len = 96 + len(orders) + 2 * nins + 2 * npat + 32
    off = (head_len + 15) // 16 * 16
    ins_off = [off + 80 * i for i in range(nins)]
    off += 80 * nins
    pat_off = []
    for p in pats:
        pat_off.append(off)
        off += (len(p) + 15) // 16 * 16
    smp_off = []
    for s in smp:
        smp_off.append(off)
        off += (len(s[6]) + 15) // 16 * 16
    h = bytearray(b"c14 synthetic".ljust(28, b"\0"))
    h += bytes([0x1A, 16, 0, 0])
    h += struct.pack("<HHHHHH", len(orders), nins, npat, 0, 0x1320, 2)
    h += b"SCRM"
    h += bytes([64, 3, 125, 0x80 | 48, 0, 0xFC]) + bytes(8) + struct.pack("<H", 0)
    h += chset
    assert len(h) == 96
    h += orders
    h += b"".join(struct.pack("<H", o // 16) for o in ins_off)
    h += b"".join(struct.pack("<H", o // 16) for o in pat_off)
    h += pans
    out = bytearray(_pad16(bytes(h)))
    for i, s in enumerate(smp):
        (ln, lb, le, w16, c2, vol, data) = s
        seg = smp_off[i] // 16
        ih = bytearray([1]) + b"SMP".ljust(12, b"\0") + bytes([seg >> 16]) + struct.pack("<H", seg & 0xFFFF)
        ih += struct.pack("<III", ln, lb, le)
        ih += bytes([vol, 0, 0, (1 if le > lb else 0) | (4 if w16 else 0)])
        ih += struct.pack("<I", c2) + bytes(12) + ("smp%d" % i).encode().ljust(28, b"\0") + b"SCRS"
        assert len(ih) == 80
        assert len(out) == ins_off[i]
        out += ih
    for i, p in enumerate(pats):
        assert len(out) == pat_off[i]
        out += _pad16(p)
    for i, s in enumerate(smp):
        assert len(out) == smp_off[i]
        out += _pad16(s[6])
    return bytes(out)


PERIODS = [856, 808, 762, 720, 678, 640, 604, 570, 538, 508, 480, 453, 428, 404, 381, 360, 339, 320, 302, 285, 269, 254,
           240, 226, 214, 202, 190, 180, 170, 160, 151, 143, 135, 127, 120, 113]


def mod(rng):
    smp = []
    for (words, rs, rl) in [(8, 6, 2), (4, 2, 2), (40, 0, 40), (3, 0, 1), (16, 12, 3), (200, 0, 1)]:
        data = bytes(rng.randrange(0, 256) for _ in range(words * 2))
        smp.append((words, rng.choice([64, 50, 32]), rs, rl, b"\0\0" + data[2:]))
    out = bytearray(b"c14 synthetic mod".ljust(20, b"\0"))
    for i in range(31):
        if i < len(smp):
            w, vol, rs, rl, _ = smp[i]
            out += ("s%d" % i).encode().ljust(22, b"\0") + struct.pack(">HBBHH", w, 0, vol, rs, rl)
        else:
            out += bytes(22) + struct.pack(">HBBHH", 0, 0, 0, 0, 1)
    out += bytes([2, 127]) + bytes([0, 1]) + bytes(126) + b"M.K."
    for _ in range(2):
        for r in range(64):
            for c in range(4):
                if r == 0 or rng.random() < 0.5:
                    per = rng.choice(PERIODS[12:] + PERIODS[24:])
                    ins = rng.randrange(1, len(smp) + 1)
                    fx, par = rng.choice([(0xE, 0x91), (0xE, 0x92), (0xC, rng.choice([64, 30, 1, 0])), (0xA, 0x0F), (0xA, 0xF0),
                                          (0x1, 0x20), (0x2, 0x10), (0x9, 0x00), (0xF, 0x03), (0x0, 0x00), (0xE, 0xC1)])
                    out += bytes([(ins & 0xF0) | (per >> 8), per & 0xFF, ((ins & 0x0F) << 4) | fx, par])
                else:
                    out += bytes(4)
    for s in smp:
        out += s[4]
    return bytes(out)


def it_overdrive(nchn, mv, pan=0, nrows=64, smpval=32767):
    """IT file (sample mode) whose `nchn` channels all start, on row 0, one looped 16-bit sample holding the
    constant `smpval`, at full volume, channel pan `pan` (0 = hard left), mixing volume byte `mv`: the voices add
    up coherently in the left accumulator words — the excluded point of the no-wrap theorem
    (voices x sampleBound x level >= 2^31)."""
    ln, nsmp, npat = 1, 1, 1
    hdr = bytearray(b"IMPM" + b"c14 overdrive".ljust(26, b"\0") + b"\x04\x10")
    hdr += struct.pack("<HHHH", ln, 0, nsmp, npat)
    hdr += struct.pack("<HHHH", 0x0214, 0x0214, 0x09, 0)
    hdr += bytes([128, mv, 6, 125, 128, 0]) + struct.pack("<HII", 0, 0, 0)
    hdr += bytes([pan] * nchn + [0xA0] * (64 - nchn)) + bytes([64] * 64)
    off = 192 + ln + 4 * nsmp + 4 * npat
    sptr = off
    off += 80
    data = bytearray()
    for r in range(nrows):
        if r == 0:
            for c in range(1, nchn + 1):
                data += bytes([c | 0x80, 3, 60, 1])
        data += b"\0"
    pb = struct.pack("<HHI", len(data), nrows, 0) + data
    pptr = off
    off += len(pb)
    n = 64
    sh = bytearray(b"IMPS" + b"dc.raw".ljust(12, b"\0") + b"\0" + bytes([64, 1 | 2 | 0x10, 64]))
    sh += b"dc".ljust(26, b"\0") + bytes([1, 32])
    sh += struct.pack("<IIII", n, 0, n, 8363)
    sh += struct.pack("<III", 0, 0, off) + bytes([0, 0, 0, 0])
    return (bytes(hdr) + bytes([0]) + struct.pack("<I", sptr) + struct.pack("<I", pptr) + bytes(sh).ljust(80, b"\0") + pb
            + struct.pack("<h", smpval) * n)


# (file name, channels, mixing volume): the first two exceed 2^31 in the left accumulator words with the player's
# default settings, the third reaches 64 * 32767 * 1024 = 2^31 - 65536 (the largest sum that still fits)
OVERDRIVE = [("overdrive16_mv255.it", 16, 255), ("overdrive32_mv128.it", 32, 128), ("overdrive64_mv48.it", 64, 48)]


def overdrive_modules(outdir):
    os.makedirs(outdir, exist_ok=True)
    paths = []
    for name, nchn, mv in OVERDRIVE:
        p = os.path.join(outdir, name)
        data = it_overdrive(nchn, mv)
        try:
            same = open(p, "rb").read() == data
        except OSError:
            same = False
        if not same:
            open(p, "wb").write(data)
        paths.append(p)
    return paths


# --------------------------------------------------------------------------------------------------
# Pan sources of process_pan(): IT files in instrument mode and an XM file, one source isolated per
# file plus combinations.  Mono samples only, so the separation oracle applies (except *_sur).
# --------------------------------------------------------------------------------------------------

def _it_env(nodes=None, loop=None):
    """82-byte IT envelope; nodes = [(value, tick)], loop = (begin, end) node indices"""
    if not nodes:
        return bytes(82)
    flg = 1 | (2 if loop else 0)
    e = bytearray([flg, len(nodes), loop[0] if loop else 0, loop[1] if loop else 0, 0, 0])
    for (y, t) in nodes:
        e += struct.pack("<bH", y, t)
    return bytes(e).ljust(82, b"\0")


def _it_instrument(smp, dfp=0x80 | 32, pps=0, ppc=60, rp=0, penv=None, penv_loop=None, nna=0, dct=0, dca=0, fadeout=0,
                   ifc=0, ifr=0):
    h = bytearray(b"IMPI" + b"ins".ljust(12, b"\0") + b"\0" + bytes([nna, dct, dca]))
    h += struct.pack("<HbB", fadeout, pps, ppc)
    h += bytes([128, dfp, 0, rp]) + struct.pack("<HBB", 0x0214, 1, 0)
    h += b"c14 pan".ljust(26, b"\0") + bytes([ifc, ifr, 0, 0]) + struct.pack("<H", 0)
    assert len(h) == 64
    for n in range(120):
        h += bytes([n, smp])
    h += _it_env() + _it_env(penv, penv_loop) + _it_env()
    return bytes(h).ljust(554, b"\0")


def it_pan(variant, rng):
    """IT module (instrument mode, stereo, linear slides) exercising the pan sources named by `variant`:
    any of chan smp ins penv pps rp brello slide sur."""
    v = set(variant.split("+"))
    nchn = 6
    cp = [32] * 64
    if "chan" in v:
        cp[:nchn] = [0, 16, 48, 64, 24, 40]
    if "sur" in v:
        cp[5] = 100
    for i in range(nchn, 64):
        cp[i] = 0xA0
    # samples: looped 8-bit mono waveforms
    waves = []
    for k in range(3):
        n = [32, 48, 64][k]
        if k == 0:
            d = bytes((int(100 * (1 - abs(2 * i / n - 1) * 2)) & 0xFF) for i in range(n))
        else:
            d = bytes(rng.randrange(0, 256) for _ in range(n))
        sdfp = 32
        if "smp" in v:
            sdfp = 0x80 | [0, 64, 20][k]
        waves.append((n, d, sdfp))
    # instruments
    insts = []
    for k in range(4):
        kw = dict(smp=1 + k % 3)
        if "ins" in v:
            kw["dfp"] = [0, 64, 12, 50][k]
        if "pps" in v:
            kw["pps"], kw["ppc"] = [16, -16, 32, -8][k], [60, 48, 72, 60][k]
        if "rp" in v:
            kw["rp"] = [64, 32, 16, 50][k]
        if "penv" in v:
            kw["penv"] = [[(-32, 0), (32, 8), (0, 20), (-20, 30)], [(32, 0), (-32, 5), (32, 10)], [(10, 0), (-10, 40)],
                          [(0, 0), (32, 3), (-32, 9), (0, 12)]][k]
            kw["penv_loop"] = [(0, 3), (0, 2), None, (1, 2)][k]
        insts.append(_it_instrument(**kw))
    # patterns
    pats = []
    for pno in range(2):
        data = bytearray()
        for r in range(64):
            for c in range(nchn):
                ev = {}
                if r % 16 == 0 or rng.random() < 0.12:
                    ev["note"] = rng.choice([36, 48, 55, 60, 64, 72, 84])
                    ev["ins"] = 1 + (c + pno + r // 16) % 4
                fx = None
                if "brello" in v and c in (0, 1, 2) and (r % 8 == 1 or rng.random() < 0.3):
                    fx = (19, 0x50 | rng.randrange(0, 4)) if r % 8 == 1 else (25, rng.choice([0x4F, 0x28, 0x81, 0xFF, 0x00, 0x1C]))
                if "slide" in v and c in (3, 4) and fx is None and rng.random() < 0.5:
                    fx = rng.choice([(16, 0x04), (16, 0x30), (16, 0xF2), (16, 0x2F), (24, rng.choice([0, 0x20, 0x80, 0xFF])),
                                     (19, 0x80 | rng.randrange(0, 16))])
                if "sur" in v and c == 4 and r % 32 == 2:
                    fx = (19, 0x91)
                if fx is not None:
                    ev["fx"] = fx
                if not ev:
                    continue
                mask = (1 if "note" in ev else 0) | (2 if "ins" in ev else 0) | (8 if "fx" in ev else 0)
                data += bytes([(c + 1) | 0x80, mask])
                if "note" in ev:
                    data.append(ev["note"])
                if "ins" in ev:
                    data.append(ev["ins"])
                if "fx" in ev:
                    data += bytes(ev["fx"])
            data.append(0)
        pats.append(struct.pack("<HHI", len(data), 64, 0) + bytes(data))
    orders = bytes([0, 1, 0, 1, 255])
    nins, nsmp, npat = len(insts), len(waves), len(pats)
    hdr = bytearray(b"IMPM" + ("c14 pan " + variant).encode()[:26].ljust(26, b"\0") + b"\x04\x10")
    hdr += struct.pack("<HHHH", len(orders), nins, nsmp, npat)
    hdr += struct.pack("<HHHH", 0x0214, 0x0214, 0x0D, 0)
    hdr += bytes([128, 48, 4, 125, 128, 0]) + struct.pack("<HII", 0, 0, 0)
    hdr += bytes(cp) + bytes([64] * 64)
    assert len(hdr) == 192
    off = 192 + len(orders) + 4 * (nins + nsmp + npat)
    ioff = [off + 554 * i for i in range(nins)]
    off += 554 * nins
    soff = [off + 80 * i for i in range(nsmp)]
    off += 80 * nsmp
    poff = []
    for pb in pats:
        poff.append(off)
        off += len(pb)
    shdr = []
    for (n, d, sdfp) in waves:
        sh = bytearray(b"IMPS" + b"w.raw".ljust(12, b"\0") + b"\0" + bytes([64, 1 | 0x10, 64]))
        sh += b"wave".ljust(26, b"\0") + bytes([1, sdfp])
        sh += struct.pack("<IIII", n, 0, n, 8363 * 2) + struct.pack("<III", 0, 0, off) + bytes(4)
        shdr.append(bytes(sh).ljust(80, b"\0"))
        off += n
    return (bytes(hdr) + orders + b"".join(struct.pack("<I", x) for x in ioff + soff + poff) + b"".join(insts)
            + b"".join(shdr) + b"".join(pats) + b"".join(d for (_, d, _) in waves))


def xm_pan(rng):
    """XM module: pan envelope (looped), sample default pans, 8xx set pan, Pxy pan slide, E8x."""
    nchn, nrows = 4, 64
    rows = bytearray()
    for r in range(nrows):
        for c in range(nchn):
            if r % 16 == 0 or rng.random() < 0.15:
                note, ins = rng.choice([37, 49, 56, 61]), 1 + (c + r // 16) % 2
            else:
                note = ins = 0
            fx = (0, 0)
            if c >= 2 and rng.random() < 0.4:
                fx = rng.choice([(0x08, rng.choice([0, 0x40, 0x80, 0xFF])), (0x19, 0x04), (0x19, 0x30), (0x0E, 0x80 | rng.randrange(16))])
            if note == 0 and fx == (0, 0):
                rows.append(0x80)
            else:
                rows += bytes([note, ins, 0, fx[0], fx[1]])
    pat = struct.pack("<IBHH", 9, 0, nrows, len(rows)) + bytes(rows)
    insts = b""
    for k in range(2):
        n = 64
        raw = [int(90 * (1 - abs(2 * i / n - 1) * 2)) if k == 0 else rng.randrange(-100, 100) for i in range(n)]
        delta, prev = bytearray(), 0
        for x in raw:
            delta.append((x - prev) & 0xFF)
            prev = x
        ih = bytearray(struct.pack("<I", 263) + ("pan%d" % k).encode().ljust(22, b"\0") + bytes([0]) + struct.pack("<H", 1))
        ih += struct.pack("<I", 40) + bytes(96)
        venv = struct.pack("<HH", 0, 64) + bytes(44)
        pts = [(0, 0), (6, 64), (14, 32), (24, 10)] if k == 0 else [(0, 64), (4, 0), (9, 64)]
        penv = b"".join(struct.pack("<HH", t, y) for (t, y) in pts).ljust(48, b"\0")
        ih += venv + penv + bytes([1, len(pts), 0, 0, 0, 0, 0, len(pts) - 1])
        ih += bytes([0, 1 | 4]) + bytes(4) + struct.pack("<H", 0) + bytes(2)
        ih = bytes(ih).ljust(263, b"\0")
        sh = struct.pack("<IIIBbBBbB", n, 0, n, 64, 0, 1, [0x10, 0xE0][k], 0, 0) + b"w".ljust(22, b"\0")
        insts += ih + sh + bytes(delta)
    hdr = b"Extended Module: " + b"c14 pan xm".ljust(20, b"\0") + b"\x1a" + b"c14synth".ljust(20, b"\0") + struct.pack("<H", 0x0104)
    hdr += struct.pack("<IHHHHHHHH", 276, 2, 0, nchn, 1, 2, 1, 4, 125) + bytes([0, 0]).ljust(256, b"\0")
    return hdr + pat + insts


def it_reuse(variant, rng):
    """IT module (instrument mode) in which a voice slot changes owner: channel 1 plays short notes whose previous
    voice is moved to the background by the new-note action and is then freed (sample end, fade to silence, duplicate
    check, cut); channel 2 (and 3) start notes a few rows later and are given the freed slot (the mixer allocates the
    lowest free slot).  `variant`: filter (resonant IT filter IFC/IFR on all instruments), zxx (Zxx cutoff effects),
    fade (NNA fade on a ping-pong looped sample: the background voice is reset when it falls silent, possibly while
    playing backwards), dct (duplicate note check cuts the background voice), cut (NNA cut), combined with +."""
    v = set(variant.split("+"))
    nchn = 3
    cp = [32] * nchn + [0xA0] * (64 - nchn)
    cp[0], cp[1] = 16, 48
    # samples: 1 one-shot, 2 forward loop, 3 ping-pong loop, 4 longer one-shot
    def wave(n, k):
        return bytes((int(110 * ((i * (3 + k)) % 64 - 32) / 32) if i % 2 else rng.randrange(-120, 120)) & 0xFF for i in range(n))
    smps = [(2600, 0, 0, 0), (64, 0, 64, 0x10), (400, 100, 400, 0x10 | 0x40), (5200, 0, 0, 0)]
    sdata = [wave(n, k) for k, (n, _, _, _) in enumerate(smps)]
    flt = dict(ifc=0x80 | 0x34, ifr=0x80 | 0x70) if "filter" in v else {}
    flt2 = dict(ifc=0x80 | 0x50, ifr=0x80 | 0x40) if "filter" in v else {}
    nna = 0 if "cut" in v else 1
    insts = [
        _it_instrument(1, nna=nna, dct=1 if "dct" in v else 0, dca=0, **flt),               # 1: one-shot, continue / cut
        _it_instrument(2, nna=3 if "fade" in v else nna, fadeout=600, **flt2),              # 2: forward loop
        _it_instrument(3, nna=3 if "fade" in v else 1, fadeout=900, **flt),                 # 3: ping-pong loop
        _it_instrument(4, nna=nna, **flt2),                                                # 4: longer one-shot
    ]
    pats = []
    for pno in range(2):
        data = bytearray()
        for r in range(64):
            evs = []
            ph = r % 16
            if ph in (0, 1, 2) or (ph == 9 and "dct" in v):
                note = 60 if "dct" in v else rng.choice([55, 60, 64, 67])
                evs.append((1, note, rng.choice([1, 1, 3, 4]) if ph != 9 else 1, None))
            if ph == 5 and "fade" in v:
                evs.append((1, 255, None, None))                               # note off: the ping-pong voice fades
            if ph in (6 + pno, 12):
                fx = (26, rng.choice([0x20, 0x48, 0x7F, 0x10])) if "zxx" in v else None
                evs.append((2, rng.choice([48, 60, 62]), rng.choice([2, 1, 4]), fx))
            if ph == 8:
                evs.append((3, rng.choice([52, 57]), rng.choice([1, 4, 3]), (26, 0x30) if "zxx" in v else None))
            if ph == 14:
                evs.append((2, 254, None, None))                               # note cut on channel 2
                evs.append((3, 254, None, None))
            if "zxx" in v and ph == 1:
                evs.append((1, None, None, (26, rng.choice([0x18, 0x60]))))
            seen = set()
            for (c, note, ins, fx) in evs:
                if c in seen:
                    continue
                seen.add(c)
                mask = (1 if note is not None else 0) | (2 if ins is not None else 0) | (8 if fx is not None else 0)
                data += bytes([c | 0x80, mask])
                if note is not None:
                    data.append(note)
                if ins is not None:
                    data.append(ins)
                if fx is not None:
                    data += bytes(fx)
            data.append(0)
        pats.append(struct.pack("<HHI", len(data), 64, 0) + bytes(data))
    orders = bytes([0, 1, 0, 1, 255])
    nins, nsmp, npat = len(insts), len(smps), len(pats)
    hdr = bytearray(b"IMPM" + ("c14 reuse " + variant).encode()[:26].ljust(26, b"\0") + b"\x04\x10")
    hdr += struct.pack("<HHHH", len(orders), nins, nsmp, npat)
    hdr += struct.pack("<HHHH", 0x0214, 0x0214, 0x0D, 0)
    hdr += bytes([128, 48, 3, 125, 128, 0]) + struct.pack("<HII", 0, 0, 0)
    hdr += bytes(cp) + bytes([64] * 64)
    off = 192 + len(orders) + 4 * (nins + nsmp + npat)
    ioff = [off + 554 * i for i in range(nins)]
    off += 554 * nins
    soff = [off + 80 * i for i in range(nsmp)]
    off += 80 * nsmp
    poff = []
    for pb in pats:
        poff.append(off)
        off += len(pb)
    shdr = []
    for (n, lb, le, lf), d in zip(smps, sdata):
        sh = bytearray(b"IMPS" + b"w.raw".ljust(12, b"\0") + b"\0" + bytes([64, 1 | lf, 64]))
        sh += b"wave".ljust(26, b"\0") + bytes([1, 32])
        sh += struct.pack("<IIII", n, lb, le, 8363 * 2) + struct.pack("<III", 0, 0, off) + bytes(4)
        shdr.append(bytes(sh).ljust(80, b"\0"))
        off += n
    return (bytes(hdr) + orders + b"".join(struct.pack("<I", x) for x in ioff + soff + poff) + b"".join(insts)
            + b"".join(shdr) + b"".join(pats) + b"".join(sdata))


def okt(rng, split=(1, 0, 1, 0)):
    """Oktalyzer module; `split[i]` != 0 makes hardware channel i a split pair (two mixed channels sharing one
    volume: XMP_CHANNEL_SPLIT, xc->split / xc->pair in the player).  Notes on both halves of every pair."""
    nchn = sum(2 if x else 1 for x in split)

    def chunk(cid, body):
        return cid + struct.pack(">I", len(body)) + body + (b"\0" if len(body) & 1 else b"")
    smp = []
    for k, (n, lps, ll, vol, mode) in enumerate([(64, 0, 32, 64, 1), (400, 0, 0, 48, 0), (96, 16, 40, 30, 2), (1200, 0, 0, 64, 1)]):
        lim = 63 if mode in (0, 2) else 127
        data = bytes((rng.randrange(-lim, lim + 1) if i % 3 else int(lim * ((i % 32) - 16) / 16)) & 0xFF for i in range(n))
        smp.append((n, lps, ll, vol, mode, data))
    samp = b""
    for i in range(36):
        if i < len(smp):
            n, lps, ll, vol, mode, _ = smp[i]
            samp += ("okt%d" % i).encode().ljust(20, b"\0") + struct.pack(">IHHHH", n, lps, ll, vol, mode)
        else:
            samp += bytes(32)
    npat = 2
    pbods = []
    for pno in range(npat):
        rows = 32
        body = bytearray(struct.pack(">H", rows))
        for r in range(rows):
            for c in range(nchn):
                if r % 8 == (c * 3 + pno) % 8 or rng.random() < 0.12:
                    note, ins = rng.randrange(1, 30), rng.randrange(0, len(smp))
                else:
                    note = ins = 0
                fxt, fxp = rng.choice([(0, 0), (0, 0), (31, rng.choice([64, 40, 20, 5, 0, 0x45, 0x55])), (1, 2), (2, 3), (10, 0x37)])
                body += bytes([note, ins, fxt, fxp])
        pbods.append(bytes(body))
    out = b"OKTASONG" + chunk(b"CMOD", b"".join(struct.pack(">H", 1 if x else 0) for x in split)) + chunk(b"SAMP", samp)
    out += chunk(b"SPEE", struct.pack(">H", 4)) + chunk(b"SLEN", struct.pack(">H", npat)) + chunk(b"PLEN", struct.pack(">H", 4))
    out += chunk(b"PATT", bytes([0, 1, 1, 0]).ljust(128, b"\0"))
    for pb in pbods:
        out += chunk(b"PBOD", pb)
    for (_, _, _, _, _, d) in smp:
        out += chunk(b"SBOD", d)
    return out


def it_nna(variant, rng):
    """IT module (instrument mode) with `nchn` pattern channels of which only two or three are busy: every new note
    moves the previous voice of its channel to a background (NNA) virtual channel where it keeps ringing (looped
    samples, NNA continue / note fade with a slow fade-out), so several background voices are alive at once while the
    other pattern channels idle.  With a small XMP_PLAYER_VOICES the background voices outnumber
    maxvoc - num_tracks although the voice table never fills up."""
    nchn, busy, fade = {"a": (4, 2, 60), "b": (6, 3, 45), "c": (8, 2, 80), "d": (5, 3, 0)}[variant]
    cp = [16, 48, 24, 40, 32, 32, 8, 56][:nchn] + [0xA0] * (64 - nchn)
    smps = [(64, 0, 64, 0x10), (48, 0, 48, 0x10), (160, 32, 160, 0x10)]
    sdata = [bytes((int(100 * ((i * (5 + k)) % n - n / 2) / (n / 2))) & 0xFF for i in range(n)) for k, (n, _, _, _) in enumerate(smps)]
    insts = [_it_instrument(1 + k % 3, nna=(3 if fade else 1), fadeout=fade + 6 * k, dfp=[0, 64, 20, 50][k % 4]) for k in range(4)]
    pats = []
    for pno in range(2):
        data = bytearray()
        for r in range(64):
            for c in range(nchn):
                ev = None
                if c < busy and (r + c) % (3 + c) == 0:
                    ev = (rng.choice([48, 55, 60, 64, 67, 72]), 1 + (r // 4 + c) % 4)
                elif c >= busy and r == 0 and pno == 0:
                    ev = (60, 1)          # the idle channels exist: one note at the very start, cut on the next row
                elif c >= busy and r == 1 and pno == 0:
                    ev = (254, None)
                if ev is None:
                    continue
                note, ins = ev
                data += bytes([(c + 1) | 0x80, 1 | (2 if ins is not None else 0), note])
                if ins is not None:
                    data.append(ins)
            data.append(0)
        pats.append(struct.pack("<HHI", len(data), 64, 0) + bytes(data))
    orders = bytes([0, 1, 1, 0, 255])
    nins, nsmp, npat = len(insts), len(smps), len(pats)
    hdr = bytearray(b"IMPM" + ("c14 nna " + variant).encode()[:26].ljust(26, b"\0") + b"\x04\x10")
    hdr += struct.pack("<HHHH", len(orders), nins, nsmp, npat)
    hdr += struct.pack("<HHHH", 0x0214, 0x0214, 0x0D, 0)
    hdr += bytes([128, 32, 4, 125, 128, 0]) + struct.pack("<HII", 0, 0, 0)
    hdr += bytes(cp) + bytes([64] * 64)
    off = 192 + len(orders) + 4 * (nins + nsmp + npat)
    ioff = [off + 554 * i for i in range(nins)]
    off += 554 * nins
    soff = [off + 80 * i for i in range(nsmp)]
    off += 80 * nsmp
    poff = []
    for pb in pats:
        poff.append(off)
        off += len(pb)
    shdr = []
    for (n, lb, le, lf), d in zip(smps, sdata):
        sh = bytearray(b"IMPS" + b"w.raw".ljust(12, b"\0") + b"\0" + bytes([64, 1 | lf, 40]))
        sh += b"wave".ljust(26, b"\0") + bytes([1, 32])
        sh += struct.pack("<IIII", n, lb, le, 8363 * 2) + struct.pack("<III", 0, 0, off) + bytes(4)
        shdr.append(bytes(sh).ljust(80, b"\0"))
        off += n
    return (bytes(hdr) + orders + b"".join(struct.pack("<I", x) for x in ioff + soff + poff) + b"".join(insts)
            + b"".join(shdr) + b"".join(pats) + b"".join(sdata))


MACRO_VARS = "cnvuxyzohmpab"


def it_macro(var, rng):
    """IT module (sample mode) with an embedded MIDI configuration (header flag 0x80, special 0x08) whose
    parametered macros are filter commands built from the macro variable `var`:
      SF0 = F0F000<var> (cutoff), SF1 = F0F001<var> (resonance), SF2 = F0F000<var>F0F00140,
    and whose fixed macros Z80..Z8F set cutoff / resonance constants.  Three sounding channels off centre (left,
    right, slightly left); Zxx is executed on the note row and again on later rows (the pan of the previous ticks
    is then known to the macro), S8x / Xxx move the pan in between, SFx selects the active macro."""
    nchn = 3
    chpan = [6, 56, 24] + [32 | 0x80] * 61
    pdata = bytearray()
    for r in range(64):
        for c in range(nchn):
            ev = None
            ph = (r + 3 * c) % 16
            if ph == 0:
                ev = (48 + 5 * c + (r // 16) * 2, 1 + (c + r // 16) % 2, (26, rng.choice([0x00, 0x20, 0x7F, 0x40])))
            elif ph in (2, 5, 9, 12):
                ev = (None, None, (26, rng.choice([0x00, 0x10, 0x30, 0x7F, 0x55])))        # Zxx some ticks after the pan was set
            elif ph == 4:
                ev = (None, None, rng.choice([(19, 0x80 | rng.randrange(16)), (24, rng.randrange(256))]))   # S8x / Xxx: move the pan
            elif ph == 7:
                ev = (None, None, (19, 0xF0 | rng.randrange(3)))                                   # SFx: select the macro
            elif ph == 14 and rng.random() < 0.5:
                ev = (None, None, (26, 0x80 | rng.randrange(16)))                                  # fixed macro
            if ev is None:
                continue
            note, ins, fx = ev
            mask = (1 if note is not None else 0) | (2 if ins is not None else 0) | 8
            pdata += bytes([(c + 1) | 0x80, mask])
            if note is not None:
                pdata.append(note)
            if ins is not None:
                pdata.append(ins)
            pdata += bytes(fx)
        pdata.append(0)
    pattern = struct.pack("<HHI", len(pdata), 64, 0) + bytes(pdata)
    orders = bytes([0, 0, 255])
    nsmp = 2
    midi = bytearray((9 + 16 + 128) * 32)
    v = var.encode()
    for k, mac in enumerate([b"F0F000" + v, b"F0F001" + v, b"F0F000" + v + b"F0F00140"]):
        midi[(9 + k) * 32:(9 + k) * 32 + len(mac)] = mac
    for k in range(16):
        mac = (b"F0F000%02X" % (0x20 + 6 * k)) if k % 2 == 0 else (b"F0F001%02X" % (8 * k))
        midi[(9 + 16 + k) * 32:(9 + 16 + k) * 32 + len(mac)] = mac
    hdr = bytearray(b"IMPM" + ("c14 macro " + var).encode().ljust(26, b"\0") + bytes([4, 16]))
    hdr += struct.pack("<HHHH", len(orders), 0, nsmp, 1)
    hdr += struct.pack("<HHHH", 0x0214, 0x0214, 0x01 | 0x08 | 0x80, 0x08)
    hdr += bytes([128, 48, 4, 125, 128, 0]) + struct.pack("<HII", 0, 0, 0)
    hdr += bytes(chpan) + bytes([64] * 64)
    off = 192 + len(orders) + 4 * (nsmp + 1) + len(midi)
    soff = [off, off + 80]
    off += 160
    poff = off
    off += len(pattern)
    shdr, sdata = [], []
    for k in range(nsmp):
        n = [128, 96][k]
        d = bytes(((90 if (i % 32) < 11 else -90) + (i * (37 + 4 * k) % 23) - 11) & 0xFF for i in range(n))
        sh = bytearray(b"IMPS" + b"bright.raw".ljust(12, b"\0") + b"\0" + bytes([64, 1 | 0x10, 64]))
        sh += b"bright".ljust(26, b"\0") + bytes([1, 0])
        sh += struct.pack("<IIII", n, 0, n, 8363) + struct.pack("<III", 0, 0, off) + bytes(4)
        shdr.append(bytes(sh).ljust(80, b"\0"))
        sdata.append(d)
        off += n
    return (bytes(hdr) + orders + struct.pack("<III", soff[0], soff[1], poff) + bytes(midi) + b"".join(shdr) + pattern
            + b"".join(sdata))


def macro_modules(outdir, seed):
    """one IT module with embedded MIDI macros per macro variable (filter cutoff / resonance taken from it)"""
    files = []
    for k, var in enumerate(MACRO_VARS):
        rng = random.Random(seed * 22801763 + k * 982451653)
        files.append(("c14macro_%d_%s.it" % (seed, var), it_macro(var, rng)))
    return _write_set(outdir, files)


def _write_set(outdir, files):
    os.makedirs(outdir, exist_ok=True)
    paths = []
    for name, data in files:
        p = os.path.join(outdir, name)
        try:
            same = open(p, "rb").read() == data
        except OSError:
            same = False
        if not same:
            open(p, "wb").write(data)
        paths.append(p)
    return paths


def okt_modules(outdir, seed):
    """Oktalyzer modules with 0..4 split channel pairs (4..8 mixed channels)"""
    files = []
    for k, split in enumerate([(1, 0, 1, 0), (1, 1, 1, 1), (0, 1, 0, 0), (0, 0, 0, 0)]):
        rng = random.Random(seed * 86028121 + k * 15487469)
        files.append(("c14okt_%d_%s.okt" % (seed, "".join(str(x) for x in split)), okt(rng, split)))
    return _write_set(outdir, files)


def nna_modules(outdir, seed):
    """IT modules with many simultaneous background (NNA) voices on few busy channels"""
    files = []
    for k, v in enumerate("abcd"):
        rng = random.Random(seed * 32452867 + k * 49979693)
        files.append(("c14nna_%d_%s.it" % (seed, v), it_nna(v, rng)))
    return _write_set(outdir, files)


REUSE_VARIANTS = ["filter", "filter+zxx", "filter+fade", "filter+dct", "filter+cut", "zxx", "fade", "filter+zxx+fade+dct"]


def reuse_modules(outdir, seed):
    """IT modules in which voice slots change owner channel (deterministic in the seed)."""
    os.makedirs(outdir, exist_ok=True)
    paths = []
    for k, v in enumerate(REUSE_VARIANTS):
        rng = random.Random(seed * 49979687 + k * 67867967)
        p = os.path.join(outdir, "c14reuse_%d_%s.it" % (seed, v.replace("+", "-")))
        data = it_reuse(v, rng)
        try:
            same = open(p, "rb").read() == data
        except OSError:
            same = False
        if not same:
            open(p, "wb").write(data)
        paths.append(p)
    return paths


PAN_VARIANTS = ["chan", "smp", "ins", "penv", "pps", "rp", "brello", "slide", "chan+brello", "ins+penv+rp",
                "chan+smp+ins+penv+pps+rp+brello+slide", "chan+brello+slide+sur"]


def pan_modules(outdir, seed):
    """IT/XM modules exercising every pan source of process_pan(), isolated and combined (deterministic in the seed)."""
    os.makedirs(outdir, exist_ok=True)
    paths = []
    files = [("c14pan_%d_%s.it" % (seed, v.replace("+", "-") if len(v) < 30 else "all"), lambda r, v=v: it_pan(v, r)) for v in PAN_VARIANTS]
    files.append(("c14pan_%d_xm.xm" % seed, xm_pan))
    for k, (name, fn) in enumerate(files):
        rng = random.Random(seed * 15485863 + k * 32452843)
        p = os.path.join(outdir, name)
        data = fn(rng)
        try:
            same = open(p, "rb").read() == data
        except OSError:
            same = False
        if not same:
            open(p, "wb").write(data)
        paths.append(p)
    return paths


def generate(outdir, seed, count=3):
    """Write `count` S3M and `count` MOD files; returns their paths."""
    os.makedirs(outdir, exist_ok=True)
    paths = []
    for k in range(count):
        for ext, fn in (("s3m", s3m), ("mod", mod)):
            rng = random.Random(seed * 7919 + k * 104729 + (1 if ext == "mod" else 0))
            p = os.path.join(outdir, "c14synth_%d_%d.%s" % (seed, k, ext))
            data = fn(rng)
            try:
                same = open(p, "rb").read() == data
            except OSError:
                same = False
            if not same:
                open(p, "wb").write(data)
            paths.append(p)
    return paths


if __name__ == "__main__":
    import sys
    print("\n".join(generate(sys.argv[1] if len(sys.argv) > 1 else "/tmp/c14synth", 1)))
