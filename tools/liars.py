#!/usr/bin/env python3
"""Archives that *declare* far more than they contain, written from the format
descriptions with independent code: LZX (single and merged groups with valid
header CRCs), zip (local + central headers), ARC, LHA level-0 headers, MMCMP.
Used by the C02 search: whatever sizes a header declares, the library may
allocate at most its fixed ceiling and work in proportion to the bytes present."""
import os
import struct
import zlib

BIG = [0x0ff00000, 0x1ff00000, 0x20000000, 0x20000001, 0x3fffffff, 0x7fffffff, 0x80000000, 0xfffffff0, 0xffffffff]


def lzx_entry(name, usize, csize, method=2, flags=0, ver=0x0a, crc=0, comment=b""):
    h = bytearray(31)
    h[0] = 0
    struct.pack_into("<I", h, 2, usize & 0xffffffff)
    struct.pack_into("<I", h, 6, csize & 0xffffffff)
    h[10] = 0
    h[11] = method
    h[12] = flags
    h[14] = len(comment)
    h[15] = ver
    struct.pack_into("<I", h, 22, crc)
    h[30] = len(name)
    c = zlib.crc32(bytes(h))
    c = zlib.crc32(name, c)
    c = zlib.crc32(comment, c)
    struct.pack_into("<I", h, 26, c & 0xffffffff)
    return bytes(h) + name + comment


def make_lzx(rng):
    out = bytearray(b"LZX" + bytes([0, 0x0c, 0, 0x0a, 4, 0, 0]))
    kind = rng.randrange(3)
    payload = bytes(rng.randrange(256) for _ in range(rng.choice([8, 40, 200])))
    if kind == 0:          # merged group, each entry under the ceiling, the sum far above it
        k = rng.randint(2, 7)
        for i in range(k):
            last = i == k - 1
            out += lzx_entry(b"m%d.mod" % i, rng.choice(BIG[:3]), len(payload) if last else 0, 2, 1)
        out += payload
    elif kind == 1:        # single entry declaring a huge size
        out += lzx_entry(b"big.mod", rng.choice(BIG), len(payload), rng.choice([0, 2]), 0) + payload
    else:                  # merged group with wrap-around sum
        for i in range(3):
            out += lzx_entry(b"w%d.mod" % i, rng.choice([0xfffffff0, 0x80000000, 0x7fffffff]), len(payload) if i == 2 else 0, 2, 1)
        out += payload
    return bytes(out), "lzx"


def make_zip(rng):
    name = b"song.mod"
    co = zlib.compressobj(9, zlib.DEFLATED, -15)
    data = co.compress(bytes(rng.choice([100, 2000]))) + co.flush()
    usize = rng.choice(BIG)
    method = rng.choice([8, 8, 0])
    if method == 0:
        data = bytes(64)
    csize = len(data) if rng.random() < 0.7 else rng.choice(BIG)
    crc = zlib.crc32(bytes(100)) & 0xffffffff
    lh = struct.pack("<IHHHHHIIIHH", 0x04034b50, 20, 0, method, 0, 0, crc, csize & 0xffffffff, usize & 0xffffffff, len(name), 0) + name
    cd = struct.pack("<IHHHHHHIIIHHHHHII", 0x02014b50, 20, 20, 0, method, 0, 0, crc, csize & 0xffffffff, usize & 0xffffffff,
                     len(name), 0, 0, 0, 0, 0, 0) + name
    eocd = struct.pack("<IHHHHIIH", 0x06054b50, 0, 0, 1, 1, len(cd), len(lh) + len(data), 0)
    return lh + data + cd + eocd, "zip"


def make_arc(rng):
    method = rng.choice([3, 4, 5, 6, 7, 8, 9, 0x7f])
    data = bytes(rng.randrange(256) for _ in range(rng.choice([4, 60, 300])))
    if method in (8, 9):
        data = bytes([12]) + data
    name = b"song.mod\0\0\0\0\0"
    hdr = bytes([0x1a, method]) + name + struct.pack("<IHHHI", len(data), 0, 0, rng.randrange(65536), rng.choice(BIG) & 0xffffffff)
    return hdr + data + bytes([0x1a, 0]), "arc"


def make_lha(rng):
    name = b"song.mod"
    method = rng.choice([b"-lh1-", b"-lh5-", b"-lh6-", b"-lh7-", b"-lzs-", b"-lh0-"])
    data = bytes(rng.randrange(256) for _ in range(rng.choice([4, 60, 300])))
    body = method + struct.pack("<IIIBB", len(data), rng.choice(BIG) & 0xffffffff, 0, 0x20, 0) + bytes([len(name)]) + name + struct.pack("<H", rng.randrange(65536))
    hdr = bytes([len(body), sum(body) & 0xff]) + body
    return hdr + data + b"\0", "lha"


def make_mmcmp(rng):
    # "ziRCONia" header: file header + one block table entry declaring a huge unpacked size
    hdr = b"ziRCONia" + struct.pack("<H", 14) + struct.pack("<HHIII", 0x1300, rng.choice([1, 2, 1000, 0xffff]), rng.choice(BIG) & 0xffffffff, 0x18 + 4, 0)[:14]
    blk = struct.pack("<IIIHHHH", rng.choice(BIG) & 0xffffffff, 16, 0, 1, 0, 0, 0) + struct.pack("<II", 0, rng.choice(BIG) & 0xffffffff)
    tbl = struct.pack("<I", len(hdr) + 4)
    return hdr + tbl + blk + bytes(64), "mmcmp"


GENS = [make_lzx, make_lzx, make_lzx, make_zip, make_zip, make_arc, make_lha, make_mmcmp]


def write_set(rng, dirname, count):
    os.makedirs(dirname, exist_ok=True)
    paths = []
    for i in range(count):
        try:
            data, ext = GENS[i % len(GENS)](rng)
        except Exception:
            continue
        p = os.path.join(dirname, "liar%03d.%s" % (i, ext))
        with open(p, "wb") as f:
            f.write(data)
        paths.append(p)
    return paths


if __name__ == "__main__":
    import random
    import sys
    print(len(write_set(random.Random(1), sys.argv[1], 40)))
