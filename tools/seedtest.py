#!/usr/bin/env python3
"""Confirm a seeded defect produced by a blind sub-agent and run our checks on it.

  tools/seedtest.py <worktree> <mdir> <name> <prop> [check ids…] [--tier quick] [--seeds 1]

 1. worktree is moved to /repo's HEAD, must be clean
 2. unchanged tree: build (cmake, with unit tests), demo must exit 0
 3. patched tree: build, ctest must pass, demo must exit != 0
 4. our checks (default: <prop>) run against the patched worktree via XMP_REPO
 5. worktree restored; record kept under /verif/seeded/<name>/ (patch.diff, demo*, README.md, meta.json)
"""
import argparse
import glob
import json
import os
import re
import shutil
import subprocess
import sys
import time

VERIF = os.path.dirname(os.path.dirname(os.path.abspath(__file__)))


def sh(cmd, cwd=None, env=None, timeout=3600):
    e = dict(os.environ)
    if env:
        e.update(env)
    p = subprocess.run(cmd, shell=True, cwd=cwd, stdout=subprocess.PIPE, stderr=subprocess.STDOUT, env=e, timeout=timeout)
    return p.returncode, p.stdout.decode("utf-8", "replace")


def build(wt):
    rc, out = sh("cmake -G Ninja -S . -B _build -DWITH_UNIT_TESTS=ON -DCMAKE_BUILD_TYPE=RelWithDebInfo >/dev/null && cmake --build _build -j16 2>&1 | tail -3", cwd=wt)
    return rc, out


def demo(wt, mdir):
    if os.path.exists(os.path.join(mdir, "demo.sh")):
        return sh("sh %s/demo.sh" % mdir, cwd=wt, timeout=600)
    srcs = " ".join(glob.glob(os.path.join(mdir, "demo*.c")))
    wraps = sorted(set(re.findall(r"__wrap_(\w+)", " ".join(open(f, errors="replace").read() for f in srcs.split()))))
    wl = (" -Wl," + ",".join("--wrap=" + w for w in wraps)) if wraps else ""
    cmd = "cc -g -I include -I src -I src/loaders %s _build/libxmp.a -lm -lpthread%s -o _build/seed_demo"
    rc, out = sh(cmd % (srcs, ""), cwd=wt)
    if rc != 0 and "__real_" in out and wl:
        rc, out = sh(cmd % (srcs, wl), cwd=wt)
    if rc != 0:
        return 99, "demo does not compile:\n" + out
    return sh("./_build/seed_demo", cwd=wt, timeout=600)


def main():
    ap = argparse.ArgumentParser()
    ap.add_argument("worktree")
    ap.add_argument("mdir")
    ap.add_argument("name")
    ap.add_argument("prop")
    ap.add_argument("checks", nargs="*")
    ap.add_argument("--tier", default="quick")
    ap.add_argument("--seeds", default="1")
    ap.add_argument("--skip-confirm", action="store_true")
    a = ap.parse_args()
    wt, mdir = a.worktree, os.path.abspath(a.mdir)
    checks = a.checks or [a.prop]
    meta = {"name": a.name, "property": a.prop, "source": "blind sub-agent given only the property text and a scratch worktree",
            "ran": [], "confirmed": {}}
    head = subprocess.check_output("git -C /repo rev-parse HEAD", shell=True).decode().strip()
    sh("git checkout -q -- . && git checkout -q --detach %s" % head, cwd=wt)
    meta["repo_head"] = head
    patch = os.path.join(mdir, "patch.diff")
    if not a.skip_confirm:
        rc, out = build(wt)
        rc0, out0 = demo(wt, mdir)
        meta["confirmed"]["demo_unpatched_exit"] = rc0
        print("[seed] unpatched demo exit=%d %s" % (rc0, out0.strip()[-200:]))
    rc, out = sh("git apply --check %s && git apply %s" % (patch, patch), cwd=wt)
    if rc != 0:
        rc, out = sh("patch -p1 --no-backup-if-mismatch < %s" % patch, cwd=wt)
    if rc != 0:
        print("[seed] patch does not apply to /repo HEAD:\n" + out)
        sh("git checkout -q -- .", cwd=wt)
        return 3
    try:
        if not a.skip_confirm:
            rc, out = build(wt)
            if rc != 0:
                print("[seed] patched tree does not build:\n" + out)
                return 3
            rct, outt = sh("ctest --test-dir _build -j8 --timeout 900 2>&1 | tail -4", cwd=wt)
            passed = "100% tests passed" in outt
            meta["confirmed"]["ctest_passes_with_patch"] = passed
            print("[seed] ctest with patch: %s" % ("pass" if passed else outt))
            rc1, out1 = demo(wt, mdir)
            meta["confirmed"]["demo_patched_exit"] = rc1
            print("[seed] patched demo exit=%d %s" % (rc1, out1.strip()[-300:]))
            meta["confirmed"]["ok"] = bool(passed and rc1 != 0 and meta["confirmed"].get("demo_unpatched_exit") == 0)
        sh("rm -rf _build", cwd=wt)
        env = {"XMP_REPO": wt, "XMP_VERIF_CACHE": "/var/tmp/xmpverif-seed-" + a.name,
               "XMP_VERIF_EVID": "/var/tmp/xmpverif-seed-" + a.name + "/evidence"}
        for c in checks:
            for seed in a.seeds.split(","):
                t0 = time.time()
                env["VERIF_SEED"] = seed
                rc, out = sh("python3 tools/check.py %s --tier %s" % (c, a.tier), cwd=VERIF, env=env, timeout=7200)
                viol = [l for l in out.splitlines() if l.startswith("VIOLATION") or l.startswith("KNOWN-FINDING") or l.startswith("ERROR")]
                what = [l for l in out.splitlines() if l.startswith("  what:") or l.startswith("UNPROVED")]
                print("[seed] check %s seed=%s exit=%d %.0fs %s" % (c, seed, rc, time.time() - t0, viol[:3]))
                for w in what[:4]:
                    print("        " + w[:300])
                meta["ran"].append({"check": c, "tier": a.tier, "seed": int(seed), "exit": rc, "lines": viol[:5], "what": [w[:300] for w in what[:5]],
                                    "wall_s": round(time.time() - t0, 1)})
    finally:
        sh("git checkout -q -- . && rm -rf _build", cwd=wt)
        # the checks rewrote the generated Lean/header files from the scratch tree: restore them from /repo
        sh("python3 tools/gen_all.py", cwd=VERIF, timeout=1800)
        shutil.rmtree("/var/tmp/xmpverif-seed-" + a.name, ignore_errors=True)
    meta["caught_by"] = sorted({r["check"] for r in meta["ran"] if r["exit"] == 1})
    dst = os.path.join(VERIF, "seeded", a.name)
    os.makedirs(dst, exist_ok=True)
    for f in os.listdir(mdir):
        if os.path.isfile(os.path.join(mdir, f)) and os.path.getsize(os.path.join(mdir, f)) < 2000000:
            shutil.copy(os.path.join(mdir, f), dst)
    old = {}
    mp = os.path.join(dst, "meta.json")
    if os.path.exists(mp):
        old = json.load(open(mp))
        meta["ran"] = old.get("ran", []) + meta["ran"]
        if a.skip_confirm:
            meta["confirmed"] = old.get("confirmed", {})
        meta["caught_by"] = sorted({r["check"] for r in meta["ran"] if r["exit"] == 1})
    json.dump(meta, open(mp, "w"), indent=1)
    print("[seed] %s caught_by=%s" % (a.name, meta["caught_by"]))
    return 0


if __name__ == "__main__":
    sys.exit(main())
