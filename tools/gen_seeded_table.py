#!/usr/bin/env python3
"""Prints the markdown table of seeded defects (seeded/*/meta.json + seeded/needs.json)."""
import json, os, sys
V = os.path.dirname(os.path.dirname(os.path.abspath(__file__)))
needs = json.load(open(os.path.join(V, "seeded", "needs.json")))
rows = []
for d in sorted(os.listdir(os.path.join(V, "seeded"))):
    mp = os.path.join(V, "seeded", d, "meta.json")
    if not os.path.exists(mp):
        continue
    m = json.load(open(mp))
    conf = m.get("confirmed", {})
    ok = "yes" if conf.get("ok") else ("no (%s)" % ", ".join("%s=%s" % kv for kv in conf.items()) if conf else "?")
    ran = sorted({r["check"] for r in m.get("ran", [])})
    rows.append("| %s | %s | %s | %s | %s |" % (d, needs.get(d, ""), ok, ", ".join(m.get("caught_by", [])) or "**none**", ", ".join(ran)))
print("| id | change and what it needs to manifest | confirmed (suite passes, demo fails with / passes without) | caught by | checks run |")
print("|---|---|---|---|---|")
print("\n".join(rows))
