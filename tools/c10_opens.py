"""C10 direct oracle (python side): generates hostile song-only modules, runs
harness/c10_opens.c (link-time interposition of every path / process call)
and judges the log against the property; also compares the observed companion
names, sample opens and helper argv with the Lean model (drv_c10).
"""
import os
import shutil
import struct
import vlib

WRAPS = ["fopen", "fopen64", "freopen", "open", "open64", "openat", "opendir", "stat", "lstat", "access", "unlink",
         "remove", "rmdir", "mkdir", "chdir", "creat", "mkdtemp", "mktemp", "rename", "mkstemp", "mkstemp64", "tmpfile",
         "fork", "vfork", "execvp", "execv", "execve", "execvpe", "execl", "execlp", "execle", "posix_spawn",
         "posix_spawnp", "popen", "system"]
EXTRA = ["-Wl,--wrap=" + w for w in WRAPS]

CORPUS = os.path.join(vlib.REPO, "test-dev", "data")

# names an attacker would put into a sample slot (bytes); the lookups below are
# arranged so that a naive join would really find something for most of them
HOSTILE = [b"../x", b"..", b".", b"/etc/passwd", b"C:\\x", b"a:b", b"sub/kick", b"sub\\kick", b"sub:kick", b"ST-01:kick",
           b"./kick", b"kick/.", b"kick/", b"/kick", b"\\kick", b":kick", b"..\\x", b"..:x", b"x/../kick", b"\x80\x80/x",
           b"\xae\xae", b"k\x00/../x", b"kick\x7f", b"ki\x01ck", b"$(id)", b"a b", b"x;y", b"-dash", b"*", b"~",
           b"//etc//passwd", b"c10canary", b"../c10canary", b"C:c10canary", b"nul", b"con", b"aux:", b"dh0:x"]
BENIGN = [b"kick", b"KICK", b"Kick", b"snare.smp", b"SNARE.SMP", b"bass 1", b"Bass 1", b"lead", b"x", b"nosuchsample"]

SHELLY = ["plain", "m o d", "a;b", "$(touch PWNED)", "`touch PWNED`", "q'uote", 'd"quote', "amp&pipe|gt>", "-rf", "star*?",
          "new\nline", "tab\there", "\xc3\xa9t\xc3\xa9"]


# ---------------------------------------------------------------- file writers

def mod_song(names, magic=b"M.K."):
    """Protracker *song* file: header + 1 pattern, no sample data (0x43c + 0x400 bytes)"""
    out = bytearray(b"c10 song".ljust(20, b"\0"))
    for i in range(31):
        nm = names[i] if i < len(names) else b""
        out += nm[:22].ljust(22, b"\0")
        size = 16 if i < len(names) else 0
        out += struct.pack(">HBBHH", size, 0, 64 if size else 0, 0, 1)
    out += bytes([1, 0x7f]) + bytes(128) + magic
    out += bytes(1024)
    return bytes(out)


def stm_song(names, typ=1):
    out = bytearray(b"c10 stm song".ljust(20, b"\0") + b"!Scream!" + bytes([0x1a, typ, 2, 21]))
    out += bytes([0x60, 1, 64]) + bytes(13)
    for i in range(31):
        nm = names[i] if i < len(names) else b""
        has = i < len(names)
        out += nm[:12].ljust(12, b"\0") + bytes([0, 0]) + struct.pack("<HHHHBBHIH", 0, 32 if has else 0, 0, 0xffff,
                                                                      64 if has else 0, 0, 8363, 0, 2)
    out += bytes([0]) + bytes([99]) * 127
    out += bytes([251]) * 256
    return bytes(out)


def _tpl(name):
    return open(os.path.join(CORPUS, "m", name), "rb").read()


def med2_song(name):
    t = bytearray(_tpl("med2test.med"))
    t[44:84] = name[:39].ljust(40, b"\0")
    return bytes(t)


def med3_song(name):
    t = _tpl("med3song.med")
    # MED\3, 32 NUL-terminated names (slot 1 is used by the template), rest
    old_end = 4 + 1 + len(b"med2test_PanFlute") + 1
    nm = name.split(b"\0")[0][:39]
    return t[:5] + nm + b"\0" + t[old_end:]


def med4_song(names):
    t = _tpl("med4song.med")
    # MED\4, mask bytes, then per instrument: flags 0x6f, length byte, name   (template has 3)
    pos, out = 6, bytearray(t[:6])
    for i in range(3):
        flags, ln = t[pos], t[pos + 1]
        nm = names[i][:39] if i < len(names) else t[pos + 2:pos + 2 + ln]
        out += bytes([flags, len(nm)]) + nm
        pos += 2 + ln
    return bytes(out) + t[pos:]


def flt_module():
    return mod_song([], magic=b"FLT4")


# ---------------------------------------------------------------- plan

def hx(b):
    if b is None:
        return "none"
    return b.hex() if b else "-"


def copy_adjust(raw, n):
    """python rendition of libxmp_copy_adjust (what the loaders store as instrument name)"""
    s = raw[:n].split(b"\0")[0]
    s = bytes(c if 32 <= c < 127 else 0x2e for c in s)
    return s.rstrip(b" ")


class Op:
    def __init__(self, oid, fmt, entry, modpath, ctxins=None, envins=None, helper="fail", names=(), name_len=0, note=""):
        self.id, self.fmt, self.entry, self.modpath = oid, fmt, entry, modpath
        self.ctxins, self.envins, self.helper, self.names, self.name_len, self.note = ctxins, envins, helper, list(names), name_len, note

    pair = None         # (pair id, start order, 'A'|'B', the other Op) for the two-thread scenario

    hist = None         # (history id, index, number of steps, follow-up action, context instrument path) for the history scenario

    def line(self):
        if self.hist:
            hid, idx, n, after, ins = self.hist
            l = "step %s %s %s %s %s" % (self.id, self.entry, hx(self.modpath), self.helper, after)
            if idx == 0:
                l = "hist %s %s\n" % (hid, hx(ins)) + l
            if idx == n - 1:
                l += "\nendhist"
            return l
        if self.pair:
            pid, order, who, other = self.pair
            if who != "A":
                return None
            return "pair %s %d %s %s %s %s" % (pid, order, hx(self.modpath), hx(self.ctxins), hx(other.modpath), hx(other.ctxins))
        return "op %s %s %s %s %s %s" % (self.id, self.entry, hx(self.modpath), hx(self.ctxins), hx(self.envins), self.helper)

    def describe(self):
        return {"id": self.id, "format": self.fmt, "entry": self.entry, "module_path": self.modpath, "ctx_instrument_path": self.ctxins,
                "env_instrument_path": self.envins, "helper": self.helper, "sample_names": self.names, "note": self.note,
                "history": None if not self.hist else {"history": self.hist[0], "step": self.hist[1], "of": self.hist[2],
                                                       "then": self.hist[3]},
                "concurrent_with": None if not self.pair else {"pair": self.pair[0], "start_order": self.pair[1], "this_thread": self.pair[2],
                                                               "other_module": self.pair[3].modpath,
                                                               "other_instrument_path": self.pair[3].ctxins}}


def populate_sample_dir(d):
    """a directory holding samples, plus traps that only a broken lookup can reach"""
    os.makedirs(os.path.join(d, b"sub"), exist_ok=True)
    for nm in (b"kick", b"snare.smp", b"Bass 1", b"lead", b"x", b"a:b", b"$(id)", b"sub/kick", b"ST-01:kick", b"C:c10canary"):
        with open(os.path.join(d, nm), "wb") as f:
            f.write(bytes(64))
    os.makedirs(os.path.join(d, b"ST-01"), exist_ok=True)
    open(os.path.join(d, b"ST-01", b"kick"), "wb").write(bytes(64))


def deep_path(total, base):
    """relative path of exactly `total` bytes ending in `base` (components of <= 250 bytes)"""
    need = total - len(base)
    comps = []
    while need > 0:
        n = min(250, need - 1)
        if need - (n + 1) == 1:
            n -= 1
        comps.append(b"p" * n)
        need -= n + 1
    return b"/".join(comps) + b"/" + base


def write_deep(root, rel, data):
    """create rel (longer than PATH_MAX when joined with root) below root, descending by directory fd"""
    parts = rel.split(b"/")
    fd = os.open(root, os.O_RDONLY)
    try:
        for c in parts[:-1]:
            try:
                os.mkdir(c, dir_fd=fd)
            except FileExistsError:
                pass
            nfd = os.open(c, os.O_RDONLY, dir_fd=fd)
            os.close(fd)
            fd = nfd
        f = os.open(parts[-1], os.O_WRONLY | os.O_CREAT | os.O_TRUNC, 0o600, dir_fd=fd)
        os.write(f, data)
        os.close(f)
    finally:
        os.close(fd)


def build_world(ck, work, quick, rnd=0):
    """creates the scratch tree below `work` and returns the list of operations"""
    import random
    rng = random.Random(vlib.hash_str("C10-opens-%d-%d" % (ck.seed, rnd)))
    ops = []
    wb = work.encode()
    os.makedirs(os.path.join(work, "tmp"))
    open(os.path.join(work, "c10canary"), "wb").write(b"outside every module directory")
    open(os.path.join(work, "x"), "wb").write(b"outside too")
    insdir_rel = b"ins dir;$(touch PWNED)"
    populate_sample_dir(os.path.join(wb, insdir_rel))
    # helper payload: what a successful fake helper prints (a tiny valid song)
    open(os.path.join(work, "helper_payload"), "wb").write(mod_song([b"kick"]))

    dirnames = SHELLY[:] if not quick else [SHELLY[0]] + rng.sample(SHELLY[1:], 5)
    counter = [0]
    late = []           # operations that may abort the harness go last

    def new_id():
        counter[0] += 1
        return "o%d" % counter[0]

    entries = ["path", "mem", "file", "cb"]

    def name_sets(n, width):
        """n names for one file: hostile ones first (shuffled), padded with benign"""
        pool = HOSTILE[:]
        rng.shuffle(pool)
        k = rng.randint(n // 2, n)
        names = pool[:k] + [rng.choice(BENIGN) for _ in range(n - k)]
        rng.shuffle(names)
        # a few random byte soups
        for i in range(len(names)):
            if rng.random() < 0.08:
                names[i] = bytes(rng.choice(b"./\\:ak\x00\x80 ") for _ in range(rng.randint(1, width)))
        return names

    for di, dn in enumerate(dirnames):
        moddir_rel = ("mods " + dn).encode("utf-8", "surrogateescape")
        moddir = os.path.join(wb, moddir_rel)
        populate_sample_dir(moddir)
        styles = [moddir_rel + b"/", b"./" + moddir_rel + b"/", moddir + b"/", moddir_rel + b"//", moddir_rel + b"/sub/../"]
        base = ("song " + dn).encode("utf-8", "surrogateescape")

        def put(fname, data):
            open(os.path.join(moddir, fname), "wb").write(data)
            return fname

        files = []
        nm = name_sets(31, 22)
        files.append(("mod", put(base + b".mod", mod_song(nm)), nm, 22))
        nm = name_sets(31, 12)
        files.append(("stm", put(base + b".stm", stm_song(nm)), nm, 12))
        nm = name_sets(1, 31)
        files.append(("med2", put(base + b".med2", med2_song(nm[0])), nm, 31))
        nm = name_sets(1, 31)
        if b"\0" not in nm[0][:1]:
            files.append(("med3", put(base + b".med3", med3_song(nm[0])), [nm[0].split(b"\0")[0]], 31))
        nm = name_sets(3, 31)
        files.append(("med4", put(base + b".med4", med4_song(nm)), nm, 31))
        # Startrekker: generated (no companion) and the corpus module with its .nt companion
        files.append(("flt", put(base + b".flt", flt_module()), [], 0))
        zob = os.path.join(CORPUS, "zob-the-zob.mod")
        if os.path.exists(zob) and (di % 2 == 0 or not quick):
            shutil.copy(zob, os.path.join(moddir, b"zob " + base))
            shutil.copy(os.path.join(CORPUS, "m", "zob-the-zob.mod.nt"), os.path.join(moddir, b"zob " + base + b".nt"))
            files.append(("flt", b"zob " + base, [], 0))
        # Magnetic Fields Packer: corpus pair under hostile names; one with a dash and only a .set file
        mfp = os.path.join(CORPUS, "m", "mfp.crystaldragon title")
        if os.path.exists(mfp):
            tail = dn.encode("utf-8", "surrogateescape")
            shutil.copy(mfp, os.path.join(moddir, b"mfp." + tail))
            shutil.copy(os.path.join(CORPUS, "m", "smp.crystaldragon title"), os.path.join(moddir, b"smp." + tail))
            files.append(("mfp", b"mfp." + tail, [], 0))
            shutil.copy(mfp, os.path.join(moddir, b"mfp.kid-" + tail + b"-1"))
            shutil.copy(os.path.join(CORPUS, "m", "smp.crystaldragon title"), os.path.join(moddir, b"smp.kid-" + tail + b".set"))
            files.append(("mfp", b"mfp.kid-" + tail + b"-1", [], 0))
            shutil.copy(mfp, os.path.join(moddir, b"mfpX" + tail))           # base name without '.' at [3]
            files.append(("mfp", b"mfpX" + tail, [], 0))
        # helper signatures
        put(base + b".mo3", b"MO3" + bytes(rng.randrange(256) for _ in range(300)))
        files.append(("mo3", base + b".mo3", [], 0))
        put(base + b".rar", b"Rar!\x1a\x07\x00" + bytes(rng.randrange(256) for _ in range(300)))
        files.append(("rar", base + b".rar", [], 0))
        put(base + b".short.mo3", b"MO3" + bytes(60))
        files.append(("mo3short", base + b".short.mo3", [], 0))
        put(base + b".tiny.mo3", b"MO3" + bytes(10))
        files.append(("mo3short", base + b".tiny.mo3", [], 0))
        put(b"-x" + base + b".rar", b"Rar" + bytes(200))
        files.append(("rar", b"-x" + base + b".rar", [], 0))

        for fmt, fname, names, nlen in files:
            for entry in entries:
                if quick and entry != "path" and rng.random() < 0.35 and fmt not in ("flt", "mfp", "mo3", "rar"):
                    continue
                style = styles[0] if entry != "path" else rng.choice(styles)
                modpath = style + fname
                r = rng.random()
                ctxins = envins = None
                if fmt in ("mod", "stm", "med2", "med3", "med4"):
                    if r < 0.3:
                        ctxins = insdir_rel
                    elif r < 0.4:
                        envins = insdir_rel
                    elif r < 0.5:
                        ctxins = b"no such dir"
                        envins = insdir_rel
                    elif r < 0.55:
                        ctxins = b""
                if fmt == "mod" and entry == "path" and di == 0:
                    ctxins, envins = b"", None          # always exercised: empty instrument path
                if fmt == "stm" and entry == "mem" and di == 0:
                    ctxins, envins = None, b""
                helper = "ok" if (fmt in ("mo3", "rar") and rng.random() < 0.5) else "fail"
                ops.append(Op(new_id(), fmt, entry, modpath, ctxins, envins, helper, names, nlen))
        # a module in the current directory (dirname "")
        if di == 0:
            nm = name_sets(31, 22)
            open(os.path.join(wb, b"cwd song.mod"), "wb").write(mod_song(nm))
            populate_sample_dir(wb)
            ops.append(Op(new_id(), "mod", "path", b"cwd song.mod", None, None, "fail", nm, 22, "module in the current directory"))
            shutil.copy(os.path.join(moddir, base + b".flt"), os.path.join(wb, b"cwd.flt"))
            ops.append(Op(new_id(), "flt", "path", b"cwd.flt", None, None, "fail", [], 0, "module in the current directory"))
            # Startrekker module whose path does not fit flt_load's filename[1024]: directory part of 1030 bytes
            longdir = b"/".join([b"d" * 200] * 4 + [b"e" * 225])
            os.makedirs(os.path.join(wb, longdir))
            shutil.copy(os.path.join(moddir, base + b".flt"), os.path.join(wb, longdir, b"m.flt"))
            # the file a truncated name reaches (outside the module directory), made to look like a synth file
            open(os.path.join(wb, (longdir + b"/m.flt")[:1023]), "wb").write(b"ST1.2 ModuleINFO" + bytes(3000))
            for e in entries:
                ops.append(Op(new_id(), "flt", e, longdir + b"/m.flt", None, None, "fail", [], 0, "module path longer than 1020 bytes"))
            # ... and one that just fits (1020 bytes)
            fitdir = b"/".join([b"f" * 200] * 4 + [b"g" * (1020 - 804 - 6)])
            os.makedirs(os.path.join(wb, fitdir))
            shutil.copy(os.path.join(moddir, base + b".flt"), os.path.join(wb, fitdir, b"m.flt"))
            ops.append(Op(new_id(), "flt", "path", fitdir + b"/m.flt", None, None, "fail", [], 0, "module path of exactly 1020 bytes"))
            # Magnetic Fields module whose path nearly fills smp_filename[PATH_MAX]; the ".set" fallback must still fit
            mfpdata = open(os.path.join(CORPUS, "m", "mfp.crystaldragon title"), "rb").read()
            for total, bn in ((4090, b"mfp.kid-"), (4093, b"mfp.ki-x"), (4095, b"mfp.kid-")):
                rel = deep_path(total, bn)
                write_deep(wb, rel, mfpdata)
                late.append(Op(new_id(), "mfp", "path", rel, None, None, "fail", [], 0, "module path of %d bytes" % total))
    # ---- directories whose NAMES contain what the loaders' path surgery looks for ('-', '.', blanks, "smp." / ".set"
    # look-alikes), at several depths; companion present and MISSING; decoys wherever a wrong cut would land
    mfpdata = open(os.path.join(CORPUS, "m", "mfp.crystaldragon title"), "rb").read()
    smpdata = open(os.path.join(CORPUS, "m", "smp.crystaldragon title"), "rb").read()
    fltdata = flt_module()
    surgery = [b"my-mods", b"a.b-c d", b"smp.x-y", b"x.set-", b"-lead", b"mods.set", b"outer-dir/inner", b"o-1/smp.i-2/mfp.d-3",
               b"dot.dir/sub dir", b"trail-/"]
    if quick:
        surgery = surgery[:3] + rng.sample(surgery[3:], 3)
    for sd in surgery:
        sd = sd.rstrip(b"/")
        moddir = os.path.join(wb, sd)
        os.makedirs(moddir, exist_ok=True)
        populate_sample_dir(moddir)
        made = []           # (fmt, file name, sample names, name width)
        for bn, comp in ((b"mfp.crystal", b"smp.crystal"), (b"mfp.nocomp", None), (b"mfp.two words", None),
                         (b"mfp.kid-chaos", b"smp.kid.set"), (b"mfp.kid-none", None), (b"mfp.a-b-c", b"smp.a-b-c"),
                         (b"mfp.x.set", None), (b"mfp.smp.", None)):
            open(os.path.join(moddir, bn), "wb").write(mfpdata)
            if comp:
                open(os.path.join(moddir, comp), "wb").write(smpdata)
            made.append(("mfp", bn, [], 0))
        for bn, comp in ((b"trek.flt", None), (b"trek-2.flt", b"trek-2.flt.nt"), (b"a.b.flt", b"a.b.flt.AS")):
            open(os.path.join(moddir, bn), "wb").write(fltdata)
            if comp:
                open(os.path.join(moddir, comp), "wb").write(b"ST1.2 ModuleINFO" + bytes(24 * 120))
            made.append(("flt", bn, [], 0))
        nm = name_sets(31, 22)
        open(os.path.join(moddir, b"song-1.x.mod"), "wb").write(mod_song(nm))
        made.append(("mod", b"song-1.x.mod", nm, 22))
        nm = name_sets(31, 12)
        open(os.path.join(moddir, b"song.stm"), "wb").write(stm_song(nm))
        made.append(("stm", b"song.stm", nm, 12))
        nm = name_sets(3, 31)
        open(os.path.join(moddir, b"song-4.med"), "wb").write(med4_song(nm))
        made.append(("med4", b"song-4.med", nm, 31))
        styles = [sd + b"/", b"./" + sd + b"/", moddir + b"/"]
        for fmt, fname, names, nlen in made:
            for style in styles if fmt in ("mfp", "flt") else [rng.choice(styles)]:
                modpath = style + fname
                # decoys: every place a cut at some '-' or '.' of the path (+ a companion suffix) would reach outside the directory
                for i, ch in enumerate(modpath):
                    if ch in b"-." and i < len(style) - 1:
                        for sfx in (b".set", b".NT", b".nt", b".AS", b".as", b""):
                            decoy = os.path.join(wb, modpath[:i] + sfx)
                            if sfx and decoy.startswith(wb + b"/") and not os.path.lexists(decoy) and len(decoy) < 1000:
                                try:
                                    open(decoy, "wb").write(smpdata)
                                except OSError:
                                    pass
                ctxins = envins = None
                if fmt in ("mod", "stm", "med4") and rng.random() < 0.4:
                    ctxins = rng.choice(surgery).rstrip(b"/")
                ops.append(Op(new_id(), fmt, "path", modpath, ctxins, envins, "fail", names, nlen, "directory name with path-surgery characters"))
            if fmt in ("mfp", "flt"):
                ops.append(Op(new_id(), fmt, rng.choice(["mem", "file", "cb"]), sd + b"/" + fname, None, None, "fail", names, nlen,
                              "directory name with path-surgery characters"))
    # ---- two contexts in two threads: modules of the multi-file formats in two different directories, loaded
    # concurrently; the harness forces the interleaving at the companion opens; each thread is judged against ITS module
    pdirs = [b"pair one", b"pair-two"]
    pmods = {}
    benign = [b"kick", b"snare.smp", b"lead", b"x", b"Bass 1", b"KICK", b"Lead", b"SNARE.SMP"]
    for k, pd in enumerate(pdirs):
        d = os.path.join(wb, pd)
        os.makedirs(d, exist_ok=True)
        populate_sample_dir(d)
        open(os.path.join(d, b"only in %d" % k), "wb").write(bytes(64))
        own = [b"only in %d" % k]

        def names_for(n, width):
            pool = [x for x in benign + own if len(x) <= width]
            return [rng.choice(pool) for _ in range(n)]
        nm = names_for(12, 22)
        open(os.path.join(d, b"p.mod"), "wb").write(mod_song(nm))
        pmods[("mod", k)] = (pd + b"/p.mod", nm, 22)
        nm = names_for(12, 12)
        open(os.path.join(d, b"p.stm"), "wb").write(stm_song(nm))
        pmods[("stm", k)] = (pd + b"/p.stm", nm, 12)
        nm = names_for(1, 31)
        open(os.path.join(d, b"p.med2"), "wb").write(med2_song(nm[0]))
        pmods[("med2", k)] = (pd + b"/p.med2", nm, 31)
        nm = names_for(1, 31)
        open(os.path.join(d, b"p.med3"), "wb").write(med3_song(nm[0]))
        pmods[("med3", k)] = (pd + b"/p.med3", nm, 31)
        nm = names_for(3, 31)
        open(os.path.join(d, b"p.med4"), "wb").write(med4_song(nm))
        pmods[("med4", k)] = (pd + b"/p.med4", nm, 31)
        open(os.path.join(d, b"mfp.pair%d" % k), "wb").write(mfpdata)
        if k == 0:
            open(os.path.join(d, b"smp.pair%d" % k), "wb").write(smpdata)
        pmods[("mfp", k)] = (pd + b"/mfp.pair%d" % k, [], 0)
        open(os.path.join(d, b"p%d.flt" % k), "wb").write(fltdata)
        if k == 1:
            open(os.path.join(d, b"p%d.flt.nt" % k), "wb").write(b"ST1.2 ModuleINFO" + bytes(24 * 120))
        pmods[("flt", k)] = (pd + b"/p%d.flt" % k, [], 0)
    combos = [("mod", "mod"), ("stm", "stm"), ("mod", "stm"), ("med4", "med4"), ("med2", "med3"), ("med3", "med2"), ("mfp", "mfp"),
              ("flt", "flt"), ("mod", "mfp"), ("flt", "mod"), ("stm", "med4")]
    npair = 0
    for fa, fb in combos:
        for order in ((0, 1, 2) if (not quick or fa == fb == "mod") else (rng.choice((0, 1, 2)),)):
            npair += 1
            pid = "p%d" % npair
            (ma, na, wa), (mb2, nb, wb2) = pmods[(fa, 0)], pmods[(fb, 1)]
            ia = insdir_rel if (fa in ("mod", "stm", "med4") and rng.random() < 0.3) else None
            ib = pdirs[0] if (fb in ("mod", "stm", "med4") and rng.random() < 0.3) else None
            oa = Op(pid + "A", fa, "path", ma, ia, None, "fail", na, wa, "two threads")
            ob = Op(pid + "B", fb, "path", mb2, ib, None, "fail", nb, wb2, "two threads")
            oa.pair = (pid, order, "A", ob)
            ob.pair = (pid, order, "B", oa)
            ops += [oa, ob]
    # ---- histories on ONE context: load attempts through every entry point with every kind of outcome (module, not a
    # module, broken module, undepackable, helper-depacked, missing file), with or without release / a player run in
    # between; the later loads are multi-file formats and every directory holds companions a stale directory would reach
    hdirs = [b"hist a", b"hist-b", b"hist.c"]
    hfiles = {}
    hben = [b"kick", b"snare.smp", b"lead", b"x", b"Bass 1"]
    for k, hd in enumerate(hdirs):
        d = os.path.join(wb, hd)
        os.makedirs(d, exist_ok=True)
        populate_sample_dir(d)

        def hput(name, data, fmt, names=(), width=0, _d=d, _hd=hd, _k=k):
            open(os.path.join(_d, name), "wb").write(data)
            hfiles.setdefault(fmt, []).append((_hd + b"/" + name, list(names), width))
        nm = [rng.choice(hben) for _ in range(6)]
        hput(b"song.mod", mod_song(nm), "mod", nm, 22)
        nm = [rng.choice([x for x in hben if len(x) <= 12]) for _ in range(6)]
        hput(b"song.stm", stm_song(nm), "stm", nm, 12)
        nm = [rng.choice(hben)]
        hput(b"song.med2", med2_song(nm[0]), "med2", nm, 31)
        nm = [rng.choice(hben)]
        hput(b"song.med3", med3_song(nm[0]), "med3", nm, 31)
        nm = [rng.choice(hben) for _ in range(3)]
        hput(b"song.med4", med4_song(nm), "med4", nm, 31)
        hput(b"trek.flt", fltdata, "flt")
        if k != 1:
            open(os.path.join(d, b"trek.flt.nt"), "wb").write(b"ST1.2 ModuleINFO" + bytes(24 * 120))
        hput(b"mfp.hist", mfpdata, "mfp")
        open(os.path.join(d, b"smp.hist"), "wb").write(smpdata)
        hput(b"notes.txt", b"these are just some notes about the songs in here\n" * 3, "txt")
        hput(b"empty.bin", b"", "empty")
        hput(b"junk.xm", b"Extended Module: broken" + bytes(rng.randrange(256) for _ in range(300)), "junk")
        hput(b"junk.s3m", bytes(28) + b"\x1a\x10" + bytes(14) + b"SCRM" + bytes(40), "junk")
        hput(b"bad.gz", b"\x1f\x8b\x08\x00" + bytes(rng.randrange(256) for _ in range(200)), "gz")
        hput(b"x.mo3", b"MO3" + bytes(rng.randrange(256) for _ in range(200)), "mo3")
        hput(b"x.rar", b"Rar!\x1a\x07\x00" + bytes(200), "rar")
        hfiles.setdefault("missing", []).append((hd + b"/no such file", [], 0))
        hfiles.setdefault("dir", []).append((hd, [], 0))
    multi = ["mod", "stm", "med2", "med3", "med4", "flt", "mfp"]
    first_kinds = [("txt", "fail"), ("empty", "fail"), ("junk", "fail"), ("gz", "fail"), ("mo3", "fail"), ("mo3", "ok"), ("rar", "fail"),
                   ("missing", "fail"), ("dir", "fail"), ("mod", "fail"), ("flt", "fail"), ("mfp", "fail")]
    nh = [0]

    def add_hist(steps, ins=None):
        """steps: [(fmt, entry, helper, after)]"""
        nh[0] += 1
        hid = "h%d" % nh[0]
        made = []
        for idx, (fmt, entry, helper, after) in enumerate(steps):
            mp, names, width = rng.choice(hfiles[fmt])
            if entry != "path" and fmt in ("missing", "dir"):
                entry = "path"
            o = Op("%ss%d" % (hid, idx), fmt, entry, mp, ins, None, helper, names, width, "step %d of a history on one context" % idx)
            o.hist = (hid, idx, len(steps), after, ins)
            made.append(o)
        ops.extend(made)

    # systematic: every kind of earlier path load x every non-path entry x released or not, then a multi-file format
    k = 0
    for fk, helper in first_kinds:
        for e2 in ("mem", "file", "cb"):
            for after1 in ("none", "release"):
                if quick and (k % 3) != (ck.seed % 3) and not (fk in ("txt", "junk") and after1 == "none"):
                    k += 1
                    continue
                k += 1
                f2 = multi[k % len(multi)]
                add_hist([(fk, "path", helper, after1), (f2, e2, "fail", "none"), (multi[(k + 3) % len(multi)], "path", "fail", "play")])
    # random longer histories
    allk = list(hfiles)
    for _ in range(12 if quick else 60):
        steps = []
        for _i in range(rng.randint(2, 6)):
            fmt = rng.choice(multi) if rng.random() < 0.6 else rng.choice(allk)
            steps.append((fmt, rng.choice(["path", "path", "mem", "file", "cb"]), rng.choice(["fail", "ok"]),
                          rng.choice(["none", "none", "release", "play", "playrelease"])))
        add_hist(steps, ins=rng.choice([None, None, None, insdir_rel, hdirs[0]]))
    return ops + late


# ---------------------------------------------------------------- judging

def unhex(s):
    if s == "-":
        return b""
    if s == "NULL":
        return None
    return bytes.fromhex(s)


def is_child(r):
    return r != b"" and b"/" not in r and r not in (b".", b"..")


def judge(op, phase, calls, tmpdir, model):
    """returns (violations [(signature, what)], correspondence problems [str], observed summary)"""
    viol, corr = [], []
    entry, fmt = op.entry, op.fmt
    modpath = op.modpath
    dirname = modpath[:modpath.rfind(b"/") + 1] if entry == "path" else None
    ins = None
    if phase == "load":
        ins = op.ctxins if op.ctxins is not None else op.envins
    temps, forks, execs, opened, listed = set(), 0, [], [], []
    for c in calls:
        fn, args = c[0], c[1:]
        if fn in ("fopen", "open", "openat", "stat", "lstat", "access", "freopen", "creat"):
            p = unhex(args[0])
            mode = unhex(args[1]) if len(args) > 1 and fn in ("fopen", "freopen") else None
            readonly = True
            if fn in ("fopen", "freopen"):
                readonly = mode in (b"r", b"rb")
            elif fn in ("open", "openat"):
                readonly = (int(unhex(args[1]).split(b"@")[0], 16) & 0x243) == 0
            elif fn == "creat":
                readonly = False
            ok = False
            if p is None:
                ok = False
            elif entry == "path" and p == modpath:
                ok = True
            elif phase == "load" and dirname is not None and p.startswith(dirname) and is_child(p[len(dirname):]):
                ok = True
                opened.append(p)
            elif phase == "load" and ins is not None and p.startswith((ins or b".") + b"/") and is_child(p[len(ins or b".") + 1:]):
                ok = True
                opened.append(p)
            elif phase == "load" and ins == b"" and p.startswith(b"/") and is_child(p[1:]):
                # the directory listed was "." but the file is opened in "/"
                viol.append(("open:%s:empty-instrument-path" % fmt,
                             "%s(%r) with the instrument path set to \"\": the name was matched against the entries of the current "
                             "directory but is opened in the root directory" % (fn, p)))
                ok = True
                opened.append(p)
            if ok and not readonly:
                viol.append(("open:%s:write" % fmt, "%s(%r) is not read-only" % (fn, p)))
            if not ok:
                if p is not None and b"(null)" in p:
                    sig = "open:%s:null-path" % fmt
                elif p is not None and entry == "path" and len(p) < len(modpath) + 3 and (modpath + b".NT").startswith(p[:len(modpath)]) \
                        and len(modpath) + 3 >= 1024:
                    sig = "open:%s:truncated-path" % fmt
                elif entry != "path" and ins is None:
                    sig = "open:%s:stream-entry" % fmt
                else:
                    sig = "open:%s:escape" % fmt
                viol.append((sig, "%s(%r) during xmp_%s_module%s of %r: not the given file, not a temp file, not a direct child of "
                                  "the module directory %r or instrument path %r" % (
                                      fn, p, phase, "" if entry == "path" else "_from_" + entry, modpath, dirname, ins)))
                opened.append(p)
        elif fn == "opendir":
            p = unhex(args[0])
            ok = phase == "load" and ((dirname is not None and p == (dirname or b".")) or (ins is not None and p == (ins or b".")))
            listed.append(p)
            if not ok:
                viol.append(("opendir:%s:%s" % (fmt, "stream-entry" if entry != "path" and ins is None else "escape"),
                             "opendir(%r) during %s of %r (entry %s)" % (p, phase, modpath, entry)))
        elif fn == "mkstemp":
            tmpl, res = unhex(args[0]), unhex(args[1])
            if tmpl != tmpdir + b"/xmp_XXXXXX" or (res is not None and not (res.startswith(tmpdir + b"/xmp_") and is_child(res[len(tmpdir) + 1:]))):
                viol.append(("temp:outside-tmpdir", "mkstemp(%r) -> %r with TMPDIR=%r" % (tmpl, res, tmpdir)))
            if res is not None:
                temps.add(res)
        elif fn in ("unlink", "remove"):
            p = unhex(args[0])
            if p not in temps:
                viol.append(("unlink:foreign", "%s(%r): not a temp file created by this call" % (fn, p)))
        elif fn == "fork":
            forks += 1
        elif fn == "execvp":
            execs.append([unhex(a) for a in args])
        else:
            viol.append(("syscall:" + fn, "%s(%s) issued by the library" % (fn, ", ".join(repr(unhex(a)) for a in args))))
    # processes
    want = model.get("decision")
    for e in execs:
        file_, argv = e[0], e[1:]
        sig = None
        if entry != "path":
            sig = "exec:%s:stream-entry" % fmt
        elif want is None or want[0] != "external":
            sig = "exec:%s:unexpected" % fmt
        elif argv != want[1] or file_ != want[1][0]:
            sig = "exec:%s:argv" % fmt
        if sig:
            viol.append((sig, "execvp(%r, %r) during %s of %r (entry %s); expected %r" % (file_, argv, phase, modpath, entry, want)))
    if forks != len(execs):
        viol.append(("fork:%s:no-exec" % fmt, "%d fork() but %d exec" % (forks, len(execs))))
    if want is not None and want[0] == "external" and entry == "path" and not execs:
        corr.append("model starts %r for %r but the library did not" % (want[1], modpath))
    return viol, corr, {"opened": opened, "listed": listed, "temps": len(temps), "execs": execs}


def parse_log(text):
    """-> {(id, phase): (calls, rc)} , skips"""
    res, cur, key = {}, None, None
    for line in text.splitlines():
        f = line.split(" ")
        if f[0] == "begin":
            key, cur = (f[1], f[2]), []
        elif f[0] == "sys" and cur is not None:
            cur.append(f[1:])
        elif f[0] == "ret" and cur is not None:
            res[key] = (cur, int(f[3]))
            cur = None
        elif f[0] == "state":
            res.setdefault(("states", f[1]), {})[f[2]] = " ".join(f[3:6])
        elif f[0] == "tsys" and cur is not None:
            cur.append(f[1:])               # [who, function, args...]
        elif f[0] == "retp" and cur is not None:
            res[(f[1] + f[2], "load")] = ([c[1:] for c in cur if c[0] == f[2]], int(f[3]))
        elif f[0] == "endpair":
            cur = None
    return res


def model_queries(ops, work):
    """one driver batch: decrunch decision, flt and mfp companions, external sample paths per name"""
    lines, idx = [], []
    wb = work.encode()

    def listing(d):
        full = os.path.join(wb, d if d else b".")
        try:
            ents = [b".", b".."] + os.listdir(full)
        except OSError:
            return "nolist"
        return "%d %s" % (len(ents), " ".join(hx(e) for e in ents))

    for op in ops:
        try:
            head = open(os.path.join(wb, op.modpath), "rb").read(1024)
        except OSError:
            head = b""
        fn = hx(op.modpath) if op.entry == "path" else "none"
        lines.append("decrunch %s 0 %s" % (hx(head), fn))
        idx.append((op.id, "decision"))
        mp = hx(op.modpath) if op.entry == "path" else "none"
        if op.fmt == "flt":
            lines.append("flt " + mp)
            idx.append((op.id, "flt"))
        if op.fmt == "mfp":
            lines.append("mfp " + mp)
            idx.append((op.id, "mfp"))
        if op.fmt in ("mod", "stm"):
            # what the song-only loaders should open for every sample name (instrument order)
            ins = op.ctxins if op.ctxins is not None else op.envins
            dirname = op.modpath[:op.modpath.rfind(b"/") + 1] if op.entry == "path" else None
            d1 = "none" if ins is None else "%s %s" % (hx(ins), listing(ins))
            d2 = "none" if dirname is None else "%s %s" % (hx(dirname), listing(dirname))
            for nm in op.names:
                lines.append("ext 4096 %s %s %s" % (hx(copy_adjust(nm, op.name_len)), d1, d2))
                idx.append((op.id, "ext"))
    return lines, idx


def py_decision(op, work, min_header):
    try:
        head = open(os.path.join(work.encode(), op.modpath), "rb").read(1024)
    except OSError:
        head = b""
    if op.entry != "path" or len(head) < max(min_header, 3):
        return ("notpacked", [])
    if head[:3] == b"MO3":
        return ("external", [b"unmo3", b"-s", op.modpath, b"STDOUT"])
    if head[:3] == b"Rar":
        return ("external", [b"unrar", b"p", b"-inul", b"-xreadme", b"-x*.diz", b"-x*.nfo", b"-x*.txt", b"-x*.exe", b"-x*.com",
                             op.modpath])
    return ("notpacked", [])


OUTCOME = {0: "ok", -3: "format", -5: "depack", -6: "early", -7: "early"}


def history_states(ck, ops, log, bump):
    """correspondence for the context-history model (XmpModel.PathSafe.loadStep / histStep): what m->dirname, m->basename
    and the loaded flag hold after every load attempt and after every follow-up action, real context vs model"""
    hists = {}
    for o in ops:
        if o.hist:
            hists.setdefault(o.hist[0], []).append(o)
    lines, keys = [], []
    for hid, steps in hists.items():
        steps.sort(key=lambda o: o.hist[1])
        toks, real, complete = [], [], True
        for o in steps:
            got = log.get((o.id, "load"))
            st = log.get(("states", o.id))
            if got is None or not st or "loaded" not in st or "after" not in st:
                complete = False
                break
            ret = got[1]
            toks += [o.entry, hx(o.modpath), OUTCOME.get(ret, "load"), o.hist[3] if (ret == 0 or "release" in o.hist[3]) else "none"]
            if ret != 0 and "release" in o.hist[3]:
                toks[-1] = "release"
            real += [st["loaded"], st["after"]]
        if complete and toks:
            lines.append("hist " + " ".join(toks))
            keys.append((hid, steps, " ".join(real)))
    if not lines or not ck.driver_ok:
        return
    mo = vlib.run_driver("drv_c10", "\n".join(lines) + "\n")
    nbad = 0
    def canon2(real, model, steps):
        # mfp_load overwrites the first three characters of m->basename with "smp" (recorded as patchChar writes in
        # Gen.OpenSites.fieldWrites); the model keeps the name as given: such names are compared from the 4th
        # character on -- at the mfp step itself and wherever a later step of the history still shows that module
        # (a refused path load that fails before the release leaves the previous module and its names in place)
        tr, tm = real.split(" "), model.split(" ")
        names = set()
        for i, o in enumerate(steps):
            if o.fmt == "mfp":
                for j in (6 * i + 2, 6 * i + 5):
                    if j < len(tm) and tm[j] not in ("NULL", "-"):
                        names.add(tm[j])
        for j in range(2, max(len(tr), len(tm)), 3):
            if j < len(tm) and tm[j] in names:
                tm[j] = "..." + tm[j][6:]
                if j < len(tr) and tr[j] not in ("NULL", "-"):
                    tr[j] = "..." + tr[j][6:]
        return " ".join(tr), " ".join(tm)

    for (hid, steps, real), m, l in zip(keys, mo, lines):
        real, m = canon2(real, m, steps)
        if m == real:
            ck.cov["traces_validated_against_impl"] += 1
            bump("histories_compared")
        else:
            nbad += 1
            if nbad <= 3:
                ck.unproved("correspondence PathSafe.histStep vs src/load.c",
                            "history %s (%s): context fields (loaded dirname basename, after each load and each follow-up) real=`%s` model=`%s`" % (
                                hid, "; ".join("%s %r" % (o.entry, o.modpath) for o in steps), real[:600], m[:600]))


def tsan_pairs(ck, work, ops, tmpdir, bump):
    """thorough tier: the two-thread loads once more under ThreadSanitizer, without the parking (no artificial
    happens-before edges): a path buffer shared between contexts shows up as a data race inside libxmp"""
    import re
    exe = vlib.build_harness("c10_opens", ["c10_opens.c"], variant="tsan", extra=EXTRA, libs=["-lpthread"])
    plan = os.path.join(work, "plan-tsan.txt")
    lines = [l for l in (o.line() for o in ops if o.pair) if l]
    open(plan, "w").write("\n".join(lines * 3) + "\n")
    rc, out, err = vlib.run_exe(exe, [plan, work], timeout=1800,
                                env={"TMPDIR": tmpdir.decode(), "C10_NOBARRIER": "1",
                                     "TSAN_OPTIONS": "halt_on_error=0:exitcode=0:second_deadlock_stack=1"})
    bump("tsan_pair_loads", 2 * 3 * len(lines))
    reports = err.split("WARNING: ThreadSanitizer: ")[1:]
    seen = set()
    for r in reports:
        kind = r.split(" ", 2)[0] + " " + r.split(" ", 2)[1] if r.startswith("data race") else r.split("(")[0].strip()
        frames = re.findall(r"#\d+ (\w+) [^\n]*?/src/", r)
        frames = [f for f in frames if not f.startswith("__")]
        where = frames[0] if frames else "?"
        if not frames:
            continue            # not inside libxmp
        sig = "tsan:%s@%s" % (kind.replace(" ", "-"), where)
        if sig in seen:
            continue
        seen.add(sig)
        ck.violation(sig, {"round": 0, "how": "harness c10_opens built with -fsanitize=thread, env C10_NOBARRIER=1, plan = the pair lines",
                           "plan": lines[:6], "report": r[:3000]},
                     "ThreadSanitizer: %s in %s while two contexts load song-only / multi-file modules concurrently" % (kind, where))
    if rc not in (0,) and not reports:
        ck.note("tsan_run_rc", rc)


def run_opens(ck, only_round=None, only_op=None, verbose=False):
    quick = ck.tier == "quick"
    exe = vlib.build_harness("c10_opens", ["c10_opens.c"], extra=EXTRA, libs=["-lpthread"])
    rounds = 1 if quick else 16
    stats = {}

    def bump(k, n=1):
        stats[k] = stats.get(k, 0) + n

    for rnd in (range(rounds) if only_round is None else [only_round]):
        work = os.path.join(vlib.OUT, "c10-opens-%d-%d-%d" % (ck.seed, os.getpid(), rnd))
        shutil.rmtree(work, ignore_errors=True)
        os.makedirs(work)
        try:
            ops = build_world(ck, work, quick, rnd)
            if only_op is not None:
                sel = [o for o in ops if o.id == only_op]
                hids = {o.hist[0] for o in sel if o.hist}
                ops = [o for o in ops if o in sel or (o.hist and o.hist[0] in hids) or any(o is x.pair[3] for x in sel if x.pair)]
            plan = os.path.join(work, "plan.txt")
            open(plan, "w").write("\n".join(l for l in (o.line() for o in ops) if l) + "\n")
            tmpdir = os.path.join(work, "tmp").encode()
            rc, out, err = vlib.run_exe(exe, [plan, work], timeout=1800, env={"TMPDIR": tmpdir.decode()})
            log = parse_log(out.decode("latin-1"))
            if verbose:
                for l in out.decode("latin-1").splitlines():
                    f = l.split(" ")
                    if f[0] == "sys":
                        print("   " + " ".join([f[0], f[1]] + [repr(unhex(a))[:200] for a in f[2:]]))
                    elif f[0] == "tsys":
                        print("   " + " ".join(f[:3] + [repr(unhex(a))[:200] for a in f[3:]]))
                    else:
                        print("   " + l)
                print(err[-3000:])
            if rc != 0:
                sig = vlib.sanitizer_signature(err)
                done = len(log)
                ck.violation("opens-harness-abort:" + sig, {"round": rnd, "stderr": err[-3000:], "ops_done": done,
                                                            "next_op": ops[min(done // 2, len(ops) - 1)].describe()},
                             "load harness aborted (rc=%d): %s" % (rc, sig))
            # the model's view
            lines, idx = model_queries(ops, work)
            mo = vlib.run_driver("drv_c10", "\n".join(lines) + "\n") if ck.driver_ok else None
            model = {}
            if mo is not None:
                for (oid, what), ans in zip(idx, mo):
                    f = ans.split(" ")
                    if what == "decision":
                        model.setdefault(oid, {})[what] = (f[0], [unhex(x) for x in f[1:]])
                    elif what == "ext":
                        if f[0] == "1":
                            model.setdefault(oid, {}).setdefault("ext", []).append(unhex(f[1]))
                        else:
                            model.setdefault(oid, {}).setdefault("ext", [])
                    else:
                        model.setdefault(oid, {})[what] = [unhex(x) for x in f[1:]]
            if mo is None:
                # model driver unavailable (the Lean build itself is broken): judge helper spawns by the
                # property's own wording so that the oracle keeps working
                for op in ops:
                    model.setdefault(op.id, {})["decision"] = py_decision(op, work, getattr(ck, "min_header", 0))
            for op in ops:
                for phase in ("test", "load"):
                    got = log.get((op.id, phase))
                    if got is None:
                        continue
                    calls, ret = got
                    m = model.get(op.id, {})
                    viol, corr, obs = judge(op, phase, calls, tmpdir, m)
                    key = "%s/%s/%s" % (op.fmt, op.entry, phase)
                    beyond = [c for c in calls if not (c[0] in ("fopen", "stat") and unhex(c[1]) == op.modpath)]
                    ck.count(vlib.hash_str(repr((rnd, op.id, phase, op.modpath, op.names))), nontrivial=bool(beyond))
                    bump("loads_total")
                    bump("loads_" + op.fmt)
                    bump("oscalls_logged", len(calls))
                    bump("sample_files_opened", len([p for p in obs["opened"] if p is not None]))
                    bump("dirs_listed", len(obs["listed"]))
                    bump("temp_files", obs["temps"])
                    bump("helper_spawns", len(obs["execs"]))
                    if ret == 0:
                        bump("loads_ok")
                    if op.hist:
                        bump("history_steps")
                        bump("history_step_%s_%s" % (op.entry, {0: "ok", -3: "format", -4: "load", -5: "depack", -6: "system",
                                                                   -7: "invalid"}.get(ret, "other")))
                    if op.pair:
                        bump("thread_pair_loads")
                        bump("thread_pair_companion_opens", len(obs["opened"]))
                    for sig, what in viol:
                        if op.hist:
                            sig = "history:" + sig
                            prev = [o for o in ops if o.hist and o.hist[0] == op.hist[0] and o.hist[1] < op.hist[1]]
                            what += " -- step %d of a history on one context; earlier steps: %s" % (
                                op.hist[1], ", ".join("%s %r -> %s%s" % (o.entry, o.modpath, log.get((o.id, "load"), (None, "?"))[1],
                                                                          "" if o.hist[3] == "none" else " then " + o.hist[3])
                                                      for o in prev))
                        if op.pair:
                            sig = "thread:" + sig
                            what += " -- while another thread loaded %r (start order %d)" % (op.pair[3].modpath, op.pair[1])
                        what = what if len(what) < 700 else what[:340] + " ... " + what[-340:]
                        ck.violation(sig, {"round": rnd, "op": op.describe(), "phase": phase, "return": ret,
                                           "calls": [[c[0]] + [unhex(a) for a in c[1:]] for c in calls][:60],
                                           "how": "python3 tools/check.py C10 --replay <this file> rebuilds the file set and re-runs the operation"},
                                     what)
                    # correspondence: companions
                    if mo is not None and phase == "load" and (not viol or op.fmt in ("flt", "mfp")):
                        if op.fmt in ("flt", "mfp") and (len(op.modpath) + 3 < 1024 or op.fmt == "mfp"):
                            want = m.get(op.fmt, [])
                            seen = [p for p in obs["opened"]]
                            # the library stops at the first name that opens
                            exp = []
                            for w in want:
                                exp.append(w)
                                if os.path.exists(os.path.join(work.encode(), w)):
                                    break
                            if op.fmt == "mfp" and ret != 0:
                                exp = seen      # rejected before the sample stage (not an mfp module after all)
                            if seen != exp:
                                corr.append("%s companions: library opened %r, model says %r" % (op.fmt, seen, exp))
                            else:
                                ck.cov["traces_validated_against_impl"] += 1
                        elif op.fmt in ("mod", "stm") and ret == 0 and "ext" in m:
                            seen = [c for c in calls if c[0] == "fopen"]
                            seen = [unhex(c[1]) for c in seen if unhex(c[1]) != op.modpath or op.entry != "path"]
                            if op.entry == "path" and seen and seen[0] == op.modpath:
                                seen = seen[1:]
                            want = m.get("ext", [])
                            if seen != want:
                                corr.append("sample files: library opened %r, model (externalSamplePath per name) says %r" % (seen, want))
                            else:
                                ck.cov["traces_validated_against_impl"] += 1
                                bump("sample_lookups_compared", len(op.names))
                        elif m.get("decision") is not None:
                            ck.cov["traces_validated_against_impl"] += 1
                    for c in corr:
                        ck.unproved("correspondence PathSafe (loads) vs C", "op %s: %s" % (op.describe(), c))
                    if len(ck.cov["samples"]) < 6 and beyond and phase == "load":
                        ck.sample({"format": op.fmt, "entry": op.entry, "module": repr(op.modpath), "return": ret,
                                   "os_calls": ["%s %r" % (c[0], unhex(c[1])) for c in calls][:8]}, limit=6)
            history_states(ck, ops, log, bump)
            if (not quick or os.environ.get("C10_TSAN")) and rnd == 0 and only_op is None:
                tsan_pairs(ck, work, ops, tmpdir, bump)
            if os.path.exists(os.path.join(work, "PWNED")):
                ck.violation("shell:metacharacters-executed", {"work": work}, "a file named PWNED appeared: a shell interpreted the module path")
        finally:
            shutil.rmtree(work, ignore_errors=True)
    for k, v in sorted(stats.items()):
        ck.note(k, v)


def replay(ck, rp):
    """re-create the file set of the recorded round from the recorded seed and re-run the recorded operation
    (or the whole plan for a harness abort) on the real code; prints every intercepted OS call"""
    r = rp.get("replay", {})
    if rp.get("signature") == "unproved" or not isinstance(r, dict) or "round" not in r:
        print("this replay names broken theorems / correspondences, not an input:")
        print(str(r)[:3000])
        print("re-run: VERIF_SEED=%s python3 tools/check.py C10 --tier %s" % (rp.get("seed"), rp.get("tier")))
        return 1
    ck2 = vlib.Check("C10", rp.get("tier", "quick"), int(rp.get("seed", 1)))
    ck2.lean_ok = False
    ck2.driver_ok = os.path.exists(vlib.lean_driver("drv_c10"))
    import gen_open_sites
    ck2.min_header = gen_open_sites.generate()["min_header"]
    op = r.get("op", {}).get("id") if isinstance(r.get("op"), dict) else None
    print("replaying C10 load case: seed=%s tier=%s round=%s op=%s" % (rp.get("seed"), rp.get("tier"), r["round"], op or "(whole plan)"))
    if str(rp.get("signature", "")).startswith("tsan:"):
        os.environ["C10_TSAN"] = "1"        # the ThreadSanitizer pass over the two-thread loads
    run_opens(ck2, only_round=r["round"], only_op=op, verbose=not str(rp.get("signature", "")).startswith("tsan:"))
    bad = [v for v in ck2.violations] + [{"signature": k} for k in ck2.known_hits]
    for v in ck2.violations:
        print("VIOLATION property=C10 replay=%s   [%s] %s" % (v["replay"], v["signature"], v["what"][:300]))
    if not bad:
        print("the recorded operation no longer violates the property")
    return 1 if ck2.violations else 0
